"""C10 — magnet links carry the infohash, name, trackers, peers and selection faithfully.

Obligations: coq/Properties/C10.v (standard parser decodes the printed URI to exactly the fields, for
every byte string; own parser round trip; accept => 40-hex urn:btih topic; tracker order/de-dup;
index set; translator-generated safe set / pieces / literals).
Correspondence: `magnet_print` / `magnet_parse` / `metainfo_trackers` hooks vs the extracted model
(`mprint` / `mparse` / `mtrackers`), the real binary's `torrent link`, `torrent create --link`,
`torrent from-link` (rejections only). X12: String::from_utf8_lossy is modelled (Model/Utf8.v) and compared with the real
parser (`dn` values that percent-decode to arbitrary byte strings, `magnet_parse` hook), with Rust's std called directly and
with CPython's errors="replace" decoder (`u8lossy` / `mparse_lossy`).
Direct oracle: urllib.parse (`unquote`, `unquote_plus`, `parse_qsl`) on the text after `magnet:?`,
hashlib for the infohash, Python's own ordered de-duplication / sorted set."""
import hashlib, ipaddress, json, os, shutil, tempfile
from urllib.parse import unquote, unquote_plus, unquote_to_bytes, parse_qsl, urlsplit
import lib

MANIFEST = dict(
    text="Machine-checked proof over a Gallina model of MagnetLink::to_url / push_value / parse, Url::set_query and "
         "query_pairs, Metainfo::trackers and the BTreeSet of indices: for every byte string in every field a standard "
         "query-string parser (with or without +-as-space) decodes the printed URI to exactly xt, dn, tr*, x.pe*, so; imdl's own "
         "parser recovers infohash, name, trackers, peers; anything it accepts has a 40-hex urn:btih topic. String::from_utf8_lossy "
         "(applied by query_pairs to every key and value) is modelled after std's Utf8Chunks loop and proved, for all byte strings, to "
         "fix exactly the valid UTF-8 strings, to return valid UTF-8, to be idempotent, to replace each maximal invalid part by one "
         "U+FFFD that never merges with a neighbour; a dn value that is not valid UTF-8 is reported as exactly that conversion. Tied to the code by "
         "translator-generated tables (safe set, pushed pieces, parser literals) and a hook/binary correspondence run with an "
         "independent urllib oracle. Right level: fidelity depends on every reserved character in every field.",
    ref="DESIGN.md section 5, C10",
    technique="Coq proof over a Gallina model + translator-generated tables + model/implementation correspondence run",
    note="Since X14 the typed parsers are concrete inside stated fragments (Model/UrlConcrete.v: c_url_norm = X10's model of Url::parse, "
         "c_hp_norm = C17's HostPort over X9's Host::parse) and the own-parser round trip is proved with NO library variable left for links "
         "whose trackers are normal URLs and whose peers are printed host:port values (c10_own_parser_roundtrip_concrete); the fully concrete "
         "parser is compared with the magnet_parse hook on every text of the run inside the fragments. Assumed outside the fragments "
         "(Section variables of the general theorems, validated through hooks): url crate parse-of-serialisation is the identity on a link's "
         "trackers, HostPort parse-of-display is the identity on its peers (IDNA / non-ASCII hosts, file: URLs, URLs without `//`). "
         "from_utf8_lossy is no longer assumed: Model/Utf8.v, compared on >= 100 000 byte strings per quick run with the parser, with std "
         "called directly and with CPython. "
         "Typed fields are compared modulo url-crate normal form; 'distinct tracker' = distinct stored text. "
         "`magnet://authority` texts are outside the parser model (oracle only). Trusted: Coq kernel, tools/rs2v_magnet.py, "
         "extraction + runner, hooks + harness, Python oracle (urllib.parse, hashlib).")

U64 = (1 << 64) - 1
RESERVED = " &=+%#?/:@'\"<>,;[]{}|\\^`~!$()*"
DEFECT_NAME = "a&b=c+d%41#e f"          # DESIGN.md section 6


# ---------------------------------------------------------------- generators

def gen_name(r, argv_safe=False):
    if r.random() < 0.03:
        return ""
    out = []
    for _ in range(r.randint(1, r.choice([1, 2, 3, 5, 8, 13, 21, 40]))):
        x = r.random()
        if x < 0.40:
            out.append(r.choice(RESERVED))
        elif x < 0.50:
            out.append("%" + r.choice(["41", "20", "2B", "26", "3d", "zz", "4", "", "25", "00", "e9", "C3%A9", "23"]))
        elif x < 0.56:
            out.append(r.choice("\t\n\r"))
        elif x < 0.60:
            out.append(chr(r.choice([1, 7, 0x1b, 0x1f, 0x7f] + ([] if argv_safe else [0]))))
        elif x < 0.72:
            out.append(r.choice(["é", "ß", "日本", "😀", "\u00a0", "\u2028", "e\u0301", "И", "\ufffd"]))
        else:
            out.append(r.choice("abcxyzABCXYZ0189-._"))
    return "".join(out)


def gen_label(r):
    return "".join(r.choice("abcdefghijklmnopqrstuvwxyz0123456789-") for _ in range(r.randint(1, 8))).strip("-") or "t"


def gen_host(r, allow_odd=True):
    x = r.random()
    if x < 0.55:
        h = ".".join(gen_label(r) for _ in range(r.randint(1, 3))) + r.choice([".example", ".org", ".test", ".i2p"])
        if allow_odd and r.random() < 0.12:
            h = h.upper() if r.random() < 0.5 else "bücher." + h
        return h
    if x < 0.78:
        return ".".join(str(r.choice([0, 1, 10, 127, 192, 255, r.randrange(256)])) for _ in range(4))
    v = r.choice([1, r.getrandbits(128), r.getrandbits(32), (0x20010db8 << 96) | r.getrandbits(16),
                  (0xfe80 << 112) | r.getrandbits(64), (0xffff << 32) | r.getrandbits(32)])
    a = ipaddress.IPv6Address(v)
    return "[" + (a.exploded if allow_odd and r.random() < 0.15 else a.compressed) + "]"


PCHARS = "abcxyzABC019-._~!$&'()*+,;=:@"
QCHARS = "abcxyzABC019-._~!$&()*+,;=:@/?"


def gen_tracker(r):
    scheme = r.choice(["http", "https", "udp", "udp", "wss", "http"])
    host = gen_host(r)
    if r.random() < 0.08:
        host = host.upper()
    port = "" if r.random() < 0.3 else ":" + str(r.choice([80, 443, 6969, 1337, 1, 65535, r.randrange(1, 65536)]))
    path = ""
    if scheme != "udp" or r.random() < 0.7:
        segs = []
        for _ in range(r.randint(1, 3)):
            s = "".join(r.choice(PCHARS) if r.random() < 0.85 else "%" + r.choice(["20", "2F", "3f", "25", "C3%A9", "26", "23"])
                        for _ in range(r.randint(1, 8)))
            segs.append(s)
        path = "/" + "/".join(segs)
        if r.random() < 0.5:
            path = "/announce" if r.random() < 0.5 else path + "/announce"
    query = ""
    if r.random() < 0.55:
        n = r.randint(1, 3)
        kv = []
        for _ in range(n):
            k = "".join(r.choice("abcxyz_.") for _ in range(r.randint(1, 5)))
            v = "".join(r.choice(QCHARS) if r.random() < 0.8 else r.choice(["%20", "%26", "%3D", "%2b", "+", "%25", "%zz", "%", "%C3%A9"])
                        for _ in range(r.randint(0, 10)))
            kv.append(k + "=" + v)
        query = "?" + "&".join(kv)
    frag = "#" + "".join(r.choice("abc=&+%20") for _ in range(r.randint(0, 5))) if r.random() < 0.1 else ""
    return "%s://%s%s%s%s%s" % (scheme, host, port, path, query, frag)


# host names the url crate's Host::parse accepts although they carry characters that mean something in a query string
# (sub-delimiters are not forbidden host code points); the ones it refuses are dropped by the validity filter below
ODD_LABELS = ["seed+backup", "a&b", "a&dn=evil", "x=y", "k=v&k2=v2", "a;b", "a,b", "it's", "(x)", "a*b", "a!b", "a$b", "a~b", "a_b",
              "+", "&", "=", "a+", "&a", "100%", "%41", "a%26b", "a b", "a#b", "a?b", "tr=x", "so=1", "xt=urn:btih"]


def gen_peer(r):
    port = r.choice([0, 1, 80, 6881, 65535, r.randrange(65536)])
    if r.random() < 0.3:
        host = r.choice(ODD_LABELS) + r.choice(["", ".example", ".org", "." + r.choice(ODD_LABELS)])
        return "%s:%d" % (host, port)
    return "%s:%d" % (gen_host(r), port)


def gen_indices(r):
    x = r.random()
    if x < 0.35:
        return []
    pool = [0, 1, 2, 3, 5, 7, 10, 100, 4294967295, 4294967296, 1 << 63, U64, U64 - 1, r.getrandbits(64), r.getrandbits(20)]
    return [r.choice(pool) for _ in range(r.randint(1, 8))]


def torrent_bytes(name, announce, tiers, files=None):
    info = {"name": name.encode(), "piece length": 16384, "pieces": b""}
    if files:
        info["files"] = [{"length": 0, "path": [("f%d" % i).encode()]} for i in range(files)]
    else:
        info["length"] = 0
    d = {"info": info}
    if announce is not None:
        d["announce"] = announce.encode()
    if tiers is not None:
        d["announce-list"] = [[t.encode() for t in tier] for tier in tiers]
    return lib.bencode(d)


# ---------------------------------------------------------------- the independent oracle

def std_decode(q, plus):
    """split on & and the first =, percent-decode; [plus] = +-as-space. None marks undecodable text."""
    dec = unquote_plus if plus else unquote
    pairs = []
    for seg in q.split("&"):
        k, _, v = seg.partition("=")
        try:
            pairs.append((dec(k, errors="strict"), dec(v, errors="strict")))
        except UnicodeDecodeError:
            pairs.append((None, None))
    return pairs


def expected_pairs(ih_hex, name, trs, prs, idx):
    e = [("xt", "urn:btih:" + ih_hex)]
    if name is not None:
        e.append(("dn", name))
    e += [("tr", t) for t in trs] + [("x.pe", p) for p in prs]
    if idx:
        e.append(("so", ",".join(str(i) for i in sorted(set(idx)))))
    return e


def oracle_uri(uri, want):
    """-> list of complaints (empty = the property holds for this URI)"""
    if not uri.startswith("magnet:?"):
        return ["URI does not start with `magnet:?`"]
    q = uri[len("magnet:?"):]
    bad = []
    for plus in (False, True):
        got = std_decode(q, plus)
        if got != want:
            bad.append("standard parser (%s) decodes %r, expected %r" %
                       ("+ as space" if plus else "+ literal", first_diff(got, want), first_diff(want, got)))
    try:
        got = parse_qsl(q, keep_blank_values=True, errors="strict")
    except (UnicodeDecodeError, ValueError):
        got = None
    if got != want and not bad:
        bad.append("urllib.parse.parse_qsl decodes %r, expected %r" % (got, want))
    return bad


def first_diff(a, b):
    for i, x in enumerate(a):
        if i >= len(b) or b[i] != x:
            return (i, x)
    return (len(a), None) if len(a) != len(b) else None


HEX = set("0123456789abcdefABCDEF")
C0SP = "".join(chr(i) for i in range(33))


def oracle_parse_text(text):
    """What the property demands of a parser on an arbitrary text, stated with urllib:
    -> ("reject", why) when there is no xt=urn:btih:<40 hex> pair, ("topic", first_topic_hex, pairs) otherwise,
       ("skip", why) when urllib itself cannot split the text."""
    t = text.strip(C0SP)
    try:
        sp = urlsplit(t)
    except ValueError as e:
        return ("skip", "urlsplit: %s" % e)
    if sp.scheme != "magnet":
        return ("reject", "scheme is %r" % sp.scheme)
    pairs = []
    for seg in sp.query.split("&"):
        if not seg:
            continue
        k, _, v = seg.partition("=")
        pairs.append((unquote_to_bytes(k.replace("+", " ")).decode("utf-8", "replace"),
                      unquote_to_bytes(v.replace("+", " ")).decode("utf-8", "replace")))
    topics = [v[9:] for k, v in pairs if k == "xt" and v.startswith("urn:btih:")]
    valid = [h for h in topics if len(h.encode()) == 40 and all(c in HEX for c in h)]
    if not valid:
        return ("reject", "no xt=urn:btih:<40 hex> pair")
    return ("topic", topics[0], pairs)


# ---------------------------------------------------------------- normal forms of typed fields (external: url crate)

class Norm:
    """Url / HostPort normal forms, obtained from imdl's own typed parsers through the hooks; this is the
    instantiation of the model's Section variables url_norm / hp_norm. Idempotence is the hypothesis of
    c10_own_parser_roundtrip and is validated for every value used."""

    def __init__(self, ctx):
        self.ctx, self.url, self.hp = ctx, {}, {}

    def _urls(self, texts):
        texts = [t for t in dict.fromkeys(texts) if t not in self.url]
        rep = self.ctx.harness(["trackers " + lib.hexs(torrent_bytes("n", t, None)) for t in texts])
        for t, r in zip(texts, rep):
            self.url[t] = lib.unhexlist(r[3:])[0].decode() if r.startswith("OK ") and r[3:] != "~" else None

    def _hps(self, texts):
        texts = [t for t in dict.fromkeys(texts) if t not in self.hp]
        rep = self.ctx.harness(["hpparse " + lib.hexs(t) for t in texts])
        for t, r in zip(texts, rep):
            self.hp[t] = lib.unhex(r[3:]).decode() if r.startswith("OK ") else None

    def add(self, urls=(), hps=()):
        urls, hps = list(urls), list(hps)
        self._urls(urls); self._hps(hps)
        # idempotence on the normal forms themselves
        nu = [self.url[t] for t in urls if self.url[t] is not None]
        nh = [self.hp[t] for t in hps if self.hp[t] is not None]
        self._urls(nu); self._hps(nh)
        for n in nu:
            if self.url[n] != n:
                self.ctx.violation("assumption-broken", "Url::parse is not the identity on the serialisation %r (gives %r)" % (n, self.url[n]),
                                   {"hypothesis": "url_norm t = Some t for a link's trackers", "input": n, "output": self.url[n]})
        for n in nh:
            if self.hp[n] != n:
                self.ctx.violation("assumption-broken", "HostPort::from_str is not the identity on the display %r (gives %r)" % (n, self.hp[n]),
                                   {"hypothesis": "hp_norm p = Some p for a link's peers", "input": n, "output": self.hp[n]})


# ---------------------------------------------------------------- print + own-parse cases (hooks, model, oracle)

def print_line(c):
    return "mprint %s %s %s %s %s" % (c["ih"], "~" if c["name"] is None else lib.hexs(c["name"]),
                                      lib.hexlist(c["trackers"]), lib.hexlist(c["peers"]),
                                      ",".join(str(i) for i in c["indices"]) if c["indices"] else "~")


def judge_print(c, reply):
    """oracle on the implementation's printed URI -> (uri or None, complaints)"""
    if not reply.startswith("OK "):
        return None, ["magnet_print did not return a URI: %s" % reply[:200]]
    uri = lib.unhex(reply[3:]).decode("utf-8", "replace")
    want = expected_pairs(c["ih"], c["name"], c["trackers"], c["peers"], c["indices"])
    return uri, oracle_uri(uri, want)


def judge_own(c, reply):
    if not reply.startswith("OK "):
        return ["imdl's own parser rejects the URI imdl printed: %s" % lib.unhex(reply[4:]).decode("utf-8", "replace")[:200]
                if reply.startswith("ERR ") else reply[:100]]
    f = reply.split(" ")
    got = (f[1], None if f[2] == "~" else lib.unhex(f[2]).decode("utf-8", "replace"),
           [x.decode("utf-8", "replace") for x in lib.unhexlist(f[3])], [x.decode("utf-8", "replace") for x in lib.unhexlist(f[4])])
    want = (c["ih"], c["name"], c["trackers"], c["peers"])
    names = ("infohash", "name", "trackers", "peers")
    return ["own parser recovers %s %r, expected %r" % (n, g, w) for n, g, w in zip(names, got, want) if g != w]


def reproduce_print(ctx, c):
    """the same case on the real binary: a torrent carrying the name and trackers, peers and indices as arguments"""
    tb = torrent_bytes(c["name"] if c["name"] is not None else "", c["trackers"][0] if c["trackers"] else None,
                       [c["trackers"][1:]] if len(c["trackers"]) > 1 else None)
    argv = ["torrent", "link", "--input", "t.torrent"]
    for p in c["peers"]:
        argv += ["--peer", p]
    if c["indices"]:
        argv += ["--select-only", ",".join(str(i) for i in c["indices"])]
    d = tempfile.mkdtemp(prefix="c10-")
    try:
        open(os.path.join(d, "t.torrent"), "wb").write(tb)
        rc, out, err = ctx.imdl(argv, cwd=d)
    finally:
        shutil.rmtree(d, ignore_errors=True)
    return {"shell": "echo %s | xxd -r -p > t.torrent; imdl %s" % (tb.hex(), " ".join(sh_quote(a) for a in argv)),
            "rc": rc, "stdout": out.decode("utf-8", "replace"), "stderr": err.decode("utf-8", "replace")[-300:]}


def sh_quote(a):
    return "'" + a.replace("'", "'\\''") + "'"


def case_size(c):
    return len(c["name"] or "") + sum(map(len, c["trackers"])) + sum(map(len, c["peers"])) + len(c["indices"]) + \
        10 * (len(c["trackers"]) + len(c["peers"]))


def shrink_print(ctx, c, fails):
    """greedy batch shrinking: drop list items, cut the name down to halves / single characters"""
    for _ in range(8):
        cands = []
        for k in ("trackers", "peers"):
            for i in range(len(c[k])):
                cands.append(dict(c, **{k: c[k][:i] + c[k][i + 1:]}))
        if c["indices"]:
            cands.append(dict(c, indices=[]))
            cands.append(dict(c, indices=c["indices"][:1]))
        n = c["name"]
        if n:
            h = len(n) // 2
            cands += [dict(c, name=n[:h]), dict(c, name=n[h:])] + [dict(c, name=ch) for ch in dict.fromkeys(n)]
            cands += [dict(c, name=n[:i] + n[i + 1:]) for i in range(min(len(n), 40))]
        cands = [x for x in cands if case_size(x) < case_size(c)]
        if not cands:
            break
        rep = ctx.harness([print_line(x) for x in cands])
        failing = [x for x, r in zip(cands, rep) if fails(x, r)]
        if not failing:
            break
        c = min(failing, key=case_size)
    return c


def run_print_cases(ctx, cases, label):
    lines = [print_line(c) for c in cases]
    impl = ctx.harness(lines)
    model = ctx.model(lines)
    uris = []
    for c, i in zip(cases, impl):
        uris.append(lib.unhex(i[3:]) if i.startswith("OK ") else b"")
    own_i = ctx.harness(["mparse " + lib.hexs(u) for u in uris])
    own_m = ctx.model(["mparse " + lib.hexs(u) for u in uris])
    reported = 0
    for c, i, m, oi, om in zip(cases, impl, model, own_i, own_m):
        ctx.cov["evaluations"] += 1
        ctx.cov["traces_validated_against_impl"] += 1
        ctx.count(label)
        text = (c["name"] or "") + "".join(c["trackers"])
        special = sorted(set(ch if ch in RESERVED else ("ctl" if ord(ch) < 32 or ord(ch) == 127 else "non-ascii" if ord(ch) > 127 else "")
                             for ch in text) - {""})
        if special:
            ctx.distinct((tuple(special), min(len(c["trackers"]), 3), min(len(c["peers"]), 3), bool(c["indices"])))
        for s in special:
            ctx.count("field_has_" + ("space" if s == " " else s))
        uri, bad = judge_print(c, i)
        if uri is not None and not bad:
            bad = judge_own(c, oi)
        if bad:
            if reported < 3:
                reported += 1
                small = shrink_print(ctx, c, lambda x, r: bool(judge_print(x, r)[1]) or
                                     (judge_print(x, r)[0] is not None and bool(judge_own(x, ctx.harness(["mparse " + lib.hexs(judge_print(x, r)[0])])[0]))))
                r2 = ctx.harness([print_line(small)])[0]
                u2, b2 = judge_print(small, r2)
                if u2 is not None and not b2:
                    b2 = judge_own(small, ctx.harness(["mparse " + lib.hexs(u2)])[0])
                case = {"kind": "print", "input": small, "impl_uri": u2, "oracle": b2 or bad,
                        "model_uri": lib.unhex(ctx.model([print_line(small)])[0][3:]).decode("utf-8", "replace"),
                        "unshrunk_input": c, "reproduce_hook": "printf '%s\\n' | imdl-verif-harness" % print_line(small),
                        "real_binary": reproduce_print(ctx, small)}
                ctx.violation("oracle-failure", "magnet link for name %r, trackers %r, peers %r, indices %r is not faithful: %s" %
                              (small["name"], small["trackers"], small["peers"], small["indices"], (b2 or bad)[0]), case)
            else:
                ctx.violation("oracle-failure", "magnet link not faithful: " + bad[0], {"kind": "print", "input": c, "impl_uri": uri})
            continue
        # correspondence on the observables: decoded pairs of the model's URI, and the own-parser results
        muri = lib.unhex(m[3:]).decode("utf-8", "replace") if m.startswith("OK ") else None
        want = expected_pairs(c["ih"], c["name"], c["trackers"], c["peers"], c["indices"])
        if muri is None or oracle_uri(muri, want):
            ctx.cov["disagreements_checked"] += 1
            ctx.violation("model-impl-disagreement", "Magnet.print does not decode to the fields where the implementation does (%s)" % m[:80],
                          {"kind": "print", "input": c, "impl_uri": uri, "model": m, "relation": "decoded pairs of print"})
        elif muri != uri:
            ctx.count("uri_text_differs_from_model")
        if oi.split(" ")[:5] != om.split(" ")[:5]:
            ctx.cov["disagreements_checked"] += 1
            ctx.violation("model-impl-disagreement", "Magnet.own_parse and MagnetLink::parse differ on a printed URI",
                          {"kind": "parse", "text": uri, "impl": oi, "model": om, "relation": "own_parse (print l)"})
    return uris


# ---------------------------------------------------------------- arbitrary texts through the parser

def gen_texts(r, pool_tr, pool_pe, n):
    out = []
    h40 = lambda: "".join(r.choice("0123456789abcdef") for _ in range(40))
    for _ in range(n):
        h = h40()
        tv = r.random()
        if tv < 0.35:
            topic = h
        elif tv < 0.42:
            topic = h.upper() if r.random() < 0.5 else "".join(ch.upper() if r.random() < 0.5 else ch for ch in h)
        elif tv < 0.52:
            topic = h[:r.choice([0, 1, 20, 38, 39])]
        elif tv < 0.58:
            topic = h + r.choice(["0", "ab", h])
        elif tv < 0.68:
            i = r.randrange(40)
            # one character that is no hex digit - among them what a number parser takes for part of a number (a sign, white
            # space, an underscore, a radix prefix), escaped so that it reaches the topic as that character (added after seeded
            # change C10-13: pairs decoded with from_str_radix accepted `+a`)
            topic = h[:i] + r.choice(["g", "z", " ", "-", "é", "+", "%20", "%67", ":", "x", "%2B", "%2b", "%2D", "_", "%09", "%0A", "%00",
                                      "X", "%C2%A0", "%EF%BC%91"]) + h[i + 1:]
            if r.random() < 0.4:
                # the same at the first character of a pair, in one to twenty pairs
                t = list(h)
                for j in r.sample(range(20), r.choice([1, 1, 2, 20])):
                    t[2 * j] = r.choice(["%2B", "%2D", "%20", "0x"[0:1] + "", "%2B"])
                topic = "".join(t)
        elif tv < 0.76:
            i = r.randrange(40)
            topic = h[:i] + "%%%02x" % ord(h[i]) + h[i + 1:]          # an escaped hex digit: still 40 hex after decoding
        else:
            topic = h
        kx = r.random()
        key = "xt" if kx < 0.72 else r.choice(["XT", "xt.1", "x%74", "%78t", "xt+", "+xt", "xs", "x t", "xt%20", "tx"])
        px = r.random()
        prefix = "urn:btih:" if px < 0.75 else r.choice(["urn:sha1:", "urn:btih", "URN:BTIH:", "urn%3Abtih%3A", "urn:btih%3a", "urn:btmh:",
                                                         "", " urn:btih:", "urn:btih::"])
        segs = []
        topic_seg = key + "=" + prefix + topic
        others = []
        for _ in range(r.randint(0, 4)):
            o = r.random()
            if o < 0.3:
                others.append("dn=" + r.choice(["foo", "a+b", "a%20b", "a%2Bb", "%zz%", "%C3%A9", "%ff%fe", "", "a=b", "é", "%41%4"]))
            elif o < 0.5 and pool_tr:
                t = r.choice(pool_tr)
                enc = "".join(chr(b) if (b < 128 and chr(b).isalnum()) or chr(b) in ":/.-_~" else "%%%02X" % b for b in t.encode())
                others.append("tr=" + (t if r.random() < 0.3 else enc))
            elif o < 0.65 and pool_pe:
                others.append("x.pe=" + r.choice(pool_pe))
            elif o < 0.72:
                others.append(r.choice(["tr=notaurl", "tr=", "x.pe=nohostport", "x.pe=h:99999", "tr=http://[::1", "x.pe=:80"]))
            elif o < 0.8:
                others.append("xt=urn:btih:" + r.choice([h40(), h40()[:30], "q" * 40]))
            elif o < 0.88:
                others.append(r.choice(["", "", "=", "=v", "k", "so=1,2", "ws=http://w/", "xt", "xt=", "dn"]))
            else:
                others.append("xt=" + r.choice(["urn:sha1:abc", "urn:ed2k:1", "urn:btih"]))
        if r.random() < 0.9:
            others.insert(r.randint(0, len(others)), topic_seg)
        q = "&".join(others)
        sx = r.random()
        if sx < 0.70:
            text = "magnet:?" + q
        else:
            text = r.choice(["MAGNET:?", "Magnet:?", " magnet:?", "\tmagnet:?", "mag\nnet:?", "magnet:x?", "magnet:/?", "magnet:/a/b?",
                             "magnet:", "magnet:&", "magnet:#?", "magnet?", "http://h/?", "magnets:?", "magnet+x:?", ":?", "?", "",
                             "magnet:??", "magnet:?&", "1magnet:?", "mágnet:?", "magnet://h/?", "magnet://h:1/p?", "magnet:///?"]) + q
        ex = r.random()
        if ex < 0.08:
            text += r.choice(["#", "#frag", "#xt=urn:btih:" + h, " ", "\n", "\t \r\n", "&", "&&"])
        elif ex < 0.12 and "#" not in text:
            i = r.randrange(len(text) + 1)
            text = text[:i] + r.choice(["#", "\t", "\n", " ", "&", "=", "%", "+"]) + text[i:]
        out.append(text)
    return out


def text_verdict(t, i):
    """oracle on one parser reply -> complaint or None"""
    ok = i.startswith("OK ")
    if not ok and not i.startswith("ERR "):
        return "MagnetLink::parse did not return normally on %r: %s" % (t, i[:80])
    o = oracle_parse_text(t)
    if o[0] == "reject" and ok:
        return "imdl accepts %r although it has no 40-hex urn:btih topic (%s)" % (t, o[1])
    if o[0] == "topic" and ok and i.split(" ")[1] != o[1].lower():
        return "imdl reports infohash %s for %r, the first urn:btih topic is %s" % (i.split(" ")[1], t, o[1])
    return None


def shrink_text(ctx, t):
    """drop `&`-segments of the query while the oracle still complains"""
    for _ in range(12):
        head, sep, q = t.partition("?")
        segs = q.split("&")
        cands = [head + sep + "&".join(segs[:k] + segs[k + 1:]) for k in range(len(segs))] if sep and len(segs) > 1 else []
        cands = [c for c in dict.fromkeys(cands) if len(c) < len(t)]
        if not cands:
            break
        rep = ctx.harness(["mparse " + lib.hexs(c) for c in cands])
        failing = [c for c, r in zip(cands, rep) if text_verdict(c, r)]
        if not failing:
            break
        t = min(failing, key=len)
    return t


def run_text_cases(ctx, texts, norm, label):
    impl = ctx.harness(["mparse " + lib.hexs(t) for t in texts])
    model = ctx.model(["mparse " + lib.hexs(t) for t in texts])
    # typed values the model passed through untouched: instantiate url_norm / hp_norm from the hooks
    need_u, need_h = [], []
    for m in model:
        if m.startswith("OK "):
            f = m.split(" ")
            need_u += [x.decode("utf-8", "replace") for x in lib.unhexlist(f[3])]
            need_h += [x.decode("utf-8", "replace") for x in lib.unhexlist(f[4])]
    norm.add(need_u, need_h)
    shrunk = 0
    for t, i, m in zip(texts, impl, model):
        ctx.cov["evaluations"] += 1
        ctx.count(label)
        ok = i.startswith("OK ")
        o = oracle_parse_text(t)
        ctx.count("parse_impl_" + ("accepts" if ok else "rejects"))
        ctx.count("parse_oracle_" + o[0])
        ctx.distinct(("parse", o[0], ok, t[:9], "%" in t, "+" in t, "#" in t))
        complaint = text_verdict(t, i)
        if complaint:
            t0 = t
            if shrunk < 3:
                shrunk += 1
                t = shrink_text(ctx, t)
                i = ctx.harness(["mparse " + lib.hexs(t)])[0]
                complaint = text_verdict(t, i) or complaint
            ctx.violation("oracle-failure", complaint,
                          {"kind": "parse", "text": t, "impl": i, "model": ctx.model(["mparse " + lib.hexs(t)])[0],
                           "oracle": list(oracle_parse_text(t)[:2]), "unshrunk_text": t0,
                           "reproduce_hook": "printf 'mparse %s\\n' | imdl-verif-harness" % lib.hexs(t),
                           "reproduce": "imdl torrent from-link %s   # exit 1 = rejected; a panic exits 101" % sh_quote(t)})
            continue
        case = {"kind": "parse", "text": t, "impl": i, "model": m, "oracle": list(o[:2]),
                "reproduce_hook": "printf 'mparse %s\\n' | imdl-verif-harness" % lib.hexs(t)}
        if m == "UNMODELLED":
            ctx.count("parse_unmodelled")
            continue
        ctx.cov["traces_validated_against_impl"] += 1
        if m.startswith("OK "):
            f = m.split(" ")
            trs = [norm.url.get(x.decode("utf-8", "replace")) for x in lib.unhexlist(f[3])]
            prs = [norm.hp.get(x.decode("utf-8", "replace")) for x in lib.unhexlist(f[4])]
            if None in trs or None in prs:
                want = ("ERR",)
            else:
                want = ("OK", f[1], None if f[2] == "~" else lib.unhex(f[2]).decode("utf-8", "replace"), trs, prs)
        elif m.startswith("ERR "):
            want = ("ERR",)
        else:
            want = ("?", m)
        if ok:
            g = i.split(" ")
            got = ("OK", g[1], None if g[2] == "~" else lib.unhex(g[2]).decode("utf-8", "replace"),
                   [x.decode("utf-8", "replace") for x in lib.unhexlist(g[3])], [x.decode("utf-8", "replace") for x in lib.unhexlist(g[4])])
        else:
            got = ("ERR",)
        if got != want:
            ctx.cov["disagreements_checked"] += 1
            ctx.violation("model-impl-disagreement", "Magnet.own_parse and MagnetLink::parse differ on %r: impl %r, model %r" % (t, got, want),
                          dict(case, relation="own_parse", impl_canonical=got, model_canonical=want))


# ---------------------------------------------------------------- Metainfo::trackers

def gen_tracker_sets(r, pool, n):
    out = []
    for _ in range(n):
        k = r.randint(1, 5)
        sub = [r.choice(pool) for _ in range(k)]
        announce = r.choice(sub) if r.random() < 0.8 else None
        if r.random() < 0.15:
            tiers = None
        else:
            tiers = [[r.choice(sub) for _ in range(r.randint(0, 3))] for _ in range(r.randint(0, 4))]
        out.append((announce, tiers))
    return out


def spec_trackers(announce, tiers):
    """the property's words: announce first, then tiers, one per distinct tracker in first-appearance order"""
    seq = ([announce] if announce is not None else []) + [t for tier in (tiers or []) for t in tier]
    return list(dict.fromkeys(seq))


def run_tracker_cases(ctx, sets, norm):
    tl = ["trackers " + lib.hexs(torrent_bytes("n", a, t)) for a, t in sets]
    ml = ["mtrackers %s %s" % ("~" if a is None else lib.hexs(a),
                               "/".join(lib.hexlist(tier) for tier in t) if t else "~") for a, t in sets]
    impl, model = ctx.harness(tl), ctx.model(ml)
    for (a, t), i, m in zip(sets, impl, model):
        ctx.cov["evaluations"] += 1
        ctx.cov["traces_validated_against_impl"] += 1
        ctx.count("trackers_cases")
        spec = [norm.url[x] for x in spec_trackers(a, t)]
        n_all = len(([a] if a else []) + [x for tier in (t or []) for x in tier])
        if n_all != len(spec):
            ctx.distinct(("trackers", n_all, len(spec), a is None, t is None))
        case = {"kind": "trackers", "announce": a, "tiers": t, "impl": i, "model": m, "spec": spec,
                "reproduce_hook": "printf 'trackers %s\\n' | imdl-verif-harness" % lib.hexs(torrent_bytes("n", a, t))}
        got = [x.decode() for x in lib.unhexlist(i[3:])] if i.startswith("OK ") else None
        if got != spec:
            ctx.violation("oracle-failure", "Metainfo::trackers gives %r for announce %r, tiers %r; expected %r" % (got, a, t, spec), case)
            continue
        mg = [norm.url[x.decode()] for x in lib.unhexlist(m[3:])] if m.startswith("OK ") else None
        if mg != got:
            ctx.cov["disagreements_checked"] += 1
            ctx.violation("model-impl-disagreement", "Magnet.tracker_texts differs from Metainfo::trackers", dict(case, relation="tracker_texts"))


# ---------------------------------------------------------------- the real binary

def run_e2e_link(ctx, cases, norm):
    tmp = tempfile.mkdtemp(prefix="c10-")
    try:
        def one(c):
            d = tempfile.mkdtemp(dir=tmp)
            tb = torrent_bytes(c["name"], c["announce"], c["tiers"], files=c["files"])
            open(os.path.join(d, "t.torrent"), "wb").write(tb)
            argv = ["torrent", "link", "--input", "t.torrent"]
            for p in c["peer_args"]:
                argv += ["--peer", p]
            for grp in c["select_args"]:
                argv += ["--select-only", ",".join(str(i) for i in grp)]
            rc, out, err = ctx.imdl(argv, cwd=d)
            return c, tb, argv, rc, out, err
        res = lib.pmap(one, cases)
    finally:
        shutil.rmtree(tmp, ignore_errors=True)
    mlines = []
    for c, tb, argv, rc, out, err in res:
        ih = hashlib.sha1(lib.info_span(tb)).hexdigest()
        c["ih"] = ih
        c["trackers"] = [norm.url[t] for t in spec_trackers(c["announce"], c["tiers"])]
        c["peers"] = [norm.hp[p] for p in c["peer_args"]]
        c["indices"] = [i for g in c["select_args"] for i in g]
        mlines.append(print_line(c))
    model = ctx.model(mlines)
    for (c, tb, argv, rc, out, err), m in zip(res, model):
        ctx.cov["evaluations"] += 1
        ctx.cov["traces_validated_against_impl"] += 1
        ctx.count("e2e_torrent_link")
        case = {"kind": "e2e-link", "name": c["name"], "announce": c["announce"], "tiers": c["tiers"], "argv": ["imdl"] + argv,
                "rc": rc, "stdout": out.decode("utf-8", "replace"), "stderr": err.decode("utf-8", "replace")[-400:],
                "shell": "echo %s | xxd -r -p > t.torrent; imdl %s" % (tb.hex(), " ".join(sh_quote(a) for a in argv))}
        if rc != 0:
            ctx.violation("oracle-failure", "`torrent link` failed (rc %d) on an acceptable torrent named %r" % (rc, c["name"]), case)
            continue
        text = out.decode("utf-8", "replace")
        if not text.endswith("\n") or "\n" in text[:-1]:
            ctx.violation("oracle-failure", "`torrent link` stdout is not exactly one line for name %r" % c["name"], case)
            continue
        uri = text[:-1]
        want = expected_pairs(c["ih"], c["name"], c["trackers"], c["peers"], c["indices"])
        bad = oracle_uri(uri, want)
        ctx.distinct(("e2e", len(c["trackers"]), len(c["peers"]), bool(c["indices"]), tuple(sorted(set(c["name"]) & set(RESERVED)))))
        if bad:
            ctx.violation("oracle-failure", "`torrent link` on a torrent named %r with trackers %r, peers %r, indices %r: %s" %
                          (c["name"], c["trackers"], c["peers"], c["indices"], bad[0]), dict(case, oracle=bad, expected=want))
            continue
        muri = lib.unhex(m[3:]).decode("utf-8", "replace") if m.startswith("OK ") else None
        if muri is None or oracle_uri(muri, want):
            ctx.cov["disagreements_checked"] += 1
            ctx.violation("model-impl-disagreement", "Magnet.print does not decode to the fields `torrent link` printed",
                          dict(case, model=m, relation="decoded pairs of print"))
    ctx.sample({"e2e torrent link": res[0][2], "stdout": res[0][4].decode("utf-8", "replace")} if res else {})


def run_e2e_create(ctx, cases, norm):
    tmp = tempfile.mkdtemp(prefix="c10-")
    try:
        def one(c):
            d = tempfile.mkdtemp(dir=tmp)
            open(os.path.join(d, "payload"), "wb").write(b"x" * c["size"])
            argv = ["torrent", "create", "--input", "payload"] + (["--name=" + c["name"]] if c["name"].startswith("-") else ["--name", c["name"]]) + \
                ["--output", "out.torrent", "--link"]
            if c["announce"]:
                argv += ["--announce", c["announce"]]
            for tier in c["tiers"]:
                argv += ["--announce-tier", ",".join(tier)]
            for p in c["peer_args"]:
                argv += ["--peer", p]
            rc, out, err = ctx.imdl(argv, cwd=d)
            tb = None
            if rc == 0:
                try:
                    tb = open(os.path.join(d, "out.torrent"), "rb").read()
                except OSError:
                    pass
            return c, argv, rc, out, err, tb
        res = lib.pmap(one, cases)
    finally:
        shutil.rmtree(tmp, ignore_errors=True)
    for c, argv, rc, out, err, tb in res:
        ctx.cov["evaluations"] += 1
        ctx.count("e2e_create_link")
        case = {"kind": "e2e-create", "argv": ["imdl"] + argv, "rc": rc, "stdout": out.decode("utf-8", "replace"),
                "stderr": err.decode("utf-8", "replace")[-400:],
                "shell": "head -c %d /dev/zero | tr '\\0' x > payload; imdl %s" % (c["size"], " ".join(sh_quote(a) for a in argv))}
        if c["name"] in ("", ".", "..") or "/" in c["name"]:
            # not a single path component: `create` refuses such names (fix 37d1563, C09's business); names of this kind reach
            # the magnet encoder through `torrent link` on hand-written torrents instead (run_e2e_link)
            ctx.count("create_refuses_name_not_one_component" if rc == 1 else "create_name_not_one_component_rc_%d" % rc)
            if rc == 1:
                continue
        if rc != 0 or tb is None:
            ctx.violation("oracle-failure", "`torrent create --link` failed (rc %d) for name %r" % (rc, c["name"]), case)
            continue
        try:
            v, _ = lib.bdecode_strict(tb)
            ih = hashlib.sha1(lib.info_span(tb)).hexdigest()
            name = lib.dget(lib.dget(v, "info"), "name").decode()
            a = lib.dget(v, "announce")
            al = lib.dget(v, "announce-list")
            stored = spec_trackers(a.decode() if a is not None else None, [[x.decode() for x in tier] for tier in al] if al else None)
        except Exception as e:
            ctx.violation("oracle-failure", "create wrote an unreadable torrent: %r" % e, case)
            continue
        norm.add(stored, [])
        want = expected_pairs(ih, name, [norm.url[t] for t in stored], [norm.hp[p] for p in c["peer_args"]], [])
        text = out.decode("utf-8", "replace")
        uri = text[:-1] if text.endswith("\n") else text
        if name != c["name"]:
            ctx.count("create_name_altered_by_cli_parsing")     # clap's `--name==x` quirk: about the CLI (C05), not the link
        bad = oracle_uri(uri, want)
        ctx.distinct(("create", len(stored), len(c["peer_args"]), tuple(sorted(set(c["name"]) & set(RESERVED)))))
        if bad:
            ctx.violation("oracle-failure", "`torrent create --link` with name %r: %s" % (c["name"], bad[0]), dict(case, oracle=bad, expected=want))
    ctx.sample({"e2e create --link": res[0][1], "stdout": res[0][3].decode("utf-8", "replace")} if res else {})


def run_e2e_reject(ctx, texts):
    """`torrent from-link` on texts the oracle says have no topic: must exit 1 (no crash, no success). Never a valid link."""
    texts = [t for t in texts if oracle_parse_text(t)[0] == "reject" and "\0" not in t and t and not t.startswith("-")]
    tmp = tempfile.mkdtemp(prefix="c10-")
    try:
        res = lib.pmap(lambda t: (t,) + ctx.imdl(["torrent", "from-link", t], cwd=tmp, timeout=20), texts)
    finally:
        shutil.rmtree(tmp, ignore_errors=True)
    for t, rc, out, err in res:
        ctx.cov["evaluations"] += 1
        ctx.count("e2e_from_link_rejects")
        if rc != 1:
            ctx.violation("oracle-failure", "`torrent from-link` exits %d on %r, which has no 40-hex urn:btih topic" % (rc, t),
                          {"kind": "e2e-reject", "argv": ["imdl", "torrent", "from-link", t], "rc": rc, "stderr": err.decode("utf-8", "replace")[-300:]})


# ---------------------------------------------------------------- String::from_utf8_lossy (X12)
#
# MagnetLink::parse reads its pairs through Url::query_pairs = form_urlencoded::parse, which percent-decodes every key and value
# and converts the bytes with String::from_utf8_lossy. Model/Utf8.v models that conversion (the Utf8Chunks loop), and
# c10_own_parser_any_name says the parser reports exactly Utf8.lossy of the percent-decoded `dn` value. Here the extracted
# Utf8.lossy / Utf8.chunks / own_parse-with-Utf8.lossy are run against
#   (a) the real parser: magnet URIs whose `dn=` value is the percent-encoding of the byte string, through the `magnet_parse` hook;
#   (b) Rust's std called directly (a 20-line program compiled with the same toolchain: String::from_utf8_lossy and
#       <[u8]>::utf8_chunks), which also ties the iterator model Utf8.chunks;
#   (c) CPython's bytes.decode("utf-8", "replace"), the independent third oracle (same maximal-subpart practice).

REPL = b"\xef\xbf\xbd"
BOUNDARY_CPS = [0x00, 0x01, 0x20, 0x25, 0x2b, 0x41, 0x7f, 0x80, 0xa0, 0xe9, 0x7ff, 0x800, 0xfff, 0x1000, 0xcfff, 0xd000, 0xd7ff,
                0xe000, 0xfeff, 0xfffd, 0xfffe, 0xffff, 0x10000, 0x1f600, 0x3ffff, 0x40000, 0xfffff, 0x100000, 0x10ffff]
REP_BYTES = [0x00, 0x41, 0x7f, 0x80, 0x8f, 0x90, 0x9f, 0xa0, 0xbf, 0xc0, 0xc1, 0xc2, 0xdf, 0xe0, 0xe1, 0xec, 0xed, 0xee, 0xef,
             0xf0, 0xf1, 0xf3, 0xf4, 0xf5, 0xff]


def u8_valid_char(r, n=None):
    """one scalar value whose UTF-8 form has n bytes (boundary values favoured)"""
    n = n or r.choice([1, 2, 3, 4])
    lo, hi = {1: (0, 0x7f), 2: (0x80, 0x7ff), 3: (0x800, 0xffff), 4: (0x10000, 0x10ffff)}[n]
    pool = [c for c in BOUNDARY_CPS if lo <= c <= hi]
    while True:
        c = r.choice(pool) if r.random() < 0.5 else r.randint(lo, hi)
        if not 0xd800 <= c <= 0xdfff:
            return chr(c).encode("utf-8")


def u8_cont(r):
    return r.choice([0x80, 0x8f, 0x90, 0x9f, 0xa0, 0xbf, r.randrange(0x80, 0xc0)])


def u8_noncont(r):
    return r.choice([0x00, 0x41, 0x7f, 0xc0, 0xc2, 0xe0, 0xed, 0xf0, 0xf4, 0xf5, 0xff, r.randrange(0, 0x80), r.randrange(0xc0, 0x100)])


def u8_lead(r, n):
    return {2: lambda: r.choice([0xc2, 0xdf, r.randrange(0xc2, 0xe0)]),
            3: lambda: r.choice([0xe0, 0xe1, 0xec, 0xed, 0xee, 0xef, r.randrange(0xe0, 0xf0)]),
            4: lambda: r.choice([0xf0, 0xf1, 0xf3, 0xf4])}[n]()


def u8_second(r, lead):
    """a second byte the lead byte accepts"""
    lo, hi = {0xe0: (0xa0, 0xbf), 0xed: (0x80, 0x9f), 0xf0: (0x90, 0xbf), 0xf4: (0x80, 0x8f)}.get(lead, (0x80, 0xbf))
    return r.choice([lo, hi, r.randint(lo, hi)])


U8_CLASSES = {
    "ascii": lambda r: bytes(r.choice([0x20, 0x25, 0x26, 0x2b, 0x3d, 0x41, 0x61, 0x7a, 0x7f, 0x00, r.randrange(0x80)]) for _ in range(r.randint(1, 3))),
    "valid2": lambda r: u8_valid_char(r, 2),
    "valid3": lambda r: u8_valid_char(r, 3),
    "valid4": lambda r: u8_valid_char(r, 4),
    "lone_continuation": lambda r: bytes(u8_cont(r) for _ in range(r.choice([1, 1, 2, 3]))),
    "truncated": lambda r: (lambda c: c[:r.randint(1, len(c) - 1)])(u8_valid_char(r, r.choice([2, 3, 4]))),
    "overlong_c0_c1": lambda r: bytes([r.choice([0xc0, 0xc1]), u8_cont(r)]),
    "overlong_e0": lambda r: bytes([0xe0, r.choice([0x80, 0x9f, r.randrange(0x80, 0xa0)]), u8_cont(r)]),
    "overlong_f0": lambda r: bytes([0xf0, r.choice([0x80, 0x8f, r.randrange(0x80, 0x90)]), u8_cont(r), u8_cont(r)]),
    "surrogate": lambda r: bytes([0xed, r.choice([0xa0, 0xbf, r.randrange(0xa0, 0xc0)]), u8_cont(r)]),
    "above_f4_8f": lambda r: bytes([0xf4, r.choice([0x90, 0xbf, r.randrange(0x90, 0xc0)]), u8_cont(r), u8_cont(r)]),
    "f5_ff": lambda r: bytes([r.choice([0xf5, 0xf8, 0xfc, 0xfe, 0xff, r.randrange(0xf5, 0x100)])] + [u8_cont(r) for _ in range(r.choice([0, 0, 1, 3]))]),
    "bad_second": lambda r: (lambda n: (lambda l: bytes([l, u8_noncont(r)]))(u8_lead(r, n)))(r.choice([2, 3, 4])),
    "bad_third": lambda r: (lambda l: bytes([l, u8_second(r, l), u8_noncont(r)]))(u8_lead(r, r.choice([3, 4]))),
    "bad_fourth": lambda r: (lambda l: bytes([l, u8_second(r, l), u8_cont(r), u8_noncont(r)]))(u8_lead(r, 4)),
    "random": lambda r: bytes(r.randrange(256) for _ in range(r.randint(1, 8))),
}
U8_INVALID = [k for k in U8_CLASSES if k not in ("ascii", "valid2", "valid3", "valid4", "random")]
U8_VALID = ["ascii", "valid2", "valid3", "valid4"]


def gen_lossy_cases(ctx):
    """-> list of (bytes, label): exhaustive small strings, every class alone / at the start / at the end / between valid text /
    next to every other class, every truncation of boundary characters followed by every kind of byte, then seeded mixtures"""
    r = ctx.rng
    out = {}

    def add(b, label):
        if b not in out:
            out[b] = label
    add(b"", "empty")
    for a in range(256):                                            # every 1-byte string
        add(bytes([a]), "exhaustive_1")
    for a in range(256):                                            # every 2-byte string
        for b in range(256):
            add(bytes([a, b]), "exhaustive_2")
    for a in REP_BYTES:                                             # every 3-byte string over the boundary bytes of each class
        for b in REP_BYTES:
            for c in REP_BYTES:
                add(bytes([a, b, c]), "representatives_3")
    if ctx.thorough:
        for a in REP_BYTES:
            for b in REP_BYTES:
                for c in REP_BYTES:
                    for d in REP_BYTES:
                        add(bytes([a, b, c, d]), "representatives_4")
    # every multi-byte boundary character, cut at every place, alone and followed by one byte / one character of each kind
    followers = [b"", b"A", b"\x80", b"\xbf", b"\xc2", b"\xc3\xa9", b"\xe0", b"\xf0\x9f", b"\xff", REPL]
    for cp in BOUNDARY_CPS:
        ch = chr(cp).encode("utf-8")
        for cut in range(1, len(ch)):
            for f in followers:
                add(ch[:cut] + f, "truncated_systematic")
                add(b"x" + ch[:cut] + f, "truncated_systematic")
    for k in range(ctx.n(6, 40)):
        for a in U8_CLASSES:                                        # each class alone, at the start, at the end, in the middle
            x = U8_CLASSES[a](r)
            v1, v2 = U8_CLASSES[r.choice(U8_VALID)](r), U8_CLASSES[r.choice(U8_VALID)](r)
            for b_, lab in ((x, "alone"), (x + v1, "at_start"), (v1 + x, "at_end"), (v1 + x + v2, "between_valid")):
                add(b_, "class_" + lab)
            for b in U8_CLASSES:                                    # each ordered pair of classes, adjacent
                add(x + U8_CLASSES[b](r), "adjacent_pair")
    n = ctx.n(20000, 250000)
    tries = 0
    while n > 0 and tries < 40 * ctx.n(20000, 250000):
        tries += 1
        k = r.choice([1, 2, 2, 3, 3, 4, 5, 6, 8])
        x = r.random()
        if x < 0.15:
            parts = [U8_CLASSES["random"](r) for _ in range(k)]
        elif x < 0.30:
            parts = [U8_CLASSES[r.choice(U8_INVALID)](r) for _ in range(k)]
        else:
            parts = [U8_CLASSES[r.choice(U8_INVALID if r.random() < 0.5 else U8_VALID)](r) for _ in range(k)]
        b = b"".join(parts)
        if b not in out:
            out[b] = "seeded_mixture"
            n -= 1
    return list(out.items())


def lossy_text(r, s, ih):
    """a magnet URI whose `dn` value percent-decodes to exactly the bytes s (all ASCII, so it is a Rust &str)"""
    style = r.random()
    if style < 0.6:
        enc = "".join("%%%02X" % b for b in s)
    elif style < 0.8:
        enc = "".join("%%%02x" % b for b in s)
    else:                                                           # unreserved ASCII left literal, space as `+`
        enc = "".join(chr(b) if (48 <= b <= 57 or 65 <= b <= 90 or 97 <= b <= 122) else "+" if b == 32 else "%%%02X" % b for b in s)
    if r.random() < 0.7:
        return "magnet:?xt=urn:btih:%s&dn=%s" % (ih, enc)
    return "magnet:?dn=%s&xt=urn:btih:%s" % (enc, ih)


UTF8_STD_RS = r"""
use std::io::{self, BufRead, Write};
fn hex(b: &[u8]) -> String { if b.is_empty() { "-".into() } else { b.iter().map(|x| format!("{:02x}", x)).collect() } }
fn main() {
  let stdin = io::stdin();
  let out = io::stdout();
  let mut out = io::BufWriter::new(out.lock());
  for line in stdin.lock().lines() {
    let line = line.unwrap();
    let b: Vec<u8> = if line == "-" { vec![] } else {
      (0..line.len() / 2).map(|i| u8::from_str_radix(&line[2 * i..2 * i + 2], 16).unwrap()).collect() };
    let s = String::from_utf8_lossy(&b);
    let ch: Vec<String> = b.utf8_chunks().map(|c| format!("{}:{}", hex(c.valid().as_bytes()), hex(c.invalid()))).collect();
    writeln!(out, "{} {} {}", hex(s.as_bytes()), if std::str::from_utf8(&b).is_ok() { 1 } else { 0 },
             if ch.is_empty() { "~".to_string() } else { ch.join("/") }).unwrap();
  }
}
"""


def std_direct(ctx, strings):
    """Rust's std itself, outside imdl: String::from_utf8_lossy, str::from_utf8, <[u8]>::utf8_chunks. -> replies or None"""
    d = os.path.join(lib.CACHE, "utf8_std")
    os.makedirs(d, exist_ok=True)
    tag = hashlib.sha1(UTF8_STD_RS.encode()).hexdigest()[:12]
    exe, src = os.path.join(d, "utf8_std_" + tag), os.path.join(d, "utf8_std_%s.rs" % tag)
    if not os.path.exists(exe):
        with lib.Lock("utf8std"):
            if not os.path.exists(exe):
                open(src, "w").write(UTF8_STD_RS)
                rc, out = lib.sh(["rustc", "-O", "--edition", "2021", "-o", exe + ".tmp", src], timeout=300)
                if rc != 0:
                    ctx.notes.append("String::from_utf8_lossy could not be called directly (rustc failed: %s); the hook is the only "
                                     "implementation side of the lossy comparison in this run" % out[-300:].replace("\n", " "))
                    ctx.count("utf8_std_direct_unavailable")
                    return None
                os.replace(exe + ".tmp", exe)
    return lib.run_lines(exe, [lib.hexs(s) for s in strings])


def py_chunks(s):
    """the iterator's items, recovered from CPython's strict decoder alone: (valid, invalid) with `invalid` = the bytes the decoder
    reports as undecodable at the first error"""
    items = []
    while s:
        try:
            s.decode("utf-8")
            items.append((s, b""))
            break
        except UnicodeDecodeError as e:
            items.append((s[:e.start], s[e.start:e.end]))
            s = s[e.end:]
    return items


def fmt_chunks(items):
    return "/".join("%s:%s" % (lib.hexs(v), lib.hexs(i)) for v, i in items) if items else "~"


def run_lossy_cases(ctx):
    r = ctx.rng
    cases = gen_lossy_cases(ctx)
    ih = "%040x" % r.getrandbits(160)
    texts = [lossy_text(r, s, ih) for s, _ in cases]
    impl = ctx.harness(["mparse " + lib.hexs(t) for t in texts])
    m1 = ctx.model(["u8lossy " + lib.hexs(s) for s, _ in cases])
    m2 = ctx.model(["mparse_lossy " + lib.hexs(t) for t in texts])
    std = std_direct(ctx, [s for s, _ in cases])
    reported = {}

    def report(kind, what, summary, case):
        reported[what] = reported.get(what, 0) + 1
        if reported[what] <= 3:
            ctx.violation(kind, summary, case)
        else:
            ctx.count("utf8_further_" + what)

    for k, ((s, label), t, i, a, b) in enumerate(zip(cases, texts, impl, m1, m2)):
        ctx.cov["evaluations"] += 1
        ctx.cov["traces_validated_against_impl"] += 1
        ctx.count("utf8_" + label)
        py = s.decode("utf-8", "replace").encode("utf-8")
        pyc = py_chunks(s)
        n_bad = sum(1 for _, inv in pyc if inv)
        ctx.count("utf8_len_%s" % (len(s) if len(s) <= 4 else "5-8" if len(s) <= 8 else "9-16" if len(s) <= 16 else "17+"))
        ctx.count("utf8_invalid_parts_%s" % (n_bad if n_bad <= 3 else "4+"))
        if n_bad or any(x >= 0x80 for x in s):
            ctx.distinct(("utf8", tuple((len(v), len(inv)) for v, inv in pyc)))
        case = {"kind": "lossy", "bytes": s.hex(), "text": t, "impl": i, "model_u8lossy": a, "model_mparse_lossy": b,
                "python_replace": py.hex(), "class": label,
                "reproduce_hook": "printf 'mparse %s\\n' | imdl-verif-harness" % lib.hexs(t),
                "reproduce": "imdl torrent from-link %s   # needs the network to go further; the hook shows the parsed name" % sh_quote(t)}
        f = a.split(" ")
        if len(f) != 5 or f[0] != "OK":
            report("model-impl-disagreement", "model_died", "the extracted Utf8.lossy did not answer on %s: %s" % (s.hex(), a[:80]), case)
            continue
        ml, mf, mv, mc = lib.unhex(f[1]), lib.unhex(f[2]), f[3] == "1", f[4]
        g = i.split(" ")
        if not i.startswith("OK ") or len(g) != 5:
            report("oracle-failure", "impl_rejects", "MagnetLink::parse does not accept a link whose dn value is the percent-encoding "
                   "of %s: %s" % (s.hex(), i[:120]), case)
            continue
        name = None if g[2] == "~" else lib.unhex(g[2])
        if g[1] != ih or g[3] != "~" or g[4] != "~":
            report("oracle-failure", "impl_other_fields", "a dn value of %s changes the infohash, trackers or peers the parser reports: %s"
                   % (s.hex(), i[:160]), case)
            continue
        if name != ml:
            if name == py:
                ctx.cov["disagreements_checked"] += 1
                report("model-impl-disagreement", "lossy", "Utf8.lossy gives %s for %s, MagnetLink::parse (and CPython) give %s"
                       % (ml.hex(), s.hex(), (name or b"").hex()), dict(case, relation="Utf8.lossy vs parsed name"))
            else:
                report("oracle-failure", "name", "the parsed name for dn = %s is %s; percent-decoding followed by lossy UTF-8 conversion "
                       "gives %s (model and CPython agree)" % (t.split("dn=")[1].split("&")[0], "absent" if name is None else name.hex(), py.hex()),
                       dict(case, expected=py.hex()))
            continue
        if ml != py:
            ctx.count("utf8_python_differs_from_rust")
            ctx.sample({"CPython's errors=replace differs from Rust (the model follows Rust)": s.hex(), "rust": ml.hex(), "python": py.hex()}, cap=12)
        if mf != ml or mv != (py == s) or mc != fmt_chunks(pyc):
            # from_utf8_lossy_eq / lossy_fixed_iff are theorems; the iterator's items are compared with CPython's error positions
            ctx.cov["disagreements_checked"] += 1
            report("model-impl-disagreement", "model_internal", "Utf8.from_utf8_lossy / utf8_valid / chunks on %s: %s; CPython: valid=%s items=%s"
                   % (s.hex(), a, py == s, fmt_chunks(pyc)), dict(case, relation="Utf8.chunks vs CPython's decoder positions"))
        if b != i:
            ctx.cov["disagreements_checked"] += 1
            report("model-impl-disagreement", "own_parse_lossy", "Magnet.own_parse with Utf8.lossy and MagnetLink::parse differ on %r: %s / %s"
                   % (t, b[:120], i[:120]), dict(case, relation="own_parse Utf8.lossy"))
        if std is not None:
            want = "%s %d %s" % (lib.hexs(ml), 1 if mv else 0, mc)
            if std[k] != want:
                ctx.cov["disagreements_checked"] += 1
                report("model-impl-disagreement", "std_direct", "Rust's String::from_utf8_lossy / from_utf8 / utf8_chunks on %s give `%s`, "
                       "the model `%s`" % (s.hex(), std[k][:200], want[:200]), dict(case, std=std[k], relation="Utf8.lossy, utf8_valid, chunks vs std"))
            else:
                ctx.count("utf8_std_direct_agrees")
    for s, label in cases[:1] + [c for c in cases if c[1] == "seeded_mixture"][:2]:
        ctx.sample({"dn bytes": s.hex(), "class": label, "lossy": s.decode("utf-8", "replace").encode().hex()}, cap=12)
    return ih


def lossy_reject_texts(r, n):
    """texts with invalid UTF-8 in keys, names and topics that have NO valid topic: for the real binary (`from-link` must exit 1)
    and for the parser comparison. A topic of 37 hex digits and one invalid byte is 40 bytes long after the conversion."""
    out = []
    h40 = lambda: "".join(r.choice("0123456789abcdef") for _ in range(40))
    for _ in range(n):
        bad = "".join("%%%02X" % b for b in U8_CLASSES[r.choice(U8_INVALID)](r))
        x = r.random()
        if x < 0.25:
            out.append("magnet:?dn=%s&xt=urn:btih:%s" % (bad, h40()[:39]))
        elif x < 0.5:
            out.append("magnet:?xt=urn:btih:%s%s&dn=x" % (h40()[:37], "%FF"))
        elif x < 0.7:
            out.append("magnet:?xt=urn:btih:%s%s" % (h40()[:r.choice([34, 36, 37, 38, 39])], bad))
        elif x < 0.85:
            out.append("magnet:?x%st=urn:btih:%s&dn=%s" % (bad, h40(), bad))
        else:
            out.append("magnet:?xt=urn:btih%s:%s" % (bad, h40()))
    return out


def run_lossy_reject_cases(ctx, texts):
    """own_parse with Utf8.lossy against MagnetLink::parse on texts whose keys / topics carry invalid UTF-8"""
    impl = ctx.harness(["mparse " + lib.hexs(t) for t in texts])
    model = ctx.model(["mparse_lossy " + lib.hexs(t) for t in texts])
    for t, i, m in zip(texts, impl, model):
        ctx.cov["evaluations"] += 1
        ctx.cov["traces_validated_against_impl"] += 1
        ctx.count("utf8_invalid_in_key_or_topic")
        complaint = text_verdict(t, i)
        case = {"kind": "parse", "text": t, "impl": i, "model": m, "reproduce_hook": "printf 'mparse %s\\n' | imdl-verif-harness" % lib.hexs(t)}
        if complaint:
            ctx.violation("oracle-failure", complaint, case)
        elif (i.startswith("OK "), i if i.startswith("OK ") else "") != (m.startswith("OK "), m if m.startswith("OK ") else ""):
            ctx.cov["disagreements_checked"] += 1
            ctx.violation("model-impl-disagreement", "Magnet.own_parse with Utf8.lossy and MagnetLink::parse differ on %r: %s / %s" % (t, m[:100], i[:100]),
                          dict(case, relation="own_parse Utf8.lossy"))


# ---------------------------------------------------------------- run

CORPUS_PRINT = [
    dict(ih="ab" * 20, name=DEFECT_NAME, trackers=[], peers=[], indices=[]),
    dict(ih="00" * 20, name="a&b", trackers=[], peers=[], indices=[]),
    dict(ih="ff" * 20, name="tab\there\nnl\rcr", trackers=[], peers=[], indices=[3, 1, 3]),
    dict(ih="01" * 20, name="100% + é = ?#", trackers=["http://t.example/announce?x=1&y=%20+z#f"], peers=["[::1]:80", "d.example:6881"], indices=[U64, 0]),
    dict(ih="0123456789abcdef0123456789abcdef01234567", name="", trackers=["udp://t.example:1"], peers=[], indices=[]),
    dict(ih="da39a3ee5e6b4b0d3255bfef95601890afd80709", name=None, trackers=[], peers=[], indices=[]),
    dict(ih="da39a3ee5e6b4b0d3255bfef95601890afd80709", name="foo", trackers=["http://foo.com/announce", "http://bar.net/announce"],
         peers=["foo.com:1337", "bar.net:666"], indices=[2, 4, 6]),
]
CORPUS_TEXT = [
    "magnet:?xt=urn:btih:" + "ab" * 20, "magnet:?xt=urn:btih:" + "ab" * 19 + "a", "magnet:?xt=urn:btih:z" + "b" * 39, "magnet:?dn=x&tr=http://a/",
    "magnet:", "http://x/?xt=urn:btih:" + "ab" * 20, " MAGNET:?dn=n&xt=urn:sha1:x&xt=urn%3Abtih%3A" + "AB" * 20 + "#frag",
    "magnet:?xt=urn:btih:" + "ab" * 19 + "a&xt=urn:btih:" + "cd" * 20, "magnet:?xt=urn:btih:" + "ab" * 20 + "#", "magnet:#?xt=urn:btih:" + "ab" * 20,
    "magnet:?xt=urn:btih:" + "ab" * 20 + "&dn=a+b%2Bc&dn=%C3%A9&&tr=udp%3A%2F%2Ft.example%3A1&x.pe=[::1]:1", "magnet:?xt=urn:btih:" + "é" * 20,
]


def run(ctx):
    ctx.need_coq()
    if not ctx.need_rust() or not ctx.need_runner():
        return finish(ctx)
    r = ctx.rng
    norm = Norm(ctx)
    if ctx.thorough:
        coqchk(ctx)

    # pools of typed values, with their normal forms from imdl's own typed parsers
    cand_tr = [gen_tracker(r) for _ in range(ctx.n(400, 4000))] + ["http://foo.com/announce", "udp://tracker.example:6969", "HTTP://EXAMPLE.COM:80/A?b=c"]
    cand_pe = [gen_peer(r) for _ in range(ctx.n(200, 2000))] + ["foo.com:1337", "[2001:0db8::0001]:1", "1.2.3.4:5", "LOCALHOST:0"] + \
        ["%s.example:%d" % (l, 6881) for l in ODD_LABELS]
    norm.add(cand_tr + [c for cc in CORPUS_PRINT for c in cc["trackers"]], cand_pe + [c for cc in CORPUS_PRINT for c in cc["peers"]])
    ok_tr = [t for t in dict.fromkeys(cand_tr) if norm.url[t] is not None]
    ok_pe = [p for p in dict.fromkeys(cand_pe) if norm.hp[p] is not None]
    n_tr = list(dict.fromkeys(norm.url[t] for t in ok_tr))
    n_pe = list(dict.fromkeys(norm.hp[p] for p in ok_pe))
    ctx.count("tracker_candidates_valid", len(ok_tr)); ctx.count("tracker_candidates_not_in_normal_form", sum(1 for t in ok_tr if norm.url[t] != t))
    ctx.count("peer_candidates_valid", len(ok_pe)); ctx.count("peer_candidates_not_in_normal_form", sum(1 for p in ok_pe if norm.hp[p] != p))
    if len(n_tr) < 20 or len(n_pe) < 20:
        ctx.violation("infrastructure", "the typed-value generators produce too few values imdl accepts", {"trackers": len(n_tr), "peers": len(n_pe)})
        return finish(ctx)

    # 1. regression corpus, then generated print / own-parse cases through the hooks
    run_print_cases(ctx, [dict(c) for c in CORPUS_PRINT], "print_corpus")
    cases = []
    for _ in range(ctx.n(3000, 120000)):
        cases.append(dict(ih="%040x" % r.getrandbits(160), name=None if r.random() < 0.03 else gen_name(r),
                          trackers=[r.choice(n_tr) for _ in range(r.choice([0, 0, 1, 1, 2, 3, 5]))],
                          peers=[r.choice(n_pe) for _ in range(r.choice([0, 0, 1, 2, 4]))], indices=gen_indices(r)))
    uris = run_print_cases(ctx, cases, "print_generated")
    ctx.sample({"mprint input": cases[0], "uri": uris[0].decode("utf-8", "replace")})
    ctx.sample({"mprint input": cases[1], "uri": uris[1].decode("utf-8", "replace")})

    # 2. arbitrary / malformed texts through the parser
    run_text_cases(ctx, CORPUS_TEXT, norm, "parse_corpus")
    texts = gen_texts(r, n_tr, n_pe, ctx.n(1500, 60000))
    run_text_cases(ctx, texts, norm, "parse_generated")
    ctx.sample({"mparse text": texts[0]})

    # 2b. String::from_utf8_lossy (X12): dn values that percent-decode to arbitrary byte strings, through the hook, Rust's std
    # directly, the extracted Utf8.lossy / chunks / own_parse-with-Utf8.lossy, and CPython's errors="replace"
    run_lossy_cases(ctx)
    lossy_rejects = lossy_reject_texts(r, ctx.n(400, 6000))
    run_lossy_reject_cases(ctx, lossy_rejects)

    # 3. Metainfo::trackers
    sets = [(None, None), ("udp://a.example:1", [["udp://a.example:1", "udp://b.example:2"], ["udp://b.example:2"], []])] + \
        gen_tracker_sets(r, ok_tr, ctx.n(600, 20000))
    norm.add([x for a, t in sets[:2] for x in ([a] if a else []) + [y for tier in (t or []) for y in tier]], [])
    run_tracker_cases(ctx, sets, norm)

    # 4. the real binary
    e2e = []
    for k, (a, t) in enumerate(gen_tracker_sets(r, ok_tr, ctx.n(150, 3000))):
        sel = [gen_indices(r) for _ in range(r.choice([0, 1, 1, 2]))]
        nfiles = r.choice([0, 0, 3, 1, 5])
        if nfiles and r.random() < 0.5:
            # selections that stand in a relation to the torrent's own file list: exactly every index (permuted, repeated, spread
            # over several options), all but one, one beyond the end (added after seeded change C10-14: a selection naming
            # every file was "normalised" away)
            allidx = list(range(nfiles))
            r.shuffle(allidx)
            form = r.randrange(5)
            if form == 0:
                sel = [allidx]
            elif form == 1:
                sel = [allidx + [r.choice(allidx)]]
            elif form == 2:
                sel = [[i] for i in allidx]
            elif form == 3:
                sel = [allidx[1:]] if nfiles > 1 else [[0, 1]]
            else:
                sel = [allidx + [nfiles]]
        e2e.append(dict(name=DEFECT_NAME if k == 0 else gen_name(r), announce=a, tiers=t, files=nfiles,
                        peer_args=[r.choice(ok_pe) for _ in range(r.choice([0, 1, 2, 3]))], select_args=[g for g in sel if g]))
    run_e2e_link(ctx, e2e, norm)
    cr = []
    comma_free = [t for t in ok_tr if "," not in t]
    for k in range(ctx.n(40, 600)):
        nm = DEFECT_NAME if k == 0 else gen_name(r, argv_safe=True)
        cr.append(dict(name=nm or "x", size=r.choice([0, 1, 100]), announce=r.choice(comma_free) if r.random() < 0.8 else None,
                       tiers=[[r.choice(comma_free) for _ in range(r.randint(1, 2))] for _ in range(r.choice([0, 0, 1, 2]))],
                       peer_args=[r.choice(ok_pe) for _ in range(r.choice([0, 1, 2]))]))
    run_e2e_create(ctx, cr, norm)
    run_e2e_reject(ctx, CORPUS_TEXT + texts[:ctx.n(30, 300)] + lossy_rejects[:ctx.n(40, 400)])
    link_with_unparseable_trackers(ctx)
    # end to end with create (X5, c10_created_bytes_link_back): real `create --link`, then `link` of the written file, against
    # the extracted composition build -> encode -> loader + infohash -> link_cmd and against the command line itself
    from props import e2e_create
    e2e_create.run_link(ctx, ctx.n(150, 2500))
    x14_tie(ctx, norm, [u.decode("utf-8", "replace") if isinstance(u, bytes) else u for u in uris] + list(CORPUS_TEXT) + texts + lossy_rejects)
    return finish(ctx)


def x14_tie(ctx, norm, texts):
    """X14: MagnetLink::parse with NO library variable left (UrlConcrete.c_own_parse = own_parse Utf8.lossy c_url_norm c_hp_norm) against
    the `magnet_parse` hook on every printed URI and every parser text of this run whose tr / x.pe values the model places inside the
    fragments; and every tracker / peer text the run normalised through the hooks (Norm) through c_url_norm / c_hp_norm."""
    from props import urlconcrete
    tie = urlconcrete.Tie(ctx, "c10")
    for t in norm.url:
        tie.url(t, "tracker text of the C10 run")
    for p in norm.hp:
        tie.hostport(p, "peer text of the C10 run")
    from props import c17
    for _ in range(ctx.n(2500, 40000)):                     # C17's HOST:PORT generator: odd ports (signs, zeros, non-ASCII digits), hosts in every spelling
        cls, t = c17.gen_text(ctx.rng)
        tie.hostport(t, "c17 generator/" + cls)
    tie.run()
    # the tables the run collected through the `trackers` / `hpparse` hooks are the instances inside the fragments
    for t, v in norm.url.items():
        m = tie.model_url.get(t.encode("utf-8"))
        if m is None or not m["in"]:
            ctx.count("x14_norm_table_url_out_of_fragment"); continue
        ctx.count("x14_norm_table_url_in_fragment")
        got = ("err", None) if v is None else ("ok", v.encode("utf-8"))
        if m["norm"] != got:
            ctx.cov["disagreements_checked"] += 1
            ctx.violation("model-impl-disagreement", "X14: Metainfo::trackers gives %r for the tracker text %r, c_url_norm %r" % (v, t, m["norm"]),
                          {"kind": "x14-url", "x14_kind": "url", "text": t, "text_hex": lib.hexs(t.encode("utf-8")), "occurs_in": "Norm.url (trackers hook)"})
    seen = list(dict.fromkeys(t for t in texts if isinstance(t, str)))
    impl = ctx.harness(["mparse " + lib.hexs(t) for t in seen])
    model = ctx.model(["c_mparse " + lib.hexs(t) for t in seen])
    for t, i, m in zip(seen, impl, model):
        ctx.cov["evaluations"] += 1
        f = m.split(" ")
        case = {"kind": "parse", "x14": "c_mparse", "text": t, "impl": i, "model": m,
                "reproduce_hook": "printf 'mparse %s\\n' | imdl-verif-harness   # model: printf 'c_mparse %s\\n' | modelrun" % (lib.hexs(t), lib.hexs(t))}
        if f[0] not in ("IN", "OUT") or len(f) < 2:
            ctx.violation("infrastructure", "X14 c_mparse: model runner replied %r" % m[:200], case); continue
        if f[1] == "UNMODELLED":
            ctx.count("x14_mparse_unmodelled"); continue
        if f[0] == "OUT":
            ctx.count("x14_mparse_out_of_fragment"); continue
        ctx.count("x14_mparse_in_fragment")
        ctx.cov["traces_validated_against_impl"] += 1
        ok = i.startswith("OK ")
        ctx.distinct(("x14-mparse", ok, t[:12], len(t) // 16))
        if f[1] == "OK":
            want = ("OK", f[2], f[3], f[4], f[5])
        else:
            want = ("ERR",)
        if ok:
            g = i.split(" ")
            got = ("OK", g[1], g[2], g[3], g[4])
        else:
            got = ("ERR",)
        if got != want:
            ctx.cov["disagreements_checked"] += 1
            ctx.violation("model-impl-disagreement", "X14: MagnetLink::parse and own_parse with the concrete typed parsers differ on %r: impl %r, model %r"
                          % (t, got, want), dict(case, relation="c_own_parse"))


def coqchk(ctx):
    """thorough tier: the compiled proofs once more through the independent checker"""
    rc, out = lib.sh(["coqchk", "-silent", "-o", "-Q", ".", "Imdl", "Imdl.Proofs.MagnetProofs", "Imdl.Generated.GenMagnet",
                      "Imdl.Proofs.Utf8Proofs", "Imdl.Proofs.Utf8Agree", "Imdl.Proofs.MagnetUtf8"],
                     cwd=lib.COQ, timeout=900)
    ok = rc == 0 and "* Axioms: <none>" in out and "type-in-type: <none>" in out
    ctx.notes.append("coqchk -o on Proofs.MagnetProofs, Generated.GenMagnet, Proofs.Utf8Proofs, Proofs.Utf8Agree, Proofs.MagnetUtf8: %s" % ("no axioms, ok" if ok else "FAILED"))
    if not ok:
        ctx.violation("obligation-broken", "coqchk rejects the compiled C10 development or finds axioms",
                      {"theorems": ["Imdl.Proofs.MagnetProofs"], "coq_log": out[-3000:]})


def finish(ctx):
    ctx.assumptions += [
        "Url::parse(u.as_str()) == u for every tracker a link holds (url crate invariant) - hypothesis of c10_own_parser_roundtrip, "
        "checked through the hooks for every tracker value used; since X14 a THEOREM of the concrete instance c_url_norm for every tracker in "
        "normal form (c10_concrete_typed_parsers, c10_own_parser_roundtrip_concrete)",
        "HostPort::from_str(p.to_string()) == p for every peer a link holds (C17) - same, checked for every peer value used; since X14 a "
        "THEOREM of the concrete instance c_hp_norm for every printed host:port value (c_hp_fixed)",
        "String::from_utf8_lossy behaves as read in library/core/src/str/lossy.rs (Utf8Chunks) and library/alloc/src/string.rs - modelled in "
        "Model/Utf8.v, no longer a hypothesis of the theorems (c10_own_parser_roundtrip_utf8, c10_own_parser_any_name); compared on every "
        "run with the parser through the magnet_parse hook, with std called directly, and with CPython's errors=\"replace\" decoder",
        "Url::set_query / Url::parse / query_pairs behave as read in url 2.5.2 (QUERY encode set, TAB/LF/CR dropped, C0/space trimmed, "
        "form_urlencoded::parse) - modelled in Model/Magnet.v, exercised by the mparse stream",
        "typed fields are compared modulo url-crate normal form (normal forms taken from imdl's own typed parsers through hooks)",
    ]
    return ctx.finish(
        rule="print cases: seeded names over an alphabet weighted to reserved characters (space & = + % # ? / : @ ' \" < > ...), %XX "
             "look-alikes, TAB/LF/CR, C0/DEL, non-ASCII, empty; 0-5 trackers with their own queries/escapes/fragments and 0-4 peers "
             "(domain, IPv4, bracketed IPv6) in url-crate normal form; index lists with duplicates up to 2^64-1. parse cases: valid and "
             "damaged topics (length, non-hex, escaped digits, other urn, key variants), scheme/whitespace/fragment/empty-segment "
             "variants, bad typed values. lossy cases (counts utf8_*): dn values that percent-decode to every 1- and 2-byte string, every "
             "3-byte string over 25 boundary bytes, every truncation of 2/3/4-byte boundary characters followed by each kind of byte, every "
             "class of invalid sequence (lone continuation, truncated, overlong C0/C1 / E0 80..9F / F0 80..8F, surrogate ED A0..BF, above "
             "F4 8F, F5..FF, bad second / third / fourth byte) alone, at the start, at the end, between valid text and next to every other "
             "class, and >= 20 000 seeded mixtures; invalid UTF-8 in keys and topics. tracker cases: announce/tier lists with repeats. E2E: `torrent link`, `create --link`, "
             "`from-link` rejections; end to end with create (counts x5_*): C05's generator of `create` command lines - real "
             "`create --link --output`, then `link [--peer] [--select-only]` of the written file, compared with the extracted "
             "composition build -> encode -> loader + infohash -> link_cmd (and the lossy path) and with the command line itself. "
             "X14 (counts x14_*): every printed URI and every parser text of the run through UrlConcrete.c_own_parse (own_parse with "
             "Utf8.lossy, c_url_norm, c_hp_norm: no library variable left) against the magnet_parse hook when the model places its tr / x.pe "
             "values inside the fragments; every tracker / peer text the run normalised, through c_url_norm / c_hp_norm and the hooks. "
             "A case is distinct/non-trivial by (set of reserved-character classes present, #trackers, #peers, "
             "indices present) resp. (oracle class, verdict, prefix, %/+/# present) resp. (list sizes before/after de-duplication) resp. "
             "(the lengths of the valid and invalid parts of the Utf8Chunks items of a string that is not pure ASCII).",
        trusted_base=["Coq 8.16.1 kernel (coqc), vm_compute for the 256-entry safe-set table", "tools/rs2v.py + tools/rs2v_magnet.py (GenMagnet)",
                      "extraction with ExtrOcamlBasic + runner/driver.d/magnet.ml, runner/driver.d/utf8.ml, runner/driver.d/endtoendshow.ml, runner/driver.d/urlconcrete.ml (c_mparse, c_url, c_hp)", "Rust hooks magnet_print / magnet_parse / metainfo_trackers / "
                      "hostport_parse + harness line protocol", "Python oracle in tools/props/c10.py (urllib.parse, hashlib, lib.bdecode_strict, bytes.decode errors=replace)",
                      "the 20-line Rust program UTF8_STD_RS in tools/props/c10.py (calls String::from_utf8_lossy / utf8_chunks directly; rustc)"],
    )


def replay(ctx, path):
    case = json.load(open(path))["case"]
    if case.get("e2e"):
        from props import e2e_create
        return e2e_create.replay(ctx, case)
    if "x14_kind" in case:
        from props import urlconcrete
        return urlconcrete.replay(ctx, case)
    ctx.need_rust(); ctx.need_runner()
    kind = case.get("kind")
    if case.get("x14") == "c_mparse":
        print("text  :", case["text"])
        print("impl  :", ctx.harness(["mparse " + lib.hexs(case["text"])])[0])
        print("model :", ctx.model(["c_mparse " + lib.hexs(case["text"])])[0])
        return 0
    if kind == "print":
        c = case["input"]
        line = print_line(c)
        i, m = ctx.harness([line])[0], ctx.model([line])[0]
        uri, bad = judge_print(c, i)
        print("input :", json.dumps(c, ensure_ascii=False))
        print("impl  :", uri if uri is not None else i)
        print("model :", lib.unhex(m[3:]).decode("utf-8", "replace") if m.startswith("OK ") else m)
        print("oracle:", bad or "decodes to exactly the expected pairs under both conventions")
        if uri is not None:
            print("own parser:", judge_own(c, ctx.harness(["mparse " + lib.hexs(uri)])[0]) or "recovers infohash, name, trackers, peers")
        print("binary:", json.dumps(reproduce_print(ctx, c), ensure_ascii=False))
    elif kind == "parse":
        t = case["text"]
        print("text  :", repr(t))
        print("impl  :", ctx.harness(["mparse " + lib.hexs(t)])[0][:300])
        print("model :", ctx.model(["mparse " + lib.hexs(t)])[0][:300])
        print("oracle:", oracle_parse_text(t)[:2])
    elif kind == "lossy":
        b, t = bytes.fromhex(case["bytes"]), case["text"]
        print("bytes :", b.hex() or "-")
        print("text  :", t)
        print("impl  :", ctx.harness(["mparse " + lib.hexs(t)])[0][:300])
        print("model :", ctx.model(["u8lossy " + lib.hexs(b)])[0][:300], "(lossy, from_utf8_lossy, valid, Utf8Chunks items)")
        print("model :", ctx.model(["mparse_lossy " + lib.hexs(t)])[0][:300], "(own_parse with Utf8.lossy)")
        std = std_direct(ctx, [b])
        print("std   :", std[0][:300] if std else "unavailable")
        print("python:", b.decode("utf-8", "replace").encode().hex() or "-", fmt_chunks(py_chunks(b)))
    elif kind == "trackers":
        a, t = case["announce"], case["tiers"]
        print("impl  :", ctx.harness(["trackers " + lib.hexs(torrent_bytes("n", a, t))])[0])
        print("model :", ctx.model(["mtrackers %s %s" % ("~" if a is None else lib.hexs(a), "/".join(lib.hexlist(x) for x in t) if t else "~")])[0])
        print("spec  :", spec_trackers(a, t))
    else:
        print(json.dumps(case, indent=1, ensure_ascii=False)[:4000])
    return 0


def link_with_unparseable_trackers(ctx):
    """Torrents the loader accepts whose tracker list holds a string that is not an absolute URL (the `announce` fields are
    plain strings): `torrent link` either refuses, or prints a link with one `tr` per distinct tracker - never a link that
    silently leaves trackers out. Oracle only. (Added after seeded change C10-7: the tracker iterator flattened, dropping the
    entries that fail to parse.)"""
    good = ["http://a.example/announce", "udp://b.example:6969"]
    broken = ["tracker.example.com/announce", "//host/announce", "http://", "", "not a url", "::", "http://[::1/announce"]
    shapes = []
    for b in broken:
        shapes.append((b, [[good[0]], [good[1]]]))            # broken announce, good tiers
        shapes.append((good[0], [[b], [good[1]]]))            # broken tier entry between good ones
        shapes.append((good[0], [[good[1], b]]))              # broken last entry
    tmp = tempfile.mkdtemp(prefix="c10u-")
    try:
        for k, (announce, tiers) in enumerate(shapes):
            d = tempfile.mkdtemp(dir=tmp)
            tb = torrent_bytes("n", announce, tiers)
            open(os.path.join(d, "t.torrent"), "wb").write(tb)
            rc, out, err = ctx.imdl(["torrent", "link", "--input", "t.torrent"], cwd=d)
            ctx.cov["evaluations"] += 1
            ctx.count("e2e_link_unparseable_tracker")
            ctx.distinct(("unparseable-tracker", k))
            stored = spec_trackers(announce, tiers)
            case = {"kind": "e2e-link-unparseable-tracker", "announce": announce, "tiers": tiers, "rc": rc,
                    "stdout": out.decode("utf-8", "replace"), "stderr": err.decode("utf-8", "replace")[-300:],
                    "shell": "echo %s | xxd -r -p > t.torrent; imdl torrent link --input t.torrent" % tb.hex()}
            if rc == 0:
                uri = out.decode("utf-8", "replace").strip()
                q = uri.split("?", 1)[1] if "?" in uri else ""
                ntr = sum(1 for kv in q.split("&") if kv.split("=", 1)[0] == "tr")
                if ntr != len(stored):
                    ctx.violation("oracle-failure",
                                  "`torrent link` exits 0 with %d `tr` parameters for a torrent with %d distinct trackers %r (one of them "
                                  "is not an absolute URL): trackers are left out silently" % (ntr, len(stored), stored), case)
            elif rc != 1:
                ctx.violation("oracle-failure", "`torrent link` ended abnormally (rc %d) on a tracker that is not a URL" % rc, case)
            shutil.rmtree(d, ignore_errors=True)
    finally:
        shutil.rmtree(tmp, ignore_errors=True)

