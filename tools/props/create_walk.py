"""The whole create pipeline (work package X7; part of the C02 run): walker, hasher, metainfo, then verify.

Theorems: Properties/C02.v and Properties/C06.v, heading "the whole create pipeline (X7)" (Model/CreateWalk.v:
create_walk = create_t on the walker's own selection of the very tree that is hashed).
Correspondence, per case (a C06-style tree WITH contents x flags x globs x sort keys x piece length x --md5):
  real binary   create --no-created-by --no-creation-date ... ; verify (0); edit one file the walker left out, verify (0);
                edit one file it included, verify (1); undo that edit, verify (0)
  model         the extracted composition (command cwalk, driver.d/createwalk.ml): Walk.walk on the erased tree ->
                hasher loop -> Metainfo.build -> encode -> load, with real SHA-1/MD5: the model's bytes must be THE FILE
                the binary wrote, byte for byte; create_walk + verify on the later trees must give the exit statuses
  oracle        below, independent of both: enumerate, filter by the documented rules (hidden, junk, last matching glob),
                sort by the --sort-by keys then path component-wise; hashlib over the contents in that order; a verify
                must succeed exactly when every file so selected still holds its creation-time bytes on disk.
Trees come from tools/props/c06.py's generator (names aimed at hidden / junk / ordering edge cases); links and special
files are dropped (the content-tree model has none), every file gets random bytes."""
import functools, hashlib, json, os, random, shlex, shutil, tempfile
import lib
from props import c06, vfy

PIECE = [1, 2, 3, 4, 5, 7, 8, 16, 32, 64, 16384]
CREATE_FLAGS = ["--allow", "small-piece-length", "--allow", "uneven-piece-length", "--no-created-by", "--no-creation-date"]
ROOT_NAMES = [b"root", b"root", b".root", b"Thumbs.db", b"a b"]


# ------------------------------------------------------------------ generation
def content_tree(r, t, p):
    """c06 node -> {name: bytes | dict}; links, dangling links and special files are left out"""
    out = {}
    for n, c in t[1]:
        if c[0] == "F":
            k = r.random()
            size = c[1] if k < 0.6 else r.choice([p - 1, p, p + 1, 2 * p, 2 * p + 1, 3 * p - 1]) if k < 0.9 else r.randrange(0, 5 * p + 2)
            out[n.encode()] = r.randbytes(max(0, min(size, 70000)))
        elif c[0] == "D":
            out[n.encode()] = content_tree(r, c, p)
    return out


def files_of(tree, prefix=()):
    """[(comps, bytes)] in dictionary order"""
    if not isinstance(tree, dict):
        return [(tuple(prefix), tree)]
    out = []
    for n, c in tree.items():
        out += files_of(c, prefix + (n,))
    return out


def gen_case(r, idx):
    p = r.choice(PIECE)
    c06.SPECIAL_OK[0] = False
    if r.random() < 0.08:
        tree = r.randbytes(r.choice([0, 1, p - 1, p, p + 1, 3 * p + 2]))          # a regular file as the input
    else:
        tree = content_tree(r, c06.gen_dir(r, r.choice([1, 2, 3, 3]), False, lo=1, hi=6), p)
    paths = [[c.decode() for c in comps] for comps, _ in files_of(tree) if comps]
    # aim at selections that keep some files and leave some out (then both kinds of edit have a target)
    want_mixed = isinstance(tree, dict) and len(paths) > 1 and r.random() < 0.8
    for _ in range(6):
        flags = (r.random() < 0.4, r.random() < 0.4, r.random() < 0.5)
        globs = [c06.gen_glob(r, paths) for _ in range(r.choice([0, 0, 1, 1, 2, 3]))]
        n_sel = len(selected({"tree": tree, "flags": flags, "globs": globs, "specs": []}))
        if not want_mixed or 0 < n_sel < len(paths):
            break
    specs = [(r.choice(["path", "size", "size"]), r.random() < 0.5) for _ in range(r.choice([0, 0, 1, 1, 2]))]
    return {"kind": "create-walk", "idx": idx, "tree": tree, "flags": flags, "globs": globs, "specs": specs,
            "spec_text": [r.choice(c06.SPEC_TEXT[s]) for s in specs], "p": p, "md5": r.random() < 0.5,
            "name": r.choice(ROOT_NAMES), "seed": r.getrandbits(20), "edit_seed": r.getrandbits(30)}


def corpus():
    """the example of Properties/C02.v (X7 part), and one with every filter and a size key at once"""
    ex = {b".h": b"HID", b"Thumbs.db": b"JNK", b"skip.log": b"LOG", b"b": b"fghijk", b"d": {b"a": b"abcde"}}
    base = {"kind": "create-walk", "flags": (False, False, False), "specs": [], "spec_text": [], "p": 4, "md5": True,
            "name": b"in", "seed": 7, "edit_seed": 1}
    return [dict(base, idx=-1, tree=ex, globs=[(False, [("lit", "skip.log")])]),
            dict(base, idx=-2, tree=ex, globs=[(False, [("lit", "skip.log")])], specs=[("size", False)], spec_text=["size"]),
            dict(base, idx=-3, tree=ex, globs=[], flags=(True, True, True), md5=False, p=16384)]


# ------------------------------------------------------------------ the oracle (the property's own words)
def selected(case, tree=None):
    """the files `create` must list, in order: [(comps, bytes)]"""
    tree = case["tree"] if tree is None else tree
    if not isinstance(tree, dict):
        return [((), tree)]
    hid, junk, _follow = case["flags"]
    keep = []
    for comps, data in files_of(tree):
        if not hid and any(c.startswith(b".") for c in comps):
            continue
        if not junk and comps[-1] in c06.JUNK_DOC:
            continue
        if not c06.glob_decides(case["globs"], b"/".join(comps)):
            continue
        keep.append((comps, data))
    keep.sort(key=functools.cmp_to_key(lambda a, b: c06.oracle_cmp(case["specs"], (a[0], len(a[1])), (b[0], len(b[1])))))
    return keep


def expected_torrent(case):
    sel = selected(case)
    blob = b"".join(d for _, d in sel)
    p = case["p"]
    return {"name": case["name"], "p": p, "single": not isinstance(case["tree"], dict),
            "files": [(list(c) if c else None, len(d), hashlib.md5(d).digest() if case["md5"] else None) for c, d in sel],
            "pieces": [hashlib.sha1(blob[i:i + p]).digest() for i in range(0, len(blob), p)]}


def lookup(tree, comps):
    for c in comps:
        if not isinstance(tree, dict) or c not in tree:
            return None
        tree = tree[c]
    return tree


def still_holds(case, now):
    """every selected file is a regular file holding its creation-time bytes in the tree as it is now"""
    return all(lookup(now, comps) == data and not isinstance(lookup(now, comps), dict) for comps, data in selected(case))


# ------------------------------------------------------------------ edits (applied to a mirror and to the disk)
def copy_tree(t):
    return {k: copy_tree(v) for k, v in t.items()} if isinstance(t, dict) else t


def set_at(tree, comps, node):
    """-> new tree with `node` (bytes | dict | None = absent) at comps"""
    if not comps:
        return node
    t = dict(tree)
    if len(comps) == 1:
        if node is None:
            t.pop(comps[0], None)
        else:
            t[comps[0]] = node
    else:
        t[comps[0]] = set_at(t[comps[0]], comps[1:], node)
    return t


def disk_set(root, comps, node):
    p = os.path.join(root, *comps) if comps else root
    if os.path.isdir(p) and not os.path.islink(p):
        shutil.rmtree(p)
    elif os.path.lexists(p):
        os.unlink(p)
    if node is None:
        return
    if isinstance(node, dict):
        os.mkdir(p)
        vfy.materialise(node, p)
    else:
        with open(p, "wb") as f:
            f.write(node)


def gen_edit(r, comps, data, p, allow_remove):
    """a real change of one regular file: (kind, new node)"""
    kinds = ["append"] + (["flip-first", "flip-last", "truncate"] if data else []) + \
            (["flip-boundary"] if len(data) > p else []) + (["delete", "todir"] if allow_remove else [])
    k = r.choice(kinds)
    if k == "append":
        return k, data + r.randbytes(r.choice([1, 1, p]))
    if k == "truncate":
        return k, data[:r.randrange(len(data))]
    if k == "delete":
        return k, None
    if k == "todir":
        return k, {}
    i = {"flip-first": 0, "flip-last": len(data) - 1, "flip-boundary": p - 1 + r.randrange(2)}[k]
    return k, data[:i] + bytes([data[i] ^ (1 << r.randrange(8))]) + data[i + 1:]


# ------------------------------------------------------------------ one case on the real binary
def create_argv(case):
    hid, junk, follow = case["flags"]
    a = ["torrent", "create", "--input", os.fsdecode(case["name"]), "--output", "out.torrent",
         "--piece-length", str(case["p"])] + CREATE_FLAGS
    a += ["--md5"] if case["md5"] else []
    a += ["--include-hidden"] if hid else []
    a += ["--include-junk"] if junk else []
    a += ["--follow-symlinks"] if follow else []
    for g in case["globs"]:
        a += ["--glob", c06.glob_arg(g)]
    for s in case["spec_text"]:
        a += ["--sort-by", s]
    return a


VERIFY = ["torrent", "verify", "--input", "out.torrent", "--content"]


def run_case(ctx, case, tmp):
    """-> record: steps on the binary, oracle failures, the model line and what the model must answer"""
    S = tempfile.mkdtemp(dir=tmp)
    r = random.Random(case["edit_seed"])
    name, tree0 = case["name"], case["tree"]
    root = os.path.join(os.fsencode(S), name)
    rec = {"case": case, "fail": [], "steps": [], "sandbox": S}
    try:
        vfy.materialise({name: tree0}, os.fsencode(S))
        argv = create_argv(case)
        rc, out, err = ctx.imdl(argv, cwd=S, timeout=120)
        rec["steps"].append({"op": "create", "argv": ["imdl"] + argv, "exit_status": rc, "stderr_tail": err.decode("utf-8", "replace")[-300:]})
        if rc != 0:
            rec["fail"].append("`%s` exited %d on a tree of regular files and directories" % (" ".join(["imdl"] + argv), rc))
            return rec
        with open(os.path.join(S, "out.torrent"), "rb") as f:
            tb = f.read()
        rec["torrent"] = tb
        t, why = vfy.read_torrent(tb)
        want = expected_torrent(case)
        if t is None:
            rec["fail"].append("the torrent create wrote is not readable: %s" % why)
            return rec
        show = lambda fl: ", ".join(os.fsdecode(b"/".join(c or [name])) + ":%d" % n for c, n, _ in fl) or "(no files)"
        if [(c, n) for c, n, _ in t["files"]] != [(c, n) for c, n, _ in want["files"]] or t["single"] != want["single"]:
            rec["fail"].append("create lists [%s]; the documented filters and order give [%s]" % (show(t["files"]), show(want["files"])))
        elif t["pieces"] != want["pieces"]:
            rec["fail"].append("the piece list is not SHA-1 of the listed files' contents, in listed order, cut at %d "
                               "(%d hashes written, %d expected)" % (case["p"], len(t["pieces"]), len(want["pieces"])))
        elif [m for _, _, m in t["files"]] != [m for _, _, m in want["files"]]:
            rec["fail"].append("md5sum fields differ from hashlib.md5 of the listed files (--md5 %s)" % case["md5"])
        elif t["name"] != want["name"] or t["p"] != want["p"]:
            rec["fail"].append("name / piece length written: %r / %r, requested %r / %r" % (t["name"], t["p"], want["name"], want["p"]))
        sel = selected(case)
        listed = {c for c, _ in sel}
        trees = [tree0]

        def verify(label, now):
            rc, out, err = ctx.imdl(VERIFY + [os.fsdecode(name)], cwd=S, timeout=120)
            expect = 0 if still_holds(case, now) else 1
            rec["steps"].append({"op": "verify", "after": label, "exit_status": rc, "oracle_expects": expect})
            if rc != expect:
                rec["fail"].append("verify after %s exited %d; %s" % (label, rc,
                                   "every file the documented rules select still holds its bytes" if expect == 0 else
                                   "a file the documented rules select was changed"))
            return rc

        verify("nothing", tree0)
        now = tree0
        if isinstance(tree0, dict):
            # 1. a change confined to what the walker left out (or to nothing that existed): never matters
            outside = [(c, d) for c, d in files_of(tree0) if c not in listed]
            if outside and r.random() < 0.85:
                comps, data = r.choice(outside)
                kind, node = gen_edit(r, comps, data, case["p"], True)
                what = "%s of the excluded file %s" % (kind, os.fsdecode(b"/".join(comps)))
            else:
                comps, node = (b"zz-new-file",), r.randbytes(3)
                what = "adding the unlisted file zz-new-file"
            now = set_at(now, list(comps), node)
            disk_set(root, list(comps), node)
            rec["steps"].append({"op": "edit", "detail": what})
            trees.append(now)
            verify(what, now)
        # 2. a real change of one included file: always matters
        if sel:
            comps, data = r.choice(sel)
            kind, node = gen_edit(r, comps, data, case["p"], bool(comps))
            what = "%s of the included file %s" % (kind, os.fsdecode(b"/".join(comps or (name,))))
            before = now
            now = set_at(now, list(comps), node)
            disk_set(root, list(comps), node)
            rec["steps"].append({"op": "edit", "detail": what})
            trees.append(now)
            verify(what, now)
            # 3. undone
            disk_set(root, list(comps), data)
            rec["steps"].append({"op": "edit", "detail": "undo"})
            verify("undoing that", before)
        rec["trees"] = trees
        rec["expect_verdicts"] = ["1" if still_holds(case, t_) else "0" for t_ in trees]
        return rec
    finally:
        shutil.rmtree(S, ignore_errors=True)


def model_line(case, trees):
    hid, junk, follow = case["flags"]
    cands = [c for c, _ in files_of(case["tree"]) if c]
    globs = []
    for inc, toks in case["globs"]:
        rx = c06.glob_regex(toks)
        m = sorted({"/".join(x.hex() for x in c) for c in cands if rx.fullmatch(b"/".join(c))})
        globs.append(("+" if inc else "-") + ";".join(m))
    specs = ",".join(("p" if k == "path" else "s") + ("-" if d else "+") for k, d in case["specs"]) or "~"
    return "cwalk %d%d%d %s %s %d %d %d %s %s %s" % (
        hid, junk, follow, ",".join(globs) or "~", specs, case["md5"], case["p"], case["seed"], case["name"].hex(),
        vfy.model_tree(trees[0]), ",".join(vfy.model_tree(t) for t in trees[1:]) or "~")


def judge_model(rec, reply):
    """-> list of disagreements between the extracted composition and the binary"""
    if not reply.startswith("OK "):
        return ["the model did not answer: %s" % reply[:200]]
    if reply == "OK nocreate":
        return ["the model refuses to create although the binary created"]
    f = reply.split(" | ")[0].split(" ")
    sels, ok, back, mb, verdicts = f[1], f[2], f[3], f[4], f[5:]
    out = []
    want_sel = ",".join("/".join(c.hex() for c in comps) for comps, _ in selected(rec["case"]) if comps) or "~"
    if sels != want_sel:
        out.append("the model's walker selects %s, the documented rules %s" % (sels, want_sel))
    if ok != "1" or back != "1":
        out.append("side conditions / load-back of the model's own bytes: %s / %s" % (ok, back))
    if bytes.fromhex(mb if mb != "-" else "") != rec["torrent"]:
        out.append("the bytes the composed model writes differ from the file the binary wrote (%d vs %d bytes)"
                   % (len(mb) // 2, len(rec["torrent"])))
    if verdicts != rec["expect_verdicts"]:
        out.append("model verdicts on (creation tree, after the excluded edit, after the included edit) = %s, disk says %s"
                   % (verdicts, rec["expect_verdicts"]))
    return out


def shell_script(rec):
    case = rec["case"]
    if sum(len(d) for _, d in files_of(case["tree"])) > 800:
        return None
    q = lambda b: shlex.quote(os.fsdecode(b))
    octal = lambda b: "'" + "".join("\\%03o" % x for x in b) + "'"
    name = case["name"]
    lines = ["S=$(mktemp -d); cd $S"]
    if isinstance(case["tree"], dict):
        lines.append("mkdir -p " + q(name))
    for comps, data in files_of(case["tree"]):
        p = os.path.join(name, *comps) if comps else name
        if len(comps) > 1:
            lines.append("mkdir -p " + q(os.path.dirname(p)))
        lines.append("printf %s > %s" % (octal(data), q(p)))
    for st in rec["steps"]:
        if st["op"] == "create":
            lines.append(" ".join(shlex.quote(a) for a in st["argv"]) + '; echo "exit $?"')
        elif st["op"] == "verify":
            lines.append("imdl " + " ".join(VERIFY) + " " + q(name) + '; echo "exit $? (expected %d)"' % st["oracle_expects"])
        else:
            lines.append("# edit: " + st["detail"])
    return lines


def describe(rec, why):
    case = rec["case"]
    return {"kind": "create-walk", "why": why, "case": vfy.to_js(plain_js(case)),
            "flags": dict(zip(("include_hidden", "include_junk", "follow_symlinks"), case["flags"])),
            "globs": [c06.glob_arg(g) for g in case["globs"]], "sort_by": case["spec_text"], "piece_length": case["p"],
            "md5": case["md5"], "files": [os.fsdecode(b"/".join(c)) + " (%d bytes)" % len(d) for c, d in files_of(case["tree"])],
            "documented_selection": [os.fsdecode(b"/".join(c)) for c, _ in selected(case)],
            "steps": rec["steps"], "reproduce": "./check C02 --replay <this file>", "shell": shell_script(rec)}


def plain_js(v):
    """tuples -> lists, so that vfy.to_js takes the case"""
    if isinstance(v, (tuple, list)):
        return [plain_js(x) for x in v]
    if isinstance(v, dict):
        return {k: plain_js(x) for k, x in v.items()}
    return v


def case_from_js(js):
    c = vfy.from_js(js)
    c["flags"] = tuple(c["flags"])
    c["specs"] = [tuple(x) for x in c["specs"]]
    return c


# ------------------------------------------------------------------ the run
def selftest(ctx):
    msgs = [b"", b"abc", b"a" * 55, b"a" * 56, b"a" * 64, b"a" * 119]
    got = ctx.model(["cwsha1 " + lib.hexs(m) for m in msgs] + ["cwmd5 " + lib.hexs(m) for m in msgs], nproc=1)
    want = ["OK " + hashlib.sha1(m).hexdigest() for m in msgs] + ["OK " + hashlib.md5(m).hexdigest() for m in msgs]
    if got != want:
        ctx.violation("assumption-broken", "the create-walk driver's SHA-1/MD5 differs from hashlib", {"driver": got, "hashlib": want})


def run(ctx, n):
    """called from c02.run after need_coq / need_rust / need_runner"""
    selftest(ctx)
    r = ctx.rng
    cases = corpus() + [gen_case(r, i) for i in range(n)]
    tmp = tempfile.mkdtemp(prefix="c02-walk-")
    try:
        recs = lib.pmap(lambda c: run_case(ctx, c, tmp), cases)
    finally:
        shutil.rmtree(tmp, ignore_errors=True)
    with_model = [rec for rec in recs if "trees" in rec]
    replies = ctx.model([model_line(rec["case"], rec["trees"]) for rec in with_model])
    dis_of = {id(rec): judge_model(rec, rep) for rec, rep in zip(with_model, replies)}
    n_oracle = n_model = 0
    for rec in recs:
        account(ctx, rec)
        dis = dis_of.get(id(rec), [])
        if rec["fail"]:
            if n_oracle < 3:
                small = shrink(ctx, rec) if n_oracle == 0 else rec
                ctx.violation("oracle-failure", "create-walk: %s" % small["fail"][0], describe(small, small["fail"]))
            n_oracle += 1
        elif dis:
            ctx.cov["disagreements_checked"] += 1
            if n_model < 2:
                ctx.violation("model-impl-disagreement", "create-walk: %s; the documented-rules oracle finds nothing wrong" % dis[0],
                              describe(rec, dis))
            n_model += 1


def shrink(ctx, rec, budget=40):
    """drop files (then globs, then sort keys) while the case still fails on the binary"""
    best = rec
    tmp = tempfile.mkdtemp(prefix="c02-walk-shrink-")
    try:
        changed = True
        while changed and budget > 0:
            changed = False
            case = best["case"]
            cands = []
            if isinstance(case["tree"], dict):
                for comps, _ in files_of(case["tree"]):
                    cands.append(dict(case, tree=set_at(case["tree"], list(comps), None)))
            for i in range(len(case["globs"])):
                cands.append(dict(case, globs=case["globs"][:i] + case["globs"][i + 1:]))
            for i in range(len(case["specs"])):
                cands.append(dict(case, specs=case["specs"][:i] + case["specs"][i + 1:], spec_text=case["spec_text"][:i] + case["spec_text"][i + 1:]))
            for cand in cands:
                if budget <= 0:
                    break
                budget -= 1
                r2 = run_case(ctx, cand, tmp)
                if r2["fail"]:
                    best, changed = r2, True
                    break
    finally:
        shutil.rmtree(tmp, ignore_errors=True)
    return best


def account(ctx, rec):
    case = rec["case"]
    ctx.cov["evaluations"] += len([s for s in rec["steps"] if s["op"] != "edit"])
    if "trees" in rec:
        ctx.cov["traces_validated_against_impl"] += 1
    sel = selected(case)
    nfiles = len(files_of(case["tree"]))
    ctx.count("create-walk: cases")
    ctx.count("create-walk: input %s" % ("directory" if isinstance(case["tree"], dict) else "regular file"))
    ctx.count("create-walk: flags hidden=%d junk=%d follow=%d" % case["flags"])
    ctx.count("create-walk: %d glob(s), %d sort key(s)" % (len(case["globs"]), len(case["specs"])))
    ctx.count("create-walk: selected %s of the files" % ("all" if len(sel) == nfiles else "none" if not sel else "some"))
    for st in rec["steps"]:
        if st["op"] == "verify":
            ctx.count("create-walk: verify after %s: exit %d" % (st["after"].split(" of the ")[0].split(" the unlisted")[0], st["exit_status"]))
    ctx.distinct(("create-walk", case["flags"], len(case["globs"]), len(case["specs"]), case["md5"], case["p"], len(sel), nfiles,
                  tuple(s.get("exit_status") for s in rec["steps"] if s["op"] == "verify")))
    if case["idx"] == -1:
        ctx.sample({"tag": "create-walk: the example of Properties/C02.v (X7)", "steps": rec["steps"],
                    "documented_selection": [os.fsdecode(b"/".join(c)) for c, _ in sel]}, cap=6)


RULE = ("Whole pipeline (X7): trees from the C06 generator given random contents (sizes around multiples of the piece length), "
        "flags x 0-3 globs of the validated sub-language x 0-2 sort keys x piece lengths 1..64 and 16 KiB x --md5; one in twelve "
        "inputs is a regular file; three hand-written cases first. Per case: create, verify, edit a file the walker left out "
        "(append / flip / truncate / delete / replace by a directory, or add a new file), verify, edit an included file, verify, "
        "undo, verify; compared with the extracted walk -> hasher -> build -> encode -> load composition (byte-identical file) and "
        "with the documented-rules oracle; distinct by (flags, globs, keys, md5, piece length, selected, files, exit statuses)")
ASSUMPTIONS = [
    "whole pipeline (c02_create_walk_*): the input is a tree of regular files and directories whose sibling names are distinct "
    "and plain components (wf_node; true of any tree the operating system shows, both parts shown necessary by examples); no "
    "symlinks (Model/Fs.v has none; on link-free trees --follow-symlinks is proved irrelevant); globset is the Section variable "
    "gmatch (the run uses the glob sub-language that the C06 run validates against the glob_filter hook)"]


def replay(ctx, doc):
    case = case_from_js(doc["case"])
    tmp = tempfile.mkdtemp(prefix="c02-walk-replay-")
    try:
        rec = run_case(ctx, case, tmp)
    finally:
        shutil.rmtree(tmp, ignore_errors=True)
    print("case  : create-walk | flags", case["flags"], "| globs", [c06.glob_arg(g) for g in case["globs"]], "| sort-by", case["spec_text"],
          "| p", case["p"], "| md5", case["md5"])
    print("files :", ", ".join(os.fsdecode(b"/".join(c)) + " (%d)" % len(d) for c, d in files_of(case["tree"])))
    print("documented selection:", [os.fsdecode(b"/".join(c)) for c, _ in selected(case)])
    for st in rec["steps"]:
        if st["op"] == "create":
            print("impl  : %s -> exit %s" % (" ".join(st["argv"]), st["exit_status"]))
        elif st["op"] == "verify":
            print("impl  : verify after %s -> exit %s (oracle expects %s)" % (st["after"], st["exit_status"], st["oracle_expects"]))
        else:
            print("edit  :", st["detail"])
    dis = []
    if "trees" in rec:
        dis = judge_model(rec, ctx.model([model_line(case, rec["trees"])], nproc=1)[0])
    print("oracle failures :", rec["fail"] or "none")
    print("model disagreements:", dis or "none")
    return 0
