"""X14 (C05 / C07 / C10 / C08): the tie between Model/UrlConcrete.v and the url crate as imdl calls it.

Model/UrlConcrete.v instantiates the `Section` variables that the older models keep for the url crate (`norm`, `url_ok`,
`host_canon`, `host_disp`, `url_norm`, `hp_norm`, `node_ok`) with the concrete models of X9 / X10 / C17. A `Tie` collects every
URL text, host text (without brackets), host:port text and encoded node that OCCURS in a run of C05 / C07 / C10, evaluates the
instances with the extracted model (runner/driver.d/urlconcrete.ml: `c_url`, `c_host`, `c_hp`, `c_node`) and compares them with
what the real library answers through the hooks (`urlnorm`, `hostparse`, `hpparse`, `hpunben`). The MODEL decides whether a text
is inside the fragment (`IN` / `OUT` in its reply); inside, every field must agree; outside, the text is only counted.

A disagreement inside the fragment is a `model-impl-disagreement`, unless the independent Python oracle below also contradicts
the implementation - then it is an `oracle-failure`. The oracle never looks at the model: a URL that a conservative regular
expression recognises as already normal must come back unchanged, and whatever the hook returns must be a fixed point of the
hook (urlnorm.py's rules); a host that Python's `ipaddress` reads as IPv6 must be displayed as `[compressed]`, one it reads as
dotted-quad IPv4 as itself, a plain lower-case domain as itself; a `plain-host:decimal` text with a u16 port must parse to
`host:port` with the port in canonical decimal."""
import ipaddress
import re
import lib

PLAIN_DOMAIN = re.compile(r"[a-z][a-z0-9-]*(\.[a-z][a-z0-9-]*)*\Z")


def rebracket(t):
    return b"[" + t + b"]" if b":" in t else t


def unbracket(h):
    return h[1:-1] if h.startswith(b"[") and h.endswith(b"]") and len(h) >= 2 else h


def oracle_host(t):
    """-> (shown, stored) the independent expectation for an (unbracketed) host text, or None when the oracle has no opinion"""
    try:
        s = t.decode("ascii")
    except UnicodeDecodeError:
        return None
    if ":" in s:
        try:
            a = ipaddress.IPv6Address(s)
        except ValueError:
            return None
        if "%" in s:
            return None
        return ("[" + a.compressed + "]", None)         # the stored form (std's Display) has a dotted tail for mapped addresses
    if re.fullmatch(r"(0|[1-9][0-9]{0,2})(\.(0|[1-9][0-9]{0,2})){3}", s):
        try:
            a = ipaddress.IPv4Address(s)
        except ValueError:
            return None
        return (a.compressed, a.compressed)
    if PLAIN_DOMAIN.match(s) and not any(l.startswith("xn--") for l in s.split(".")) and not re.search(r"(^|\.)[0-9]+$", s):
        return (s, s)
    return None


def oracle_hp(t):
    try:
        s = t.decode("ascii")
    except UnicodeDecodeError:
        return None
    m = re.fullmatch(r"([^:]*):([0-9]{1,12})", s)
    if not m:
        return None
    h = oracle_host(m.group(1).encode())
    if h is None or int(m.group(2)) > 65535:
        return None
    return "%s:%d" % (h[0], int(m.group(2)))


class Tie:
    def __init__(self, ctx, prop):
        self.ctx, self.prop = ctx, prop
        self.urls, self.hosts, self.hps, self.nodes = {}, {}, {}, {}
        self.model_url, self.model_host, self.model_hp, self.model_node = {}, {}, {}, {}
        self.impl_url, self.impl_host, self.impl_hp, self.impl_node = {}, {}, {}, {}

    # ---- collection
    @staticmethod
    def _b(t):
        return t.encode("utf-8") if isinstance(t, str) else bytes(t)

    def url(self, t, where):
        if t is not None:
            self.urls.setdefault(self._b(t), where)

    def host(self, t, where):
        if t is not None:
            self.hosts.setdefault(self._b(t), where)

    def hostport(self, t, where):
        if t is not None:
            self.hps.setdefault(self._b(t), where)

    def node(self, bs, where):
        if bs is not None:
            self.nodes.setdefault(bytes(bs), where)

    # ---- evaluation
    def _case(self, kind, t, where, **kw):
        hookcmd = {"url": "urlnorm", "host": "hostparse", "hp": "hpparse", "node": "hpunben"}[kind]
        arg = rebracket(t) if kind == "host" else t
        c = {"kind": "x14-" + kind, "text": t.decode("latin1"), "text_hex": lib.hexs(t), "occurs_in": where, "x14_kind": kind,
             "reproduce": "printf '%s %s\\n' | imdl-verif-harness   # model: printf 'c_%s %s\\n' | modelrun"
                          % (hookcmd, lib.hexs(arg), kind, lib.hexs(t))}
        c.update(kw)
        return c

    def _report(self, kind, t, where, what, oracle_says_impl_wrong, **kw):
        k = "oracle-failure" if oracle_says_impl_wrong else "model-impl-disagreement"
        self.ctx.cov["disagreements_checked"] += 1
        self.ctx.violation(k, "X14 %s %r (%s): %s" % (kind, t, where, what), self._case(kind, t, where, **kw))

    def run(self):
        ctx = self.ctx
        from props import urlnorm
        # ---------------- URLs
        us = list(self.urls)
        impl = [urlnorm.parse_reply(x) for x in ctx.harness(["urlnorm " + lib.hexs(t) for t in us])]
        model = ctx.model(["c_url " + lib.hexs(t) for t in us])
        outs = sorted({v for k, v in impl if k == "ok"})
        again = dict(zip(outs, [urlnorm.parse_reply(x) for x in ctx.harness(["urlnorm " + lib.hexs(t) for t in outs])]))
        for t, i, m in zip(us, impl, model):
            where = self.urls[t]
            ctx.cov["evaluations"] += 1
            f = m.split(" ")
            if i[0] == "other" or f[0] not in ("IN", "OUT"):
                ctx.violation("infrastructure", "X14 url tie: unexpected reply for %r: %r / %r" % (t, i, m), self._case("url", t, where)); continue
            # layout: IN|OUT IN|OUT (OK hex | ERR) c_norm url_ok is_normal
            rest = f[2:]
            if rest[0] == "OK":
                mnorm, rest = ("ok", lib.unhex(rest[1])), rest[2:]
            else:
                mnorm, rest = ("err", None), rest[1:]
            mcnorm, mok, mnormal = lib.unhex(rest[0]), rest[1] == "1", rest[2] == "1"
            self.model_url[t] = {"in": f[0] == "IN", "ok_in": f[1] == "IN", "norm": mnorm, "c_norm": mcnorm, "url_ok": mok, "normal": mnormal}
            self.impl_url[t] = i
            # the oracle, on the implementation alone
            bad = None
            try:
                txt = t.decode("ascii")
            except UnicodeDecodeError:
                txt = None
            if txt is not None and urlnorm.looks_normal(txt) and i != ("ok", t):
                bad = "URL written in normal form is stored as %r" % (i[1],)
            if i[0] == "ok" and again.get(i[1]) != ("ok", i[1]) and not i[1].startswith(b"file:"):
                bad = "the stored form %r is not a fixed point of the url crate (it becomes %r)" % (i[1], again.get(i[1]))
            if bad and f[0] != "IN":
                ctx.violation("oracle-failure", "X14 url %r (%s): %s" % (t, where, bad), self._case("url", t, where, impl=repr(i)))
                continue
            if f[0] == "IN":
                ctx.count("x14_url_in_fragment")
                ctx.cov["traces_validated_against_impl"] += 1
                ctx.distinct(("x14-url", self.prop, i[0], t[:8], len(t) // 8))
                want_ok = i[0] == "ok"
                if mnorm != i or mok != want_ok or (want_ok and mcnorm != i[1]):
                    self._report("url", t, where, "the url crate answers %r; c_url_norm %r, c_norm %r, c_url_ok %s" % (i, mnorm, mcnorm, mok),
                                 bool(bad), impl=repr(i), model=m)
                elif mnormal and i != ("ok", t):
                    self._report("url", t, where, "is_normal_url accepts it but the url crate stores %r" % (i[1],), bool(bad), impl=repr(i), model=m)
                elif bad:
                    ctx.violation("oracle-failure", "X14 url %r (%s): %s" % (t, where, bad), self._case("url", t, where, impl=repr(i)))
            elif f[1] == "IN":
                ctx.count("x14_url_ok_only_in_fragment")
                ctx.cov["traces_validated_against_impl"] += 1
                if mok != (i[0] == "ok"):
                    self._report("url", t, where, "Url::parse %s it; c_url_ok says %s (no `//` after a non-special scheme)"
                                 % ("accepts" if i[0] == "ok" else "refuses", mok), False, impl=repr(i), model=m)
            else:
                ctx.count("x14_url_out_of_fragment")
        # ---------------- hosts (text without brackets)
        hs = [t for t in self.hosts]
        utf8 = []
        for t in hs:
            try:
                t.decode("utf-8"); utf8.append(True)
            except UnicodeDecodeError:
                utf8.append(False)
        impl = ctx.harness(["hostparse " + lib.hexs(rebracket(t)) for t in hs])
        model = ctx.model(["c_host " + lib.hexs(t) for t in hs])
        for t, i, m in zip(hs, impl, model):
            where = self.hosts[t]
            ctx.cov["evaluations"] += 1
            f = m.split(" ")
            if f[0] not in ("IN", "OUT") or not (i.startswith("OK ") or i.startswith("ERR")):
                ctx.violation("infrastructure", "X14 host tie: unexpected reply for %r: %r / %r" % (t, i, m), self._case("host", t, where)); continue
            mok = f[1] == "1"
            if f[2] == "OK":
                mdisp, mcanon = lib.unhex(f[3]), lib.unhex(f[4])
            else:
                mdisp, mcanon = None, lib.unhex(f[3])
            if i.startswith("OK "):
                g = i.split(" ")
                iv = (lib.unhex(g[4]), lib.unhex(g[3]))      # (Display, std text)
            else:
                iv = None
            self.model_host[t] = {"in": f[0] == "IN", "ok": mok, "disp": mdisp, "canon": mcanon}
            self.impl_host[t] = iv
            o = oracle_host(t)
            bad = None
            if o is not None:
                if iv is None:
                    bad = "Host::parse refuses a host that is %s" % ("an IPv6 address" if b":" in t else "a plain host")
                elif iv[0].decode("latin1") != o[0] or (o[1] is not None and iv[1].decode("latin1") != o[1]):
                    bad = "Host Display is %r / stored %r, expected %r / %r" % (iv[0], iv[1], o[0], o[1])
            if f[0] != "IN":
                ctx.count("x14_host_out_of_fragment")
                if bad:
                    ctx.violation("oracle-failure", "X14 host %r (%s): %s" % (t, where, bad), self._case("host", t, where, impl=i))
                continue
            ctx.count("x14_host_in_fragment")
            ctx.cov["traces_validated_against_impl"] += 1
            ctx.distinct(("x14-host", self.prop, iv is None, t[:6], len(t) // 4))
            if (iv is None) != (not mok) or (iv is not None and (mdisp != iv[0] or mcanon != iv[1])):
                self._report("host", t, where, "Host::parse + Display / std text: %r; c_host_ok %s, c_host_disp %r, c_host_canon %r"
                             % (iv, mok, mdisp, mcanon), bool(bad), impl=i, model=m)
            elif bad:
                ctx.violation("oracle-failure", "X14 host %r (%s): %s" % (t, where, bad), self._case("host", t, where, impl=i))
        # ---------------- host:port texts
        ps = []
        for t in self.hps:
            try:
                t.decode("utf-8"); ps.append(t)
            except UnicodeDecodeError:
                ctx.count("x14_hp_not_utf8_skipped")
        impl = ctx.harness(["hpparse " + lib.hexs(t) for t in ps])
        model = ctx.model(["c_hp " + lib.hexs(t) for t in ps])
        for t, i, m in zip(ps, impl, model):
            where = self.hps[t]
            ctx.cov["evaluations"] += 1
            f = m.split(" ")
            if f[0] not in ("IN", "OUT") or not (i.startswith("OK ") or i.startswith("ERR")):
                ctx.violation("infrastructure", "X14 host:port tie: unexpected reply for %r: %r / %r" % (t, i, m), self._case("hp", t, where)); continue
            mv = lib.unhex(f[2]) if f[1] == "OK" else None
            mfixed = f[-1] == "1"
            iv = lib.unhex(i[3:]) if i.startswith("OK ") else None
            self.model_hp[t] = {"in": f[0] == "IN", "norm": mv, "fixed": mfixed}
            self.impl_hp[t] = iv
            o = oracle_hp(t)
            bad = None
            if o is not None and (iv is None or iv.decode("latin1") != o):
                bad = "HostPort::from_str + Display gives %r, expected %r" % (iv, o)
            if f[0] != "IN":
                ctx.count("x14_hp_out_of_fragment")
                if bad:
                    ctx.violation("oracle-failure", "X14 host:port %r (%s): %s" % (t, where, bad), self._case("hp", t, where, impl=i))
                continue
            ctx.count("x14_hp_in_fragment")
            ctx.cov["traces_validated_against_impl"] += 1
            ctx.distinct(("x14-hp", self.prop, iv is None, t[:6], len(t) // 4))
            if mv != iv or mfixed != (iv == t):
                self._report("hp", t, where, "HostPort::from_str + Display: %r; c_hp_norm %r, c_hp_fixed %s" % (iv, mv, mfixed), bool(bad), impl=i, model=m)
            elif bad:
                ctx.violation("oracle-failure", "X14 host:port %r (%s): %s" % (t, where, bad), self._case("hp", t, where, impl=i))
        # ---------------- encoded nodes
        ns = list(self.nodes)
        impl = ctx.harness(["hpunben " + lib.hexs(t) for t in ns])
        model = ctx.model(["c_node " + lib.hexs(t) for t in ns])
        for t, i, m in zip(ns, impl, model):
            where = self.nodes[t]
            ctx.cov["evaluations"] += 1
            f = m.split(" ")
            if f[0] not in ("IN", "OUT") or not (i.startswith("OK ") or i.startswith("ERR")):
                ctx.violation("infrastructure", "X14 node tie: unexpected reply for %r: %r / %r" % (t, i, m), self._case("node", t, where)); continue
            self.model_node[t] = {"in": f[0] == "IN", "ok": f[1] == "1"}
            self.impl_node[t] = i.startswith("OK ")
            if f[0] != "IN":
                ctx.count("x14_node_out_of_fragment"); continue
            ctx.count("x14_node_in_fragment")
            ctx.cov["traces_validated_against_impl"] += 1
            ctx.distinct(("x14-node", self.prop, i.startswith("OK "), t[:8], len(t) // 4))
            if (f[1] == "1") != i.startswith("OK "):
                self._report("node", t, where, "Deserialize for HostPort %s the encoded node; c_node_ok says %s"
                             % ("accepts" if i.startswith("OK ") else "refuses", f[1]), False, impl=i, model=m)
        ctx.count("x14_texts", len(us) + len(hs) + len(ps) + len(ns))
        for t in us[:2]:
            ctx.sample({"x14_url": t.decode("latin1"), "impl": repr(self.impl_url.get(t)), "model": self.model_url.get(t) and
                        {k: (v.decode("latin1") if isinstance(v, bytes) else repr(v)) for k, v in self.model_url[t].items()}}, cap=40)
        ctx.assumptions += [
            "X14: inside the fragments of Model/UrlConcrete.v (decided by the model's own predicates url_in_fragment / url_ok_in_fragment / "
            "host_in_fragment / hp_in_fragment / node_in_fragment) the url crate IS the concrete instances c_url_norm, c_norm, c_url_ok, c_host_disp, "
            "c_host_canon, c_hp_norm, c_node_ok - compared in this run on every URL / host / host:port / node that occurs in it (%d URLs, %d hosts, "
            "%d host:port texts, %d encoded nodes); outside the fragments (non-ASCII and IDNA hosts, `%%` escapes and xn-- labels in hosts, file: URLs, "
            "the serialisation of URLs without `//`) the library stays what it is and the concrete corollaries do not apply"
            % (len(us), len(hs), len(ps), len(ns))]
        return self

    # ---- observations of the real binary against the instances
    def observed_url(self, given, stored, where, what="stores"):
        """the binary was given URL text `given` and stored / printed `stored` (bytes); inside the fragment c_norm must agree"""
        g = self._b(given)
        m = self.model_url.get(g)
        if m is None or not m["in"]:
            self.ctx.count("x14_observed_url_out_of_fragment"); return
        self.ctx.count("x14_observed_url_in_fragment")
        self.ctx.cov["traces_validated_against_impl"] += 1
        if m["norm"][0] != "ok" or m["c_norm"] != stored:
            self._report("url", g, where, "the binary %s %r; c_url_norm gives %r, c_norm %r" % (what, stored, m["norm"], m["c_norm"]), False,
                         observed=stored.decode("latin1"))

    def observed_host(self, given, stored, where, field="canon", what="stores"):
        """`given` = host text without brackets; `stored` = what the binary wrote (field canon) or printed (field disp)"""
        g = self._b(given)
        m = self.model_host.get(g)
        if m is None or not m["in"]:
            self.ctx.count("x14_observed_host_out_of_fragment"); return
        self.ctx.count("x14_observed_host_in_fragment")
        self.ctx.cov["traces_validated_against_impl"] += 1
        if not m["ok"] or m[field] != stored:
            self._report("host", g, where, "the binary %s %r; c_host_ok %s, c_host_%s %r" % (what, stored, m["ok"], field, m[field]), False,
                         observed=stored.decode("latin1"))


def replay(ctx, case):
    ctx.need_rust(); ctx.need_runner()
    t = lib.unhex(case["text_hex"])
    kind = case.get("x14_kind", "url")
    hook = {"url": "urlnorm", "host": "hostparse", "hp": "hpparse", "node": "hpunben"}[kind]
    arg = rebracket(t) if kind == "host" else t
    print("text  :", repr(t), "(%s, occurs in %s)" % (kind, case.get("occurs_in")))
    print("impl  :", ctx.harness(["%s %s" % (hook, lib.hexs(arg))])[0])
    print("model :", ctx.model(["c_%s %s" % (kind, lib.hexs(t))])[0])
    return 0
