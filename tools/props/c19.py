"""C19 — completion scripts: same text on stdout and on disk, under the documented names.

Obligations: coq/Properties/C19.v (tables regenerated from src/shell.rs, src/subcommand/completions.rs and the
StructOpt enums; dispatch, exactly-one / all-five, same text, frame "nothing else" for every prior directory content,
usage errors, no internal error, script shape, names survive the post-processing).
Correspondence: the real binary on the complete matrix {no shell, 5 shells} x {no positional, 5 shells} x
{no --dir, empty dir, populated dir, missing dir, `--dir ""`}, a seeded stream of spelling variants and a malformed
stream of shell values, each with a snapshot of the whole scratch tree before and after, against the extracted
Cpl.run and against a direct oracle written from the property's own words."""
import hashlib, itertools, json, os, re, shutil, tempfile
import lib

MANIFEST = dict(
    text="Machine-checked proof over a model of `imdl completions` (clap validation, Completions::run/write, the script "
         "post-processing) for every command line, every clap generator and every prior content of the target directory: "
         "documented file names (over the table regenerated from src/shell.rs), same text on stdout and on disk, exactly "
         "one / all five files and nothing else, both-or-neither is a usage error, the internal-error branches are "
         "unreachable. Tied to the code by the translator and by a run of the real binary over the complete matrix of "
         "argument shapes with directory snapshots. Right level: the space of shapes is finite and is enumerated "
         "completely, the frame condition quantifies over all directories.",
    ref="DESIGN.md section 5, C19",
    technique="Coq proof over a Gallina model + translator-generated tables + model/implementation correspondence run",
    note="Partial: that a script is a working completion script is clap's business; clap's generator is a universally "
         "quantified Section variable, the hypothesis that it names every subcommand is validated on the real binary. "
         "Trusted: Coq kernel, tools/rs2v_shell.py, extraction (ExtrOcamlBasic), Python oracle and snapshot code.")

# ---- the property's own words
SHELLS = ["zsh", "bash", "fish", "powershell", "elvish"]
DOCNAME = {"bash": "imdl.bash", "fish": "imdl.fish", "zsh": "_imdl", "powershell": "_imdl.ps1", "elvish": "imdl.elvish"}

ENV0 = {"NO_COLOR": "1", "IMDL_TERM_WIDTH": "400"}
WS = b" \t\n\r\x0b\x0c"


# ---------------------------------------------------------------- the live command-line interface

def help_subcommands(ctx, path):
    rc, out, err = ctx.imdl(list(path) + ["--help"], env=ENV0)
    text = out.decode("utf-8", "replace")
    m = re.search(r"^SUBCOMMANDS:\n((?:    .*\n?)+)", text, re.M)
    names = []
    if m:
        for line in m.group(1).splitlines():
            lm = re.match(r"    (\S+)", line)
            if lm:
                names.append(lm.group(1))
    return rc, names


def live_tree(ctx):
    """parent path -> subcommand names, read from `imdl [path] --help` recursively (includes clap's own `help`)"""
    tree, todo, runs = {}, [()], 0
    while todo:
        p = todo.pop()
        rc, names = help_subcommands(ctx, p)
        runs += 1
        if rc != 0:
            tree.setdefault("errors", []).append(p)
            continue
        if names:
            tree[p] = names
        for n in names:
            if n != "help" and len(p) < 4:
                todo.append(p + (n,))
    return tree, runs


def generated_paths():
    src = open(os.path.join(lib.COQ, "Generated", "GenShell.v"), encoding="utf-8").read()
    m = re.search(r"Definition cli_subcommands : list \(list string\) :=\s*\[(.*?)\]\.\n", src, re.S)
    if not m:
        return None
    return [tuple(re.findall(r"\"([^\"]*)\"%string", item)) for item in re.findall(r"\[([^\[\]]*)\]", m.group(1))]


# ---------------------------------------------------------------- "names every subcommand": where each shell's script offers candidates

def offered(shell, t):
    """parent key -> set of words the script offers as completion candidates after that parent
    (the candidate-offer constructs of clap 2.34's five generators)"""
    res = {}
    if shell == "bash":
        for m in re.finditer(r'^\s+(imdl(?:__[a-z0-9_]+)?)\)\n\s+opts="([^"]*)"', t, re.M):
            res[m.group(1)] = set(m.group(2).split())
    elif shell == "fish":
        for m in re.finditer(r'^complete -c imdl -n "(__fish_use_subcommand|__fish_seen_subcommand_from [a-z0-9-]+)" -f -a "([a-z0-9-]+)"', t, re.M):
            res.setdefault(m.group(1), set()).add(m.group(2))
    elif shell == "zsh":
        for m in re.finditer(r'^(_imdl[a-z0-9_-]*)_commands\(\) \{\n\s*local commands; commands=\(\n(.*?)^\s*\)\n', t, re.M | re.S):
            res[m.group(1)] = set(re.findall(r'^\s*"([a-z0-9-]+):', m.group(2), re.M))
    elif shell == "powershell":
        for m in re.finditer(r"^\s+'(imdl(?:;[a-z0-9-]+)*)' \{\n(.*?)^\s+break\n", t, re.M | re.S):
            res[m.group(1)] = set(re.findall(r"\[CompletionResult\]::new\('([a-z0-9-]+)', '[a-z0-9-]+', \[CompletionResultType\]::ParameterValue",
                                             m.group(2)))
    elif shell == "elvish":
        for m in re.finditer(r"^\s+&'(imdl(?:;[a-z0-9-]+)*)'= \{\n(.*?)^\s+\}\n", t, re.M | re.S):
            res[m.group(1)] = set(re.findall(r"^\s+cand ([a-z0-9-]+) '", m.group(2), re.M))
    return res


def parent_key(shell, path):
    if shell == "bash":
        return "imdl" + "".join("__" + c.replace("-", "__") for c in path)
    if shell == "fish":
        return "__fish_use_subcommand" if not path else "__fish_seen_subcommand_from " + path[-1]
    if shell == "zsh":
        return "_imdl" + "".join("__" + c for c in path)
    return ";".join(("imdl",) + tuple(path))


def names_missing(shell, script, tree):
    """subcommands of the live interface that the script does not name: (path, name, why)"""
    t = script.decode("utf-8", "replace")
    off = offered(shell, t)
    miss = []
    for parent, names in sorted((k, v) for k, v in tree.items() if isinstance(k, tuple)):
        cands = off.get(parent_key(shell, parent))
        for n in names:
            if not re.search(r"(?<![A-Za-z0-9_-])" + re.escape(n) + r"(?![A-Za-z0-9_-])", t):
                miss.append((" ".join(parent + (n,)), "the word does not occur in the script"))
            elif cands is None or n not in cands:
                miss.append((" ".join(parent + (n,)), "not offered as a completion candidate after `%s`" % " ".join(("imdl",) + parent)))
    return miss


# ---------------------------------------------------------------- cases

def snapshot(root):
    snap = {}
    for d, dirs, files in os.walk(root):
        for n in dirs:
            p = os.path.join(d, n)
            snap[os.path.relpath(p, root)] = ("l", os.readlink(p)) if os.path.islink(p) else ("d",)
        for n in files:
            p = os.path.join(d, n)
            if os.path.islink(p):
                snap[os.path.relpath(p, root)] = ("l", os.readlink(p))
            else:
                with open(p, "rb") as f:
                    snap[os.path.relpath(p, root)] = ("f", f.read())
    return snap


def snap_diff(a, b):
    return {k: (a.get(k), b.get(k)) for k in set(a) | set(b) if a.get(k) != b.get(k)}


def short(v):
    if v is None:
        return None
    if v[0] == "f":
        return {"file": len(v[1]), "sha1": hashlib.sha1(v[1]).hexdigest()[:12], "head": v[1][:40].decode("utf-8", "replace")}
    return {"kind": v[0]}


DIRMODES = ["none", "empty", "populated", "missing", "emptyvalue"]


def populate_plan(rng, printed=None):
    """files put into a populated target directory before the run: bystanders (must survive untouched) and stale
    files under documented names (must be replaced completely - one is longer than any script)"""
    plan = {"README": b"bystander\n", ".hidden": bytes(rng.randrange(256) for _ in range(rng.randrange(1, 40))),
            "imdl.bash.bak": b"old\n", "imdl.zsh": b"not a documented name\n", "_imdl.zwc": b"\x00\x01compiled",
            "IMDL.BASH": b"case matters\n"}
    stale = rng.sample(sorted(DOCNAME.values()), rng.randrange(1, 4))
    for i, n in enumerate(stale):
        plan[n] = (b"# stale " + n.encode() + b"\n") * (6000 if i == 0 else 1)
    # stale files whose LENGTH is that of the script about to be written, or one byte off (added after seeded change C19-5:
    # an "already up to date" shortcut that compared lengths only); one that already holds the right text
    if printed:
        shell_of = {v: k for k, v in DOCNAME.items()}
        for n in rng.sample(sorted(DOCNAME.values()), rng.randrange(1, 4)):
            t = printed.get(shell_of[n])
            if not t:
                continue
            k = rng.randrange(5)
            if k == 0:
                plan[n] = b"#" * (len(t) - 1) + b"\n"
            elif k == 1:
                plan[n] = t[:-2] + bytes([t[-2] ^ 1]) + t[-1:]
            elif k == 2:
                plan[n] = b"#" * (len(t) - 2) + b"\n"
            elif k == 3:
                plan[n] = b"#" * len(t) + b"\n"
            else:
                plan[n] = t
    return plan


def other_filesystem_dir():
    """a writable directory on a different file system than the scratch directories of this run, or None"""
    here = os.stat(tempfile.gettempdir()).st_dev
    for cand in ("/dev/shm", "/run", "/var/tmp", os.path.expanduser("~"), "/verif/.cache"):
        try:
            if os.path.isdir(cand) and os.access(cand, os.W_OK) and os.stat(cand).st_dev != here:
                return cand
        except OSError:
            pass
    return None


def mk_case(flag, pos, dirmode, dirform="rel", fs="long", ds="long", order=("f", "p", "d"), env=None, kind="matrix", plan=None):
    return {"flag": flag, "pos": pos, "dirmode": dirmode, "dirform": dirform, "fs": fs, "ds": ds, "order": list(order),
            "env": env or {}, "kind": kind, "plan": plan}


def darg_of(case):
    dm, form = case["dirmode"], case["dirform"]
    if dm == "none":
        return None
    if dm == "emptyvalue":
        return ""
    if dm == "missing":
        return {"rel": "nowhere", "abs": "@BASE@/nowhere", "nested": "out/nowhere"}.get(form, "nowhere")
    return {"rel": "out", "dotrel": "./out", "slash": "out/", "nested": "sub/out", "abs": "@BASE@/elsewhere/comp", "dot": ".",
            "dotdot": "../cwd/out", "symlink": "linkdir", "symlink-abs": "@BASE@/cwd/linkdir",
            # a directory literally called `~` (a quoted tilde is not the home directory: seeded change C19-11), and a relative
            # `..` target from a working directory that was entered through a symbolic link, with the logical $PWD a shell
            # exports after `cd link` (the operating system's `..` is the physical parent: seeded change C19-10)
            "tilde": "~/comp", "tilde-only": "~", "linkcwd": "../out2"}[form]


def drel_of(case):
    """the target directory relative to the scratch base"""
    dm, form = case["dirmode"], case["dirform"]
    if dm in ("none", "emptyvalue"):
        return None
    if dm == "missing":
        return {"rel": "cwd/nowhere", "abs": "nowhere", "nested": "cwd/out/nowhere"}.get(form, "cwd/nowhere")
    return {"rel": "cwd/out", "dotrel": "cwd/out", "slash": "cwd/out", "nested": "cwd/sub/out", "abs": "elsewhere/comp", "dot": "cwd",
            "dotdot": "cwd/out", "symlink": "elsewhere/real", "symlink-abs": "elsewhere/real",
            "tilde": "cwd/~/comp", "tilde-only": "cwd/~", "linkcwd": "cwd/out2"}[form]


def argv_of(case, base):
    groups = {}
    if case["flag"] is not None:
        v = case["flag"]
        groups["f"] = {"long": ["--shell", v], "short": ["-s", v], "eq": ["--shell=" + v], "glued": ["-s" + v]}[case["fs"]]
    if case["pos"] is not None:
        groups["p"] = [case["pos"]]
    d = darg_of(case)
    if d is not None:
        d = d.replace("@BASE@", base)
        groups["d"] = {"long": ["--dir", d], "short": ["-d", d], "eq": ["--dir=" + d], "glued": ["-d" + d]}[case["ds"]]
    argv = list(case.get("globals") or []) + ["completions"]
    for g in case["order"]:
        argv += groups.get(g, [])
    return argv


def gen_cases(ctx, printed=None):
    r = ctx.rng
    cases = []
    vals = [None] + SHELLS
    # 1. the complete matrix
    for dm in DIRMODES:
        for f in vals:
            for p in vals:
                form = "abs" if dm == "populated" else "rel"
                cases.append(mk_case(f, p, dm, form, plan=populate_plan(r, printed) if dm == "populated" else None))
    # 2. spelling variants of the accepted shapes (and of both/neither), seeded
    forms = ["rel", "dotrel", "slash", "nested", "abs", "dot", "dotdot", "symlink", "symlink-abs", "tilde", "tilde-only", "linkcwd"]
    envs = [{}, {}, {"NO_COLOR": "1"}, {"TERM": "dumb"}, {"TERM": "xterm-256color"}, {"TERM": "xterm-256color", "NO_COLOR": "1"}]
    # a temporary directory on ANOTHER file system than the target (seeded change C19-8: the script staged in $TMPDIR and renamed
    # into place): imdl does not use TMPDIR, so where it points cannot matter
    other = other_filesystem_dir()
    if other:
        envs += [{"TMPDIR": other}, {"TMPDIR": other, "NO_COLOR": "1"}, {"TMPDIR": other}]
    # every shell once into a symlinked directory, and once with the foreign TMPDIR, deterministically
    for s_ in SHELLS:
        cases.append(mk_case(s_, None, "empty", "symlink", kind="spelling", env={}))
        cases.append(mk_case(None, s_, "populated", "symlink-abs", kind="spelling", env={}, plan=populate_plan(r, printed)))
        if other:
            cases.append(mk_case(s_, None, "empty", "rel", kind="spelling", env={"TMPDIR": other}))
    cases.append(mk_case(None, None, "empty", "symlink", kind="spelling", env={}))
    for form in ("tilde", "tilde-only", "linkcwd"):
        cases.append(mk_case(SHELLS[len(form) % len(SHELLS)], None, "empty", form, kind="spelling", env={}))
        cases.append(mk_case(None, SHELLS[(len(form) + 2) % len(SHELLS)], "populated", form, kind="spelling", env={},
                             plan=populate_plan(r, printed)))
        cases.append(mk_case(None, None, "empty", form, kind="spelling", env={}))
    # all five scripts with hardly any spare file descriptor: one destination at a time is enough (seeded change C19-12: every
    # destination opened before the first is written)
    for lim in (7, 5):
        c = mk_case(None, None, "empty", "rel", kind="spelling", env={})
        c["nofile"] = lim
        cases.append(c)
        c = mk_case(None, None, "populated", "abs", kind="spelling", env={}, plan=populate_plan(r, printed))
        c["nofile"] = lim
        cases.append(c)
    if other:
        cases.append(mk_case(None, None, "empty", "rel", kind="spelling", env={"TMPDIR": other}))
    for _ in range(ctx.n(120, 2500)):
        shape = r.choice(["flag", "flag", "pos", "pos", "neither", "both"])
        f = r.choice(SHELLS) if shape in ("flag", "both") else None
        p = r.choice(SHELLS) if shape in ("pos", "both") else None
        dm = r.choice(["none", "empty", "populated", "populated", "missing"])
        if shape == "neither" and dm == "none":
            dm = "populated"
        form = r.choice(forms) if dm in ("empty", "populated") else r.choice(["rel", "abs", "nested"])
        order = list(r.choice(list(itertools.permutations("fpd"))))
        cases.append(mk_case(f, p, dm, form, r.choice(["long", "short", "eq", "glued"]), r.choice(["long", "short", "eq", "glued"]),
                             order, r.choice(envs), "spelling", populate_plan(r, printed) if dm == "populated" else None))
        # global options in front of the subcommand change nothing about what is printed or written (--quiet silences the
        # diagnostics on standard error, not the script on standard output; added after seeded change C19-4)
        cases[-1]["globals"] = r.choice([[], [], ["--quiet"], ["-q"], ["--color", "never"], ["--color", "always"], ["--terminal"],
                                         ["--quiet", "--terminal"], ["--unstable"]])
    for s_ in SHELLS:
        for gl in (["--quiet"], ["-q", "--color", "always"]):
            c = mk_case(s_, None, "none", kind="spelling"); c["globals"] = gl; cases.append(c)
            c = mk_case(None, s_, "empty", kind="spelling"); c["globals"] = gl; cases.append(c)
    # 3. malformed stream: values that are not one of the five names
    pool = ["", "Bash", "BASH", "zs", "zshh", "bash ", " bash", "power-shell", "PowerShell", "pwsh", "nushell", "tcsh", "sh",
            "ba sh", "bash\n", "fish,zsh", "elvish.", "imdl.bash", "_imdl", "all", "*", "bash/", "баш", "zsh\tbash"]
    for _ in range(ctx.n(70, 1500)):
        if r.random() < 0.5:
            bad = r.choice(pool)
        else:
            s = r.choice(SHELLS)
            k = r.randrange(len(s))
            bad = r.choice([s[:k] + s[k].upper() + s[k + 1:], s[:k] + s[k + 1:], s[:k] + r.choice("abcxyz-_ ") + s[k:], s + s, s[::-1]])
            if bad in SHELLS:
                bad = bad + "x"
        where = r.choice(["flag", "pos", "flag+pos", "pos+flag"])
        f = bad if where in ("flag", "flag+pos") else (r.choice(SHELLS) if where == "pos+flag" else None)
        p = bad if where in ("pos", "pos+flag") else (r.choice(SHELLS) if where == "flag+pos" else None)
        if p is not None and p.startswith("-"):
            p = "x" + p
        dm = r.choice(["none", "empty", "populated"])
        fs = r.choice(["long", "eq"]) if f == "" else r.choice(["long", "short", "eq", "glued"])
        cases.append(mk_case(f, p, dm, "abs" if dm == "populated" else "rel", fs, "long", ("f", "d", "p"), None, "malformed",
                             populate_plan(r, printed) if dm == "populated" else None))
    # 4. write faults (added after seeded change C19-6: the all-shells loop reporting only the last write's outcome): a
    # DIRECTORY sits where a documented file has to go. The command cannot have done what it is asked, so it must not
    # report success. Judged by the oracle only (the model's filesystem has no such obstacle); kind = "fault".
    for blocked in sorted(DOCNAME.values()):
        plan = {"README": b"bystander\n", blocked: None}
        cases.append(mk_case(None, None, "populated", "rel", kind="fault", plan=plan))
        sh = next(k for k, v in DOCNAME.items() if v == blocked)
        cases.append(mk_case(sh, None, "populated", "rel", kind="fault", plan=plan))
        cases.append(mk_case(None, sh, "populated", "abs", kind="fault", plan=plan))
    return cases


def execute(ctx, root, case):
    base = tempfile.mkdtemp(dir=root)
    cwd = os.path.join(base, "cwd")
    os.makedirs(os.path.join(cwd, "sub"))
    with open(os.path.join(cwd, "keep.txt"), "wb") as f:
        f.write(b"keep\n")
    os.makedirs(os.path.join(base, "elsewhere"))
    with open(os.path.join(base, "elsewhere", "other.txt"), "wb") as f:
        f.write(b"other\n")
    drel = drel_of(case)
    if case["dirmode"] in ("empty", "populated"):
        os.makedirs(os.path.join(base, drel), exist_ok=True)
        if case["dirform"] in ("symlink", "symlink-abs"):
            # D is a symbolic link to an existing directory: still a directory to write into (seeded change C19-7)
            os.symlink(os.path.join("..", "elsewhere", "real"), os.path.join(cwd, "linkdir"))
        for n, c in (case["plan"] or {}).items():
            if c is None:
                os.makedirs(os.path.join(base, drel, n, "in the way"))
                continue
            with open(os.path.join(base, drel, n), "wb") as f:
                f.write(c)
        if case["plan"]:
            os.makedirs(os.path.join(base, drel, "subdir.d"), exist_ok=True)
            with open(os.path.join(base, drel, "subdir.d", "imdl.fish"), "wb") as f:
                f.write(b"nested bystander\n")
    before = snapshot(base)
    argv = argv_of(case, base)
    env = dict(ENV0) if case["kind"] != "spelling" else dict(case["env"])
    run_cwd = cwd
    if case["dirform"] == "linkcwd":
        os.symlink(os.path.join("..", "cwd", "sub"), os.path.join(base, "elsewhere", "cwdlink"))
        run_cwd = os.path.join(base, "elsewhere", "cwdlink")
        before = snapshot(base)
    env["PWD"] = run_cwd
    rc, out, err = ctx.imdl(argv, cwd=run_cwd, env=env, nofile=case.get("nofile"))
    after = snapshot(base)
    shutil.rmtree(base, ignore_errors=True)
    return {"argv": argv, "rc": rc, "stdout": out, "stderr": err, "before": before, "after": after, "drel": drel}


def impl_status(rc, err):
    if rc == 0:
        return "success"
    if rc == 1:
        return "usage" if b"USAGE:" in err else "error"
    return "crash(rc=%d)" % rc


def listing(snap, drel):
    """regular files directly inside the target directory, or None when it does not exist"""
    if drel is None:
        return {}
    if drel != "." and snap.get(drel) != ("d",):
        return None
    out = {}
    for k, v in snap.items():
        if os.path.dirname(k) == drel and v[0] == "f":
            out[os.path.basename(k)] = v[1]
    return out


# ---------------------------------------------------------------- the direct oracle (the property's own words)

def oracle(case, res, printed):
    """problems with the implementation's behaviour on this case, judged from the statement of C19 alone"""
    f, p, dm = case["flag"], case["pos"], case["dirmode"]
    rc, out, err = res["rc"], res["stdout"], res["stderr"]
    changed = snap_diff(res["before"], res["after"])
    bad = []
    if rc not in (0, 1):
        bad.append("terminated abnormally (rc %d)" % rc)
    if case["kind"] == "fault":
        blocked = sorted(n for n, c in (case["plan"] or {}).items() if c is None)
        if rc == 0:
            bad.append("exit status 0 although %s in D is a directory, so the script cannot have been written there" % ", ".join(blocked))
        elif rc == 1 and not err.strip():
            bad.append("exit status 1 without any diagnostic")
        gone = sorted(k for k, (a, b) in changed.items() if a is not None and a[0] == "d" and (b is None or b[0] != "d"))
        if gone:
            bad.append("a directory was removed or replaced: %s" % gone)
        return bad
    both = f is not None and p is not None
    neither = f is None and p is None
    one = (f if p is None else p) if (not both and not neither) else None
    exists = dm in ("empty", "populated")
    if both or (neither and dm == "none"):
        what = "shell given both as flag and positionally" if both else "neither shell nor directory given"
        if not (rc == 1 and b"USAGE:" in err):
            bad.append("%s is not reported as a usage error (rc %d, usage text %s)" % (what, rc, "present" if b"USAGE:" in err else "absent"))
        if out:
            bad.append("%s: %d bytes on stdout" % (what, len(out)))
        if changed:
            bad.append("%s: files changed: %s" % (what, sorted(changed)))
    elif one in SHELLS and dm == "none":
        if rc != 0:
            bad.append("`--shell %s` without --dir exits %d" % (one, rc))
        elif not out.strip():
            bad.append("the printed script for %s is empty" % one)
        elif printed.get(one) is not None and out != printed[one]:
            bad.append("the printed script for %s differs between invocations/spellings (%d vs %d bytes)" % (one, len(out), len(printed[one])))
        if changed:
            bad.append("printing to stdout changed files: %s" % sorted(changed))
    elif one in SHELLS and exists:
        target = os.path.join(res["drel"], DOCNAME[one])
        if rc != 0:
            bad.append("`--dir D` with shell %s exits %d on an existing directory" % (one, rc))
        got = res["after"].get(target)
        if got is None or got[0] != "f":
            bad.append("no file %s in D after `--dir D` for %s" % (DOCNAME[one], one))
        elif printed.get(one) is not None and got[1] != printed[one]:
            bad.append("D/%s (%d bytes) is not byte-identical to what `--shell %s` prints (%d bytes)"
                       % (DOCNAME[one], len(got[1]), one, len(printed[one])))
        extra = sorted(k for k in changed if k != target)
        if extra:
            bad.append("`--dir D` for %s touched something else: %s" % (one, extra))
    elif neither and exists:
        targets = {os.path.join(res["drel"], DOCNAME[s]): s for s in SHELLS}
        if rc != 0:
            bad.append("`--dir D` without a shell exits %d on an existing directory" % rc)
        for t, s in sorted(targets.items()):
            got = res["after"].get(t)
            if got is None or got[0] != "f":
                bad.append("`--dir D` without a shell did not write %s" % DOCNAME[s])
            elif printed.get(s) is not None and got[1] != printed[s]:
                bad.append("D/%s is not byte-identical to what `--shell %s` prints" % (DOCNAME[s], s))
        extra = sorted(k for k in changed if k not in targets)
        if extra:
            bad.append("`--dir D` without a shell touched something else: %s" % extra)
    # other shapes (a value that is not one of the five names, `--dir ""`, a directory that does not exist) are not
    # named by the statement; they are judged by the correspondence with the model only
    return bad


# ---------------------------------------------------------------- model side

def model_line(case, res):
    def opt(v):
        return "~" if v is None else lib.hexs(v.encode("utf-8", "surrogateescape"))
    dm = case["dirmode"]
    d = "~" if dm == "none" else ("-" if dm == "emptyvalue" else lib.hexs(darg_of(case)))
    if dm == "missing":
        tgt = "!"
    elif dm in ("none", "emptyvalue"):
        tgt = "~"
    else:
        lst = listing(res["before"], res["drel"]) or {}
        tgt = ",".join("%s:%s" % (lib.hexs(k), lib.hexs(v)) for k, v in sorted(lst.items())) or "~"
    return "cpl %s %s %s %s" % (opt(case["flag"]), opt(case["pos"]), d, tgt)


def model_concrete(reply, printed):
    """OK <status> <stdout> <dir> with the markers `<shell>\\n` replaced by the text the binary prints for that shell"""
    m = re.fullmatch(r"OK (\w+) (\S+) (\S+)", reply)
    if not m:
        return None
    marker = {(s + "\n").encode(): printed.get(s) for s in SHELLS}

    def conc(b):
        return marker[b] if b in marker else b
    out = conc(lib.unhex(m.group(2)))
    if m.group(3) == "!":
        d = None
    else:
        d = {}
        if m.group(3) != "~":
            for it in m.group(3).split(","):
                k, v = it.split(":")
                d.setdefault(lib.unhex(k).decode("utf-8", "replace"), conc(lib.unhex(v)))
    return {"status": {"io": "error", "internal": "error"}.get(m.group(1), m.group(1)), "model_status": m.group(1), "stdout": out, "dir": d}


def describe(case, res, extra=None):
    d = {"argv": ["imdl"] + res["argv"], "flag": case["flag"], "pos": case["pos"], "dirmode": case["dirmode"],
         "dirform": case["dirform"], "kind": case["kind"], "env": case["env"], "case": {k: case[k] for k in case if k != "plan"},
         "plan": {k: plan_enc(v) for k, v in (case["plan"] or {}).items()},
         "rc": res["rc"], "stdout_len": len(res["stdout"]), "stdout_sha1": hashlib.sha1(res["stdout"]).hexdigest(),
         "stderr": res["stderr"].decode("utf-8", "replace")[:600],
         "changed": {k: [short(a), short(b)] for k, (a, b) in sorted(snap_diff(res["before"], res["after"]).items())},
         "reproduce": reproduce(case)}
    if extra:
        d.update(extra)
    return d


def plan_enc(v):
    """file content for the replay file: hex, long periodic contents as unit x times"""
    if v is None:
        return {"directory": True}
    if len(v) > 200 and b"\n" in v:
        unit = v[:v.index(b"\n") + 1]
        if unit * (len(v) // len(unit)) == v:
            return {"hex": unit.hex(), "times": len(v) // len(unit)}
    return {"hex": v.hex()}


def reproduce(case):
    dm = case["dirmode"]
    d = darg_of(case)
    argv = " ".join("'%s'" % a if (a == "" or re.search(r"[^A-Za-z0-9_./=@$-]", a)) else a for a in argv_of(case, "$B"))
    pre = "B=$(mktemp -d); mkdir -p $B/cwd/sub $B/elsewhere; cd $B/cwd; "
    if dm in ("empty", "populated"):
        pre += "mkdir -p %s; " % d.replace("@BASE@", "$B")
        for n, c in sorted((case.get("plan") or {}).items()):
            if c is None:
                pre += "mkdir -p %s/%s; " % (d.replace("@BASE@", "$B").rstrip("/"), n)
            elif re.fullmatch(r"[A-Za-z0-9_.-]+", n):
                pre += "head -c %d /dev/zero | tr '\\0' x > %s/%s; " % (len(c), d.replace("@BASE@", "$B").rstrip("/"), n)
    one = case["flag"] if case["pos"] is None else (case["pos"] if case["flag"] is None else None)
    post = ""
    if dm in ("empty", "populated") and one in SHELLS:
        post = "; imdl completions --shell %s | cmp - %s/%s; ls -A %s" % (one, d.replace("@BASE@", "$B"), DOCNAME[one], d.replace("@BASE@", "$B"))
    elif dm in ("empty", "populated"):
        post = "; ls -A %s" % d.replace("@BASE@", "$B")
    return pre + "imdl " + argv + "; echo rc=$?" + post


def shrink(ctx, root, case, res, bad, printed):
    """an oracle failure on a populated directory: look for a smaller prior content that still fails
    (nothing there at all, else one of the files alone)"""
    plan = case["plan"]
    for cand in [{}] + [{n: plan[n]} for n in sorted(plan, key=lambda n: len(plan[n] or b""))]:
        c2 = dict(case, plan=cand or None)
        r2 = execute(ctx, root, c2)
        ctx.cov["evaluations"] += 1
        b2 = oracle(c2, r2, printed)
        if b2:
            return c2, r2, b2
    return case, res, bad


def run(ctx):
    ctx.need_coq()
    if not ctx.need_rust() or not ctx.need_runner():
        return finish(ctx)
    root = tempfile.mkdtemp(prefix="c19-")
    try:
        return body(ctx, root)
    finally:
        shutil.rmtree(root, ignore_errors=True)


def body(ctx, root):
    # ---- what each shell prints (the reference text of "the printed script")
    printed = {}
    for s in SHELLS:
        rc, out, err = ctx.imdl(["completions", "--shell", s], cwd=root, env=ENV0)
        ctx.cov["evaluations"] += 1
        printed[s] = out if rc == 0 else None
        if rc != 0 or not out.strip():
            ctx.violation("oracle-failure", "`imdl completions --shell %s` does not print a non-empty script (rc %d, %d bytes)" % (s, rc, len(out)),
                          {"argv": ["imdl", "completions", "--shell", s], "rc": rc, "stdout_len": len(out),
                           "stderr": err.decode("utf-8", "replace")[:600], "reproduce": "imdl completions --shell %s | wc -c" % s})
    # ---- the live interface, the regenerated tree, the names in every script
    tree, runs = live_tree(ctx)
    ctx.cov["evaluations"] += runs
    live = sorted(p + (n,) for p, ns in tree.items() if isinstance(p, tuple) for n in ns if n != "help")
    gen = generated_paths()
    ctx.count("live_subcommands", len(live))
    ctx.sample({"live subcommand tree (from --help)": {" ".join(("imdl",) + k): v for k, v in tree.items() if isinstance(k, tuple)}})
    if not live or "errors" in tree:
        ctx.violation("oracle-failure", "`imdl --help` lists no subcommands or a listed subcommand rejects --help",
                      {"tree": repr(tree), "reproduce": "imdl --help; imdl torrent --help"})
    if gen is None or sorted(gen) != live:
        ctx.cov["disagreements_checked"] += 1
        ctx.violation("model-impl-disagreement",
                      "the subcommand tree regenerated from the StructOpt enums (GenShell.cli_subcommands) differs from what --help lists: "
                      "only generated %s, only live %s" % (sorted(set(gen or []) - set(live)), sorted(set(live) - set(gen or []))),
                      {"generated": gen, "live": live, "reproduce": "imdl --help; imdl torrent --help"})
    for s in SHELLS:
        if printed[s] is None:
            continue
        ctx.cov["evaluations"] += 1
        miss = names_missing(s, printed[s], tree)
        ctx.distinct(("names", s))
        ctx.count("subcommand_names_checked", sum(len(v) for k, v in tree.items() if isinstance(k, tuple)))
        if miss:
            ctx.violation("oracle-failure", "the %s script does not name every subcommand of the current interface: %s"
                          % (s, "; ".join("`%s` (%s)" % m for m in miss[:6])),
                          {"argv": ["imdl", "completions", "--shell", s], "missing": miss,
                           "reproduce": "imdl completions --shell %s | grep -n -w -- %s" % (s, miss[0][0].split()[-1])})
        t = printed[s]
        if not (t.endswith(b"\n") and t[:-1] == t[:-1].strip(WS) and t.decode("utf-8", "replace").strip() + "\n" == t.decode("utf-8", "replace")):
            ctx.cov["disagreements_checked"] += 1
            ctx.violation("model-impl-disagreement", "the %s script is not `trimmed body + one line feed` as Cpl.script says "
                          "(or clap's output has non-ASCII white space at an end: assumption of the model)" % s,
                          {"argv": ["imdl", "completions", "--shell", s], "head": t[:40], "tail": t[-40:],
                           "reproduce": "imdl completions --shell %s | xxd | (head -2; tail -2)" % s})
    if len({printed[s] for s in SHELLS if printed[s] is not None}) != len([s for s in SHELLS if printed[s] is not None]):
        ctx.violation("oracle-failure", "two of the five shells print the same script", {"sizes": {s: len(printed[s] or b"") for s in SHELLS},
                      "reproduce": "for s in zsh bash fish powershell elvish; do imdl completions --shell $s | sha1sum; done"})
    ctx.sample({"printed script sizes": {s: len(printed[s] or b"") for s in SHELLS}})

    # ---- the cases
    file_size_limit_probe(ctx, root, printed)
    invoked_name_probe(ctx, root, printed)
    cases = gen_cases(ctx, printed)
    results = lib.pmap(lambda c: execute(ctx, root, c), cases)
    midx = [i for i, c in enumerate(cases) if c["kind"] != "fault"]
    mrep = ctx.model([model_line(cases[i], results[i]) for i in midx])
    replies = [None] * len(cases)
    for i, rep in zip(midx, mrep):
        replies[i] = rep
    shrunk = 0
    for case, res, reply in zip(cases, results, replies):
        ctx.cov["evaluations"] += 1
        ctx.cov["traces_validated_against_impl"] += 1
        shape = ("flag" if case["flag"] is not None else "") + ("+" if case["flag"] is not None and case["pos"] is not None else "") + \
                ("pos" if case["pos"] is not None else "") or "neither"
        ctx.count("%s:%s/%s" % (case["kind"], shape, case["dirmode"]))
        ctx.distinct((case["kind"], case["flag"], case["pos"], case["dirmode"], case["dirform"], case["fs"], case["ds"], tuple(case["order"])))
        bad = oracle(case, res, printed)
        if bad and case["plan"] and shrunk < 3 and case["kind"] != "fault":
            shrunk += 1
            case, res, bad = shrink(ctx, root, case, res, bad, printed)
        if bad:
            ctx.violation("oracle-failure", "`%s`: %s" % (" ".join(["imdl"] + res["argv"]), "; ".join(bad[:4])), describe(case, res, {"oracle": bad}))
            continue
        if case["kind"] == "fault":
            ctx.count("fault:" + impl_status(res["rc"], res["stderr"]))
            continue
        mc = model_concrete(reply, printed)
        ist = impl_status(res["rc"], res["stderr"])
        ctx.count("status:" + ist)
        diffs = []
        if mc is None:
            diffs.append("model reply %r" % reply[:200])
        else:
            if mc["status"] != ist:
                diffs.append("exit-status class: model %s, implementation %s" % (mc["model_status"], ist))
            if mc["stdout"] != res["stdout"]:
                diffs.append("stdout: model %d bytes, implementation %d bytes" % (len(mc["stdout"] or b""), len(res["stdout"])))
            if case["dirmode"] in ("empty", "populated", "missing"):
                il = listing(res["after"], res["drel"])
                if mc["dir"] != il:
                    diffs.append("directory afterwards: model %s, implementation %s" % (
                        None if mc["dir"] is None else sorted(mc["dir"]), None if il is None else sorted(il)))
            # outside the target directory (and below it) the model says nothing changes
            drel = res["drel"]
            stray = sorted(k for k in snap_diff(res["before"], res["after"]) if drel is None or os.path.dirname(k) != drel)
            if stray:
                diffs.append("changes outside the files of the target directory: %s" % stray)
        if diffs:
            ctx.cov["disagreements_checked"] += 1
            ctx.violation("model-impl-disagreement", "`%s`: Cpl.run and the binary differ (%s); the property's own conditions hold on this case"
                          % (" ".join(["imdl"] + res["argv"]), "; ".join(diffs)), describe(case, res, {"model": reply[:400], "diffs": diffs}))
    k = next((i for i, c in enumerate(cases) if c["dirmode"] == "populated" and c["flag"] == "fish" and c["pos"] is None), 0)
    ctx.sample({"argv": ["imdl"] + results[k]["argv"], "rc": results[k]["rc"],
                "changed": {p: [short(a), short(b)] for p, (a, b) in snap_diff(results[k]["before"], results[k]["after"]).items()}})
    k = next((i for i, c in enumerate(cases) if c["kind"] == "malformed"), 0)
    ctx.sample({"argv": ["imdl"] + results[k]["argv"], "rc": results[k]["rc"], "model": replies[k][:80]})
    return finish(ctx)


def invoked_name_probe(ctx, root, printed):
    """The binary started under another name (a symbolic link `intermodal`, a renamed copy): what `--shell S` prints and what
    `--dir D` writes under that same invocation are still the same bytes (added after seeded change C19-18: the printed script
    was generated for argv[0], the written one for the fixed name)."""
    import subprocess
    d = tempfile.mkdtemp(dir=root)
    env = dict(lib.noise_env(), PATH=os.environ.get("PATH", ""), RUST_BACKTRACE="0", **ENV0)
    for alias in ("intermodal", "imdl-0.1", "i"):
        link = os.path.join(d, alias)
        os.symlink(ctx.bins["imdl"], link)
        for s in SHELLS:
            out_dir = os.path.join(d, "out-%s-%s" % (alias, s))
            os.makedirs(out_dir)
            p1 = subprocess.run([link, "completions", "--shell", s], cwd=d, env=env, stdin=subprocess.DEVNULL, stdout=subprocess.PIPE, stderr=subprocess.PIPE, timeout=60)
            p2 = subprocess.run([link, "completions", "--shell", s, "--dir", out_dir], cwd=d, env=env, stdin=subprocess.DEVNULL, stdout=subprocess.PIPE, stderr=subprocess.PIPE, timeout=60)
            ctx.cov["evaluations"] += 1
            ctx.count("invoked_under_another_name")
            ctx.distinct(("alias", alias, s))
            files = {fn: open(os.path.join(out_dir, fn), "rb").read() for fn in os.listdir(out_dir)}
            if p1.returncode != 0 or p2.returncode != 0 or files != {DOCNAME[s]: p1.stdout} or not p1.stdout.strip():
                ctx.violation("oracle-failure", "started as `%s`: `completions --shell %s` printed %d bytes (rc %d), `--dir D` wrote %s (rc %d): "
                              "not the same text under the documented name" % (alias, s, len(p1.stdout), p1.returncode, {k: len(v) for k, v in files.items()}, p2.returncode),
                              {"alias": alias, "shell": s, "reproduce": "ln -s $(command -v imdl) %s; ./%s completions --shell %s > a; mkdir D; ./%s completions --shell %s --dir D; cmp a D/%s"
                                                                      % (alias, alias, s, alias, s, DOCNAME[s])})
    shutil.rmtree(d, ignore_errors=True)


def file_size_limit_probe(ctx, root, printed):
    """A write fault at every distance from the end of the file, the last byte included: RLIMIT_FSIZE = size of the script minus
    1, 2, 9, half, 0 (SIGXFSZ ignored, so the write fails with EFBIG), and exactly the size (no fault). Whenever imdl exits 0 the
    file is byte-identical to the printed script; a fault is a reported failure. (Added after seeded change C19-13: the final line
    feed went through a BufWriter that was never flushed - dropped with its error - so a fault on the last byte was silent.)"""
    import resource, signal, subprocess
    env = dict(lib.noise_env(), PATH=os.environ.get("PATH", ""), RUST_BACKTRACE="0", **ENV0)
    jobs = []
    for s in SHELLS:
        if printed.get(s) is None:
            continue
        n = len(printed[s])
        for lim in (n - 1, n - 2, n - 9, n // 2, 0, n):
            for form in (["--dir", "out", "--shell", s], ["--dir", "out", s]) if lim in (n - 1, n) else (["--dir", "out", "--shell", s],):
                jobs.append((s, lim, form))
    smallest = min((len(v) for v in printed.values() if v), default=0)
    if smallest:
        jobs.append((None, smallest - 1, ["--dir", "out"]))          # all five: at least the larger scripts hit the limit

    def one(job):
        s, lim, form = job
        d = tempfile.mkdtemp(dir=root)
        os.makedirs(os.path.join(d, "out"))

        def pre():
            signal.signal(signal.SIGXFSZ, signal.SIG_IGN)
            resource.setrlimit(resource.RLIMIT_FSIZE, (lim, lim))
        p = subprocess.run([ctx.bins["imdl"], "completions"] + form, cwd=d, env=env, stdin=subprocess.DEVNULL, stdout=subprocess.PIPE,
                           stderr=subprocess.PIPE, timeout=60, preexec_fn=pre)
        files = {}
        for fn in sorted(os.listdir(os.path.join(d, "out"))):
            with open(os.path.join(d, "out", fn), "rb") as f:
                files[fn] = f.read()
        shutil.rmtree(d, ignore_errors=True)
        return job, p.returncode, p.stderr, files
    for (s, lim, form), rc, err, files in lib.pmap(one, jobs):
        ctx.cov["evaluations"] += 1
        ctx.count("file_size_limit_runs")
        ctx.distinct(("fsize", s, lim - len(printed[s]) if s else "all", tuple(form)))
        want = {DOCNAME[s]: printed[s]} if s else {DOCNAME[x]: printed[x] for x in SHELLS if printed.get(x)}
        bad = []
        fits = all(len(v) <= lim for v in want.values())
        if rc == 0 and files != want:
            bad.append("exit status 0 but the files are not the printed scripts: %s" % {k: len(v) for k, v in files.items()})
        if fits and rc != 0:
            bad.append("exit status %d although every script fits the limit" % rc)
        if not fits and rc == 0:
            bad.append("exit status 0 although a script does not fit the file size limit")
        if rc not in (0, 1):
            bad.append("exit status %d" % rc)
        if bad:
            ctx.violation("oracle-failure", "`imdl completions %s` with the file size limited to %d bytes (%s script: %s bytes): %s"
                          % (" ".join(form), lim, s or "smallest", len(printed[s]) if s else "-", "; ".join(bad)),
                          {"argv": ["imdl", "completions"] + form, "rc": rc, "stderr": err[-300:].decode("utf-8", "replace"),
                           "files": {k: len(v) for k, v in files.items()},
                           "reproduce": "mkdir out; python3 -c 'import resource,signal,os,sys; signal.signal(signal.SIGXFSZ,signal.SIG_IGN); "
                                        "resource.setrlimit(resource.RLIMIT_FSIZE,(%d,%d)); os.execvp(\"imdl\",[\"imdl\",\"completions\"]+sys.argv[1:])' %s; echo $?"
                                        % (lim, lim, " ".join(form))})


def finish(ctx):
    ctx.assumptions += [
        "clap's generator names every subcommand of the interface it is given (hypothesis of c19_scripts_name_every_subcommand; "
        "checked here on all five printed scripts against the tree read from --help)",
        "clap's output is UTF-8 and has no non-ASCII white space at its ends (str::trim is modelled on ASCII white space); "
        "checked on the five printed scripts",
        "the target directory holds regular files only as far as the model is concerned (sub-directories and everything outside "
        "it are covered by the snapshots, not by the model); D is an existing directory or absent, never a file",
    ]
    return ctx.finish(
        rule="complete matrix {no --shell, 5 shells} x {no positional, 5 shells} x {no --dir, empty dir (relative), populated dir "
             "(absolute; bystanders, stale documented names, one stale file longer than any script), missing dir, --dir ''} = 180 "
             "process runs; plus seeded spelling variants (--shell/-s/=/glued, --dir/-d/=/glued, 7 directory path forms, all argument "
             "orders, TERM/NO_COLOR) and a malformed stream of shell values (wrong case, truncations, unknown shells, white space, "
             "empty); every run with a snapshot of the whole scratch tree before and after. A case is distinct by (kind, flag, "
             "positional, dir mode, dir form, spellings, order). Subcommand names: tree read recursively from --help, every name "
             "checked in all five scripts as a word and as an offered completion candidate under its parent.",
        trusted_base=["Coq 8.16.1 kernel (coqc)", "tools/rs2v_shell.py (GenShell)", "extraction with ExtrOcamlBasic + runner/driver.d/completions.ml",
                      "Python oracle, snapshot and --help parser in tools/props/c19.py",
                      "the candidate-offer patterns of clap 2.34's five generators (tools/props/c19.py: offered)"],
        exhaustive=True)


def replay(ctx, path):
    rec = json.load(open(path))
    c = rec["case"]
    print("summary:", rec.get("summary"))
    if "case" not in c:
        print(json.dumps(c, indent=1)[:4000])
        return 0
    ctx.need_rust(); ctx.need_runner()
    case = dict(c["case"])
    case["plan"] = {k: (None if v.get("directory") else bytes.fromhex(v["hex"]) * v.get("times", 1))
                    for k, v in (c.get("plan") or {}).items()} or None
    root = tempfile.mkdtemp(prefix="c19-replay-")
    try:
        printed = {}
        for s in SHELLS:
            rc, out, err = ctx.imdl(["completions", "--shell", s], cwd=root, env=ENV0)
            printed[s] = out if rc == 0 else None
        res = execute(ctx, root, case)
        reply = ctx.model([model_line(case, res)])[0]
        print("argv  :", ["imdl"] + res["argv"])
        print("impl  : rc=%d status=%s stdout=%d bytes; changed=%s" % (res["rc"], impl_status(res["rc"], res["stderr"]), len(res["stdout"]),
              {k: [short(a), short(b)] for k, (a, b) in snap_diff(res["before"], res["after"]).items()}))
        print("model :", reply[:300])
        print("oracle:", oracle(case, res, printed) or "no objection")
        print("reproduce:", reproduce(case))
    finally:
        shutil.rmtree(root, ignore_errors=True)
    return 0
