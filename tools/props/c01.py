"""C01 — Created torrent: piece hashes, lengths and MD5s match the content bytes.

Obligations: coq/Properties/C01.v (hasher = map H (chunks p (concat files)) with exact lengths and MD5s for
every piece length > 0, content and read schedule; block shape; schedule independence; stdin = single file;
fuel suffices / no underflow; read errors propagate; piece length 0 is degenerate).
Correspondence: (a) in-process - the real `Hasher` driven through scripted readers that return exactly
the read sizes we choose (short reads, reads ending before/at the piece boundary, failing reads), over file
lists (`hash_scripted_files`) and through `Hasher::hash_stdin` (`hash_scripted`), against the extracted model
on the same data and schedule; (b) end to end - the real binary `imdl torrent create` on generated trees,
single files and standard input fed in irregular bursts, decoded by the independent bencode reader.
Oracle (independent of the model): concatenate in listed order, cut at p, hashlib.sha1 / hashlib.md5."""
import hashlib, itertools, json, os, random, shutil, subprocess, tempfile, time
import lib

MANIFEST = dict(
    text="Machine-checked refinement proof: the model of src/hasher.rs (read loop with windows capped at the remainder of the "
         "open piece, flush on full piece, finish, one running state across files, per-file length and MD5, stdin path) equals "
         "map SHA1 (chunks p (concat files)) with exact per-file lengths and MD5s for every piece length > 0, every file list and "
         "every schedule of legal read sizes (induction with a loop invariant; no bounds), plus block shape, schedule "
         "independence, stdin = single file, fuel suffices, no underflow, read errors propagate. Tied to the code by a "
         "correspondence run: scripted short reads through the real Hasher in-process, and the real binary on generated trees, "
         "files and bursty stdin. Right level: the property quantifies over all alignments x all short-read schedules, which "
         "sampling cannot settle and no existing test exercises.",
    ref="DESIGN.md section 5, C01",
    technique="Coq proof over a Gallina model + model/implementation correspondence run + independent hashlib oracle",
    note="SHA-1 and MD5 are uninterpreted functions of the bytes fed to a context since creation/reset (assumed: streaming "
         "update/consume then digest equals the one-shot hash of the concatenation - validated on every case against hashlib). "
         "Real read(2)/BufReader behaviour and File::open failures are exhibited only by the end-to-end runs. "
         "Trusted: Coq kernel, extraction (ExtrOcamlBasic), hooks hash_scripted / hash_scripted_files + harness, Python oracle.")

ALLOW = ["--allow", "small-piece-length", "--allow", "uneven-piece-length"]
SMALL_P = [1, 2, 3, 4, 5, 7, 8, 16, 31, 32, 64]
STYLES = ["one", "full", "random", "to_boundary", "short_of_boundary", "oversize", "whole"]


# ---------------------------------------------------------------- the direct oracle (never the model)

def oracle(files, p, md5):
    """The property in its own words. files: the content of each listed file, in listed order."""
    data = b"".join(files)
    blocks = [data[i:i + p] for i in range(0, len(data), p)]
    assert b"".join(blocks) == data and len(blocks) == (len(data) + p - 1) // p
    assert all(len(b) == p for b in blocks[:-1]) and (not blocks or 0 < len(blocks[-1]) <= p)
    assert (not blocks) == (len(data) == 0) and (not blocks or (len(blocks[-1]) < p) == (len(data) % p != 0))
    pieces = b"".join(hashlib.sha1(b).digest() for b in blocks)
    return ("ok", pieces, [(len(f), hashlib.md5(f).hexdigest() if md5 else None) for f in files])


# ---------------------------------------------------------------- in-process cases

def file_bytes(steps):
    return b"".join(s for s in steps if s is not None)


def simulate(p, files):
    """Read sizes a scripted reader returns to a loop that offers the remainder of the open piece
    (used only to hand the model the same schedule as the implementation; entry 0 = failing read,
    k = a read of k bytes, and one more entry for the read that reports end of data)."""
    sched, openb = [], 0
    for steps in files:
        q = [None if s is None else len(s) for s in steps if s is None or len(s) > 0]
        i = 0
        while True:
            if i >= len(q):
                sched.append(1); break
            if q[i] is None:
                sched.append(0); return sched, True
            w = p - openb
            if w <= 0:
                sched.append(1); break
            k = min(q[i], w)
            sched.append(k)
            q[i] -= k
            if q[i] == 0:
                i += 1
            openb = (openb + k) % p
    return sched, False


def cut(r, data, p, openb, style):
    """Split one file's bytes into scripted chunks according to a schedule style."""
    out, i, n = [], 0, len(data)
    first = True
    while i < n:
        w = p - openb if p > 0 else 1
        if style == "one":
            k = 1
        elif style == "full":
            k = w
        elif style == "random":
            k = r.randint(1, w)
        elif style == "to_boundary":
            k = w if first or r.random() < 0.5 else r.randint(1, w)
        elif style == "short_of_boundary":
            k = max(1, w - 1)
        elif style == "oversize":
            k = r.randint(1, 3 * max(p, 1))
        else:  # whole
            k = n
        k = max(1, min(k, n - i))
        out.append(data[i:i + k])
        i += k
        if p > 0:
            openb = (openb + k) % p
        first = False
    return out


def around(r, p, kmax=3):
    k = r.randint(0, kmax)
    return max(0, k * p + r.choice([-1, 0, 0, 1, 0, r.randint(-p, p)]))


def gen_hook_case(r, malformed=False):
    p = r.choice(SMALL_P) if r.random() < 0.85 else r.randint(65, 300)
    nfiles = r.choice([1, 1, 2, 2, 3, 3, 4, 5, 6, 0])
    kmax = 3
    if r.random() < 0.04:           # many pieces (hundreds to thousands of digests in one pieces string)
        p, kmax = r.choice([1, 2, 3, 5, 8]), r.choice([60, 300])
    sizes = [0 if r.random() < 0.12 else around(r, p, kmax) for _ in range(nfiles)]
    md5 = r.random() < 0.5
    via = "stdin" if nfiles == 1 and r.random() < 0.5 else "files"
    style = r.choice(STYLES)
    files, openb = [], 0
    for sz in sizes:
        data = r.randbytes(sz)
        st = style if r.random() < 0.8 else r.choice(STYLES)
        files.append(cut(r, data, p, openb, st))
        openb = (openb + sz) % p
    case = {"kind": "hook", "via": via, "md5": md5, "p": p, "style": style, "files": files}
    if malformed:
        which = r.random()
        if which < 0.75 and nfiles > 0:
            # a failing read somewhere (start, middle, or in place of the end-of-data read)
            f = r.randrange(nfiles)
            files[f].insert(r.randint(0, len(files[f])), None)
            case["via"] = "files"
            case["style"] = "failing-read"
        else:
            case["p"] = 0           # create rejects this earlier; here: model and hasher must agree on the degenerate result
            case["style"] = "zero-piece-length"
    return case


def hook_lines(case):
    m, p = int(case["md5"]), case["p"]
    files = case["files"]
    sched, _ = simulate(p, files)
    s = ",".join(map(str, sched)) if sched else "~"
    if case["via"] == "stdin":
        chunks = [c for c in files[0] if c]
        h = "hash %d %d%s" % (m, p, "".join(" " + c.hex() for c in chunks))
        mo = "hashstdin %d %d %s %s" % (m, p, s, lib.hexs(file_bytes(files[0])))
    else:
        def enc(steps):
            steps = [x for x in steps if x is None or x]
            return ",".join("!" if x is None else x.hex() for x in steps) if steps else "~"
        h = "hashfiles %d %d%s" % (m, p, "".join(" " + enc(f) for f in files))
        mo = "hashfiles %d %d %s %s" % (m, p, s, ",".join(lib.hexs(file_bytes(f)) for f in files) if files else "~")
    return h, mo


def parse_impl(case, reply):
    if reply.startswith("ERR"):
        return ("err",)
    if not reply.startswith("OK "):
        return ("bad", reply[:200])
    f = reply.split(" ")
    try:
        pieces, end = lib.bdecode_strict(lib.unhex(f[1]))
        if not isinstance(pieces, bytes):
            return ("bad", reply[:200])
        if case["via"] == "stdin":
            return ("ok", pieces, [(int(f[2]), None if f[3] == "~" else f[3])])
        infos = [] if f[2] == "~" else [(int(x.split(":")[0]), None if x.split(":")[1] == "x" else x.split(":")[1])
                                        for x in f[2].split(",")]
        return ("ok", pieces, infos)
    except Exception as e:
        return ("bad", "%r in %s" % (e, reply[:200]))


def parse_model(case, reply):
    if reply == "IOERR":
        return ("err",)
    if not reply.startswith("OK "):
        return ("bad", reply[:200])
    f = reply.split(" ")
    blocks = [] if f[2] == "~" else [lib.unhex(b) for b in f[2].split(",")]
    pieces = b"".join(hashlib.sha1(b).digest() for b in blocks)
    infos = []
    for n, x in enumerate([] if f[3] == "~" else f[3].split(",")):
        idx, ln, m = x.split(":")
        if int(idx) != n:
            return ("bad", "model lists files out of order: " + reply[:200])
        infos.append((int(ln), None if m == "x" else hashlib.md5(lib.unhex(m)).hexdigest()))
    want_mode = "S" if case["via"] == "stdin" else "M"
    if f[1] != want_mode:
        return ("bad", "model mode " + f[1])
    return ("ok", pieces, infos)


def show(res):
    if res is None:
        return None
    if res[0] != "ok":
        return list(res)
    return {"pieces_sha1_hex": res[1].hex(), "files_len_md5": res[2]}


def describe_hook(case):
    return {"kind": "hook", "via": case["via"], "md5": case["md5"], "piece_length": case["p"],
            "files_as_scripted_reads_hex": [["!" if s is None else s.hex() for s in f] for f in case["files"]]}


def brief_hook(case):
    return {"kind": "hook", "via": case["via"], "md5": case["md5"], "piece_length": case["p"], "style": case["style"],
            "file_sizes": [len(file_bytes(f)) for f in case["files"]],
            "scripted_read_sizes": [["fail" if s is None else len(s) for s in f] for f in case["files"]]}


def expected_hook(case):
    """what the property demands of this in-process case; None where it does not speak (p = 0)"""
    if case["p"] == 0:
        return None
    return oracle([file_bytes(f) for f in case["files"]], case["p"], case["md5"])


def judge_hook(case, impl):
    """-> None | ('oracle-failure', text) ; model comparison is done by the caller"""
    exp = expected_hook(case)
    if exp is None:
        return None
    has_fail = any(s is None for f in case["files"] for s in f)
    if impl[0] == "ok":
        if impl != exp:
            what = []
            if impl[1] != exp[1]:
                what.append("pieces differ from SHA-1 of the %d-byte blocks of the content (%d digests, expected %d)"
                            % (case["p"], len(impl[1]) // 20, len(exp[1]) // 20))
            if [x[0] for x in impl[2]] != [x[0] for x in exp[2]]:
                what.append("lengths %r, content has %r" % ([x[0] for x in impl[2]], [x[0] for x in exp[2]]))
            if [x[1] for x in impl[2]] != [x[1] for x in exp[2]]:
                what.append("md5 sums differ")
            return "hasher result contradicts the content: " + "; ".join(what)
        return None
    if impl[0] == "err":
        if not has_fail:
            return "hasher failed although no read failed"
        return None
    return "hasher did not return normally: %r" % (impl,)


def shrink_hook(ctx, case, budget=150):
    """greedy delta debugging on the file list / bytes / read schedule; keeps 'the oracle still objects'"""
    def bad(c):
        h, _ = hook_lines(c)
        return judge_hook(c, parse_impl(c, ctx.harness([h], nproc=1)[0])) is not None
    cur = case
    changed = True
    while changed and budget > 0:
        changed = False
        cands = []
        fs = cur["files"]
        for i in range(len(fs)):
            cands.append(dict(cur, files=fs[:i] + fs[i + 1:]))
        for i in range(len(fs)):
            data = file_bytes(fs[i])
            if any(s is None for s in fs[i]):
                continue
            if len(fs[i]) > 1:
                cands.append(dict(cur, files=fs[:i] + [[data]] + fs[i + 1:]))
            if len(data) > 1:
                cands.append(dict(cur, files=fs[:i] + [[data[:len(data) // 2]]] + fs[i + 1:]))
            if len(data) > 0:
                cands.append(dict(cur, files=fs[:i] + [[data[:-1]]] + fs[i + 1:]))
                cands.append(dict(cur, files=fs[:i] + [[bytes(len(data))]] + fs[i + 1:]) if any(data) and len(fs[i]) == 1 else None)
        if cur["md5"]:
            cands.append(dict(cur, md5=False))
        for c in cands:
            if c is None or budget <= 0:
                continue
            if c["via"] == "stdin" and len(c["files"]) != 1:
                c = dict(c, via="files")
            budget -= 1
            try:
                if bad(c):
                    cur, changed = c, True
                    break
            except Exception:
                pass
    return cur


def run_hook_cases(ctx, cases, label):
    lines = [hook_lines(c) for c in cases]
    impl = ctx.harness([h for h, _ in lines])
    model = ctx.model([m for _, m in lines])
    reported = 0
    for case, (h, mo), ri, rm in zip(cases, lines, impl, model):
        ctx.cov["evaluations"] += 1
        ctx.cov["traces_validated_against_impl"] += 1
        i, m = parse_impl(case, ri), parse_model(case, rm)
        sizes = tuple(len(file_bytes(f)) for f in case["files"])
        sched, failing = simulate(case["p"], case["files"])
        if sum(sizes) > 0:
            ctx.distinct((label, case["p"], sizes, case["md5"], hashlib.sha1(repr(sched).encode()).hexdigest()[:12]))
        if label != "sweep":
            if case["p"] > 0:
                npieces = (sum(sizes) + case["p"] - 1) // case["p"]
                ctx.count("hook_pieces_%s" % ("0" if npieces == 0 else "1" if npieces == 1 else "2-9" if npieces < 10 else
                                             "10-99" if npieces < 100 else "100+"))
            ctx.count("hook_style_" + case["style"])
            ctx.count("hook_files_%d" % len(sizes))
            ctx.count("hook_via_" + case["via"])
            if case["p"] > 0 and sum(sizes) > 0:
                ctx.count("content_ends_%s_piece_boundary" % ("at" if sum(sizes) % case["p"] == 0 else "inside"))
                if any(sum(sizes[:j + 1]) % case["p"] for j in range(len(sizes) - 1)):
                    ctx.count("hook_file_end_inside_piece")
            if failing:
                ctx.count("hook_failing_read")
        verdict = judge_hook(case, i)
        full = dict(describe_hook(case), harness_line=h, model_line=mo, impl=show(i), model=show(m),
                    oracle=show(expected_hook(case)),
                    reproduce="printf '%s\\n' | $VERIF_CACHE/target/debug/imdl-verif-harness" % h[:4000])
        if verdict:
            if reported < 3:
                small = shrink_hook(ctx, case)
                hs, ms = hook_lines(small)
                si = parse_impl(small, ctx.harness([hs], nproc=1)[0])
                sm = parse_model(small, ctx.model([ms], nproc=1)[0])
                full = dict(describe_hook(small), harness_line=hs, model_line=ms, impl=show(si), model=show(sm),
                            oracle=show(expected_hook(small)), unshrunk=describe_hook(case) if small is not case else None,
                            reproduce="printf '%s\\n' | $VERIF_CACHE/target/debug/imdl-verif-harness" % hs[:4000])
                verdict = judge_hook(small, si) or verdict
            reported += 1
            ctx.violation("oracle-failure", "in-process Hasher, piece length %d, file sizes %r: %s"
                          % (full["piece_length"], [len(bytes.fromhex("".join(x for x in f if x != "!"))) for f in
                                                    full["files_as_scripted_reads_hex"]], verdict), full)
        elif i != m:
            ctx.cov["disagreements_checked"] += 1
            ctx.violation("model-impl-disagreement",
                          "Model/Hasher.v and src/hasher.rs differ on piece length %d, file sizes %r (impl %s, model %s); "
                          "the oracle finds the implementation's output consistent with the content"
                          % (case["p"], list(sizes), i[0], m[0]), full)
    return impl, model


def sweep_cases(maxsize, ps, patlen):
    """small-scope exhaustive: all size vectors in {0..maxsize}^3 x piece lengths x all read patterns over {1,2,full}^patlen"""
    cases = []
    for p in ps:
        for sizes in itertools.product(range(maxsize + 1), repeat=3):
            for pat in itertools.product((1, 2, 0), repeat=patlen):
                files, openb, n, ctr = [], 0, 0, 0
                for sz in sizes:
                    data = bytes((n + j) % 251 + 1 for j in range(sz))
                    n += sz
                    steps, i = [], 0
                    while i < sz:
                        w = p - openb
                        c = pat[ctr % patlen]; ctr += 1
                        k = min(w if c == 0 else c, w, sz - i)
                        steps.append(data[i:i + k]); i += k
                        openb = (openb + k) % p
                    files.append(steps)
                cases.append({"kind": "hook", "via": "files", "md5": (sum(sizes) + p) % 2 == 0, "p": p, "style": "sweep",
                              "files": files})
    return cases


# ---------------------------------------------------------------- end-to-end cases on the real binary

# "mu\u0308" / "m\u00fc": the same text decomposed and composed - two different files here (names are bytes, never normalised;
# added after seeded change C01-12, listed names put into NFC)
NAMES = ["a", "b.txt", "data.bin", "x y", "Zed", "m\u00fc", "mu\u0308", "0", "readme.md", "long-name-with-dashes", "q"]
DIRS = ["", "", "sub", "sub/deep", "other", "sub/deep/er"]


def content(cseed, size):
    """file content from its seed: mostly random bytes; one seed in four gives content whose pieces repeat (all zero bytes,
    line feeds only, a short text period), so that the piece string has long runs of equal digests and long stretches
    without (or full of) particular byte values - layouts random content reaches with probability ~2 % (seeded change C01-8)"""
    k = cseed % 16
    if k == 0:
        return bytes(size)
    if k == 1:
        return b"\n" * size
    if k == 2:
        return (b"0123456\n" * (size // 8 + 1))[:size]
    if k == 3:
        return (b"\xff" * size)
    return random.Random(cseed).randbytes(size)


CONTENT_PY = ("import random;k=%d%%16;n=%d;"
              "b=bytes(n) if k==0 else b'\\n'*n if k==1 else (b'0123456\\n'*(n//8+1))[:n] if k==2 else b'\\xff'*n if k==3 else random.Random(%d).randbytes(n)")


def gen_e2e_case(r, n):
    shape = r.choice(["dir", "dir", "dir", "file", "stdin"])
    cls = r.random()
    if cls < 0.55:
        p = r.choice(SMALL_P)
        kmax = 4
    elif cls < 0.8:
        p = r.choice([3000, 5000, 8191, 8192, 8193, 12000, 1000, 4096, 100])   # interacts with BufReader's 8 KiB buffer
        kmax = 3
    else:
        p = r.choice([16384, 32768])
        kmax = 2
    if r.random() < 0.06:           # many pieces
        p, kmax = r.choice([1, 2, 3, 5, 8]), r.choice([60, 400])
    md5 = r.random() < 0.5
    if shape == "dir":
        nfiles = r.choice([0, 1, 2, 3, 3, 4, 5, 6])
        paths = set()
        while len(paths) < nfiles:
            d = r.choice(DIRS)
            paths.add((d + "/" if d else "") + r.choice(NAMES) + ("" if r.random() < 0.7 else str(r.randint(0, 9))))
        # a path must not be both a file and a directory prefix
        paths = [q for q in sorted(paths) if not any(o.startswith(q + "/") for o in paths)]
        files = [(q, 0 if r.random() < 0.12 else around(r, p, kmax), r.getrandbits(32)) for q in paths]
    else:
        files = [(r.choice(NAMES), 0 if r.random() < 0.08 else around(r, p, kmax + 1), r.getrandbits(32))]
    case = {"kind": "e2e", "id": n, "shape": shape, "p": p, "md5": md5, "files": files,
            "out": r.choice(["-", "-", "out.torrent"]),
            # platform and leftovers: one CPU only (C01-15); with --force something longer already lies at the output path (C01-13)
            "one_cpu": r.random() < 0.2, "force_over": r.random() < 0.5,
            "globals": r.choice([[], [], [], ["--terminal"], ["-t"], ["--terminal", "--color", "always"], ["--quiet"]])}
    if shape == "stdin":
        size = files[0][1]
        bursts, left = [], size
        while left > 0:
            k = min(left, r.choice([1, 2, 3, p, max(1, p - 1), p + 1, r.randint(1, max(1, 2 * p)), 8192, 8193, 4096]))
            bursts.append(k); left -= k
            if len(bursts) > 24:
                bursts.append(left); break
        case["bursts"] = [b for b in bursts if b > 0]
    return case


def imdl_env():
    e = {"PATH": os.environ.get("PATH", ""), "RUST_BACKTRACE": "0"}
    e.update(lib.noise_env())
    return e


def create_args(case, inp, name=None):
    # global options that switch the progress bar on (--terminal) must not change what is hashed (seeded change C01-9:
    # the MD5 context fed only when no progress bar exists)
    a = list(case.get("globals") or []) + ["torrent", "create", "--input", inp, "--output", case["out"], "--piece-length", str(case["p"])] + ALLOW
    if case["md5"]:
        a.append("--md5")
    if name is not None:
        a += ["--name", name]
    if case.get("force_over") and case["out"] != "-":
        a.append("--force")
    return a


def run_create(ctx, case, cwd, inp, name=None, bursts=None, data=None):
    """-> (rc, torrent bytes or None, stderr)"""
    args = create_args(case, inp, name)
    if case.get("force_over") and case["out"] != "-":
        # an earlier, longer torrent of other content is in the way: --force replaces it completely
        with open(os.path.join(cwd, case["out"]), "wb") as f:
            f.write(b"d4:infod6:lengthi1e4:name3:old12:piece lengthi16384e6:pieces20:" + b"o" * 20 + b"ee" + b"#" * 150000)
    if bursts is None:
        rc, out, err = ctx.imdl(args, cwd=cwd, timeout=120, one_cpu=bool(case.get("one_cpu")))
    else:
        p = subprocess.Popen(lib.limited([ctx.bins["imdl"]] + args, one_cpu=bool(case.get("one_cpu"))), cwd=cwd, stdin=subprocess.PIPE, stdout=subprocess.PIPE,
                             stderr=subprocess.PIPE, env=imdl_env())
        import threading
        res = {}

        def drain():
            res["out"] = p.stdout.read(); res["err"] = p.stderr.read()
        t = threading.Thread(target=drain); t.start()
        i = 0
        try:
            for n, b in enumerate(bursts):
                p.stdin.write(data[i:i + b]); p.stdin.flush(); i += b
                time.sleep(0.0015 if n % 3 else 0.004)
            p.stdin.close()
        except BrokenPipeError:
            pass
        try:
            p.wait(timeout=120)
        except subprocess.TimeoutExpired:
            p.kill(); p.wait()
        t.join()
        rc, out, err = p.returncode, res.get("out", b""), res.get("err", b"")
    if case["out"] != "-":
        path = os.path.join(cwd, case["out"])
        out = open(path, "rb").read() if os.path.exists(path) else None
        if out is not None:
            os.remove(path)
    return rc, out, err


def run_size_disagrees(ctx):
    """Inputs whose size according to stat() is not the number of bytes a reader gets (kernel-generated files: /proc/version
    says 0 and yields ~120 bytes; /sys attributes say 4096 and yield a few bytes): the listed length, the MD5 and the pieces
    must all be those of the bytes read. Added after seeded change C01-7 (the listed length taken from the walker's stat())."""
    cands = ["/proc/version", "/proc/filesystems", "/proc/sys/kernel/ostype", "/sys/kernel/mm/transparent_hugepage/enabled",
             "/proc/sys/kernel/osrelease"]
    tmp = tempfile.mkdtemp(prefix="c01s-")
    try:
        for path in cands:
            try:
                a = open(path, "rb").read(); b = open(path, "rb").read()
                st = os.stat(path)
            except OSError:
                continue
            if a != b or not a or st.st_size == len(a):
                continue                      # not stable, empty, or stat() agrees: not the situation to be exercised
            for p in (7, 16384):
                argv = ["torrent", "create", "--input", path, "--output", "-", "--piece-length", str(p), "--md5", "--name", "n"] + ALLOW
                rc, out, err = ctx.imdl(argv, cwd=tmp, timeout=60)
                ctx.cov["evaluations"] += 1
                ctx.count("e2e_stat_size_differs_from_bytes_read")
                ctx.distinct(("statsize", path, p))
                case = {"kind": "stat-size", "argv": ["imdl"] + argv, "stat_size": st.st_size, "bytes_read": len(a), "rc": rc,
                        "stderr": err.decode("utf-8", "replace")[-300:],
                        "reproduce": "imdl %s | strings | head   # length must be %d, not %d" % (" ".join(argv), len(a), st.st_size)}
                if rc != 0:
                    ctx.violation("oracle-failure", "create failed (rc %d) on %s" % (rc, path), case); continue
                try:
                    _, pieces, listed, pl, _ = observe(out)
                except Exception as e:
                    ctx.violation("oracle-failure", "create on %s wrote an unreadable torrent: %r" % (path, e), case); continue
                want_pieces = b"".join(hashlib.sha1(a[i:i + p]).digest() for i in range(0, len(a), p))
                want = [(None, len(a), hashlib.md5(a).hexdigest())]
                if listed != want or pieces != want_pieces:
                    ctx.violation("oracle-failure",
                                  "create on %s (stat size %d, %d bytes when read): listed %r, expected %r; pieces %s"
                                  % (path, st.st_size, len(a), listed, want, "match" if pieces == want_pieces else "differ"), case)
    finally:
        shutil.rmtree(tmp, ignore_errors=True)


def observe(torrent):
    """the observables C01 names, read with the independent strict decoder:
    -> ('ok', pieces, [(path or None, length, md5)], piece_length, info_span)"""
    v, end = lib.bdecode_strict(torrent)
    if end != len(torrent):
        raise lib.BencodeError("trailing bytes after the torrent")
    info = lib.dget(v, "info")
    pieces = lib.dget(info, "pieces")
    pl = lib.dget(info, "piece length")
    files = lib.dget(info, "files")
    if files is None:
        md5 = lib.dget(info, "md5sum")
        listed = [(None, lib.dget(info, "length"), md5.decode() if md5 is not None else None)]
    else:
        listed = []
        for f in files:
            md5 = lib.dget(f, "md5sum")
            listed.append((b"/".join(lib.dget(f, "path")).decode("utf-8", "surrogateescape"), lib.dget(f, "length"),
                           md5.decode() if md5 is not None else None))
    if not isinstance(pieces, bytes):
        raise lib.BencodeError("pieces is not a byte string")
    return ("ok", pieces, listed, pl, lib.info_span(torrent))


def shell_repro(case):
    mk = []
    for q, sz, cs in case["files"]:
        target = q if case["shape"] != "stdin" else "stdin.bin"
        base = "tree/" if case["shape"] == "dir" else ""
        mk.append("python3 -c \"import os,sys;%s;p=sys.argv[1];os.makedirs(os.path.dirname(p) or '.',exist_ok=True);"
                  "open(p,'wb').write(b)\" '%s%s'" % (CONTENT_PY % (cs, sz, cs), base, target))
    if case["shape"] == "dir":
        mk.insert(0, "mkdir -p tree")
        cmd = "imdl " + " ".join(create_args(case, "tree"))
    elif case["shape"] == "file":
        cmd = "imdl " + " ".join("'%s'" % a if " " in a else a for a in create_args(case, case["files"][0][0]))
    else:
        cmd = "imdl " + " ".join("'%s'" % a if " " in a else a for a in create_args(case, "-", case["files"][0][0])) + \
              " < stdin.bin   # the run feeds it in bursts of %r bytes" % (case.get("bursts"),)
    return "; ".join(mk + [cmd])


def run_e2e_case(ctx, case, tmp):
    """-> dict(problems=[...], listed_bytes=[...], obs=..., extra=...)"""
    d = tempfile.mkdtemp(dir=tmp)
    res = {"problems": [], "case": case}
    try:
        blobs = {q: content(cs, sz) for q, sz, cs in case["files"]}
        p, md5 = case["p"], case["md5"]
        if case["shape"] == "dir":
            root = os.path.join(d, "tree")
            os.makedirs(root)
            for q, b in blobs.items():
                os.makedirs(os.path.dirname(os.path.join(root, q)) or root, exist_ok=True)
                with open(os.path.join(root, q), "wb") as f:
                    f.write(b)
            rc, tor, err = run_create(ctx, case, d, "tree")
        elif case["shape"] == "file":
            q = case["files"][0][0]
            with open(os.path.join(d, q), "wb") as f:
                f.write(blobs[q])
            rc, tor, err = run_create(ctx, case, d, q)
        else:
            q = case["files"][0][0]
            rc, tor, err = run_create(ctx, case, d, "-", name=q, bursts=case["bursts"], data=blobs[q])
        res["rc"], res["stderr"] = rc, err.decode("utf-8", "replace")[-400:]
        if rc != 0 or not tor:
            res["problems"].append("create failed on a valid input (rc %r, %d bytes written)" % (rc, len(tor or b"")))
            return res
        try:
            obs = observe(tor)
        except Exception as e:
            res["problems"].append("written torrent is not readable by the strict decoder: %r" % (e,))
            return res
        _, pieces, listed, pl, span = obs
        res["obs"] = {"pieces_sha1_hex": pieces.hex()[:4000], "listed": listed, "piece length": pl}
        if pl != p:
            res["problems"].append("piece length recorded as %r, requested %d" % (pl, p))
        # every listed file must be a file of the input; its bytes, in listed order, are the content
        order = []
        if case["shape"] == "dir":
            for q, ln, m in listed:
                if q not in blobs:
                    res["problems"].append("listed path %r is not a file of the input tree" % (q,))
                    return res
                order.append(q)
            if len(set(order)) != len(order):
                res["problems"].append("a file is listed twice")
            missing = sorted(set(blobs) - set(order))
            if missing:
                res["problems"].append("plain visible files of the input are not listed: %r" % (missing,))
        else:
            if len(listed) != 1 or listed[0][0] is not None:
                res["problems"].append("single-file input did not give a single-file torrent")
                return res
            order = [case["files"][0][0]]
        res["listed_bytes"] = [blobs[q] for q in order]
        exp = oracle(res["listed_bytes"], p, md5)
        res["oracle"] = show(exp)
        if pieces != exp[1]:
            res["problems"].append("info.pieces (%d digests) is not the SHA-1 of the consecutive %d-byte blocks of the listed "
                                   "files' bytes (%d digests expected)" % (len(pieces) // 20, p, len(exp[1]) // 20))
        for (q, ln, m), (eln, em) in zip(listed, exp[2]):
            if ln != eln:
                res["problems"].append("file %r listed with length %r, has %d bytes" % (q, ln, eln))
            if m != em:
                res["problems"].append("file %r md5sum %r, expected %r" % (q, m, em))
        res["impl"] = ("ok", pieces, [(ln, m) for _, ln, m in listed])
        # standard input must give the info dictionary a single file of that name gives
        if case["shape"] == "stdin":
            q = case["files"][0][0]
            with open(os.path.join(d, q), "wb") as f:
                f.write(blobs[q])
            rc2, tor2, err2 = run_create(ctx, dict(case, out="-"), d, q)
            try:
                span2 = lib.info_span(tor2) if rc2 == 0 and tor2 else None
            except Exception:
                span2 = None
            if span2 is None:
                res["problems"].append("the single-file twin of a stdin case failed (rc %r)" % (rc2,))
            elif span2 != span:
                res["problems"].append("info dictionary from standard input differs from the one for a single file with the "
                                       "same name, bytes and piece length")
            res["twin_checked"] = True
        return res
    finally:
        shutil.rmtree(d, ignore_errors=True)


def run_e2e(ctx, n):
    r = ctx.rng
    cases = [gen_e2e_case(r, i) for i in range(n)]
    # hand-written edge cases first (regression corpus of the design's named alignments)
    fixed = [
        {"shape": "dir", "p": 4, "md5": True, "files": [("a", 0, 1), ("b", 5, 2), ("c", 7, 3)], "out": "-"},
        {"shape": "dir", "p": 4, "md5": False, "files": [], "out": "-"},
        {"shape": "file", "p": 1, "md5": True, "files": [("one", 1, 4)], "out": "-"},
        {"shape": "file", "p": 8, "md5": False, "files": [("empty", 0, 5)], "out": "out.torrent"},
        {"shape": "dir", "p": 5000, "md5": True, "files": [("a", 20000, 6), ("sub/b", 8193, 7), ("sub/c", 1, 8)], "out": "-"},
        {"shape": "stdin", "p": 5000, "md5": True, "files": [("s", 20001, 9)], "out": "-", "bursts": [1, 4999, 5000, 5001, 3, 4997]},
        {"shape": "stdin", "p": 7, "md5": False, "files": [("s", 0, 10)], "out": "-", "bursts": []},
        {"shape": "stdin", "p": 16384, "md5": False, "files": [("s", 32768, 11)], "out": "out.torrent", "bursts": [16383, 2, 16383]},
        # piece lengths above anything the automatic picker chooses, with content straddling 16 MiB / the piece end
        # (added after seeded change C01-3: a read buffer capped at 16 MiB went unnoticed below that size)
        {"shape": "file", "p": 32 << 20, "md5": False, "files": [("big", (20 << 20) + 5, 12)], "out": "-"},
        {"shape": "dir", "p": 32 << 20, "md5": True, "files": [("a", (9 << 20) + 1, 13), ("b", 9 << 20, 14), ("c", 1024, 15)], "out": "-"},
        {"shape": "file", "p": 1 << 24, "md5": False, "files": [("edge", (1 << 24) + 1, 16)], "out": "-"},
        {"shape": "stdin", "p": 64 << 20, "md5": False, "files": [("s", (17 << 20) + 3, 17)], "out": "-", "bursts": [1 << 20] * 17 + [3]},
        # piece strings with a line feed early and a long line-feed-free tail (a torrent written to standard output with less
        # than write_all is cut there: seeded change C01-8), with and without the progress bar that --terminal switches on
        {"shape": "dir", "p": 1, "md5": True, "files": [("a", 64, 18), ("b", 300, 16)], "out": "-"},
        {"shape": "dir", "p": 1, "md5": True, "files": [("a", 64, 20), ("b", 300, 19)], "out": "-", "globals": ["--terminal"]},
        {"shape": "file", "p": 16384, "md5": True, "files": [("zeros", 16384 * 120 + 5, 32)], "out": "-", "globals": ["-t"]},
        {"shape": "stdin", "p": 2, "md5": True, "files": [("s", 900, 35)], "out": "-", "bursts": [450, 450], "globals": ["--terminal"]},
        # a piece and a read longer than 1 MiB, not a whole number of MiB, with the progress bar drawn (added after seeded change
        # C01-10: the bar advanced per MiB slice and the last, shorter slice of a read was not hashed)
        {"shape": "file", "p": 4 << 20, "md5": True, "files": [("bar", (3 << 20) + (1 << 19) + 7, 41)], "out": "-",
         "globals": ["--terminal", "--color", "always"]},
        {"shape": "dir", "p": 2 << 20, "md5": False, "files": [("a", (1 << 20) + (1 << 19) + 3, 42), ("b", (2 << 20) + 700001, 43)],
         "out": "out.torrent", "globals": ["-t"]},
        {"shape": "stdin", "p": 3 << 20, "md5": True, "files": [("s", (5 << 20) + 11, 44)], "out": "-", "bursts": [(5 << 20) + 11],
         "globals": ["--terminal", "--color", "always"]},
        # the same name decomposed and composed side by side: two files, two entries, each with its own bytes (C01-12)
        {"shape": "dir", "p": 16, "md5": True, "files": [("e\u0301.txt", 40, 45), ("\u00e9.txt", 53, 46), ("sub/A\u030a", 7, 47),
                                                           ("sub/\u00c5", 9, 48)], "out": "-"},
    ]
    cases = [dict(c, kind="e2e", id=-1 - i) for i, c in enumerate(fixed)] + cases
    tmp = tempfile.mkdtemp(prefix="c01-")
    try:
        results = lib.pmap(lambda c: run_e2e_case(ctx, c, tmp), cases)
    finally:
        shutil.rmtree(tmp, ignore_errors=True)
    # the model on the listed files in listed order, full-window reads
    mlines, midx = [], []
    for k, res in enumerate(results):
        lb = res.get("listed_bytes")
        if lb is None or sum(map(len, lb)) > 150000:
            continue
        case = res["case"]
        steps = [[b] for b in lb]
        sched, _ = simulate(case["p"], steps)
        if len(sched) > 6000:
            continue
        s = ",".join(map(str, sched)) if sched else "~"
        if case["shape"] == "dir":
            mlines.append("hashfiles %d %d %s %s" % (case["md5"], case["p"], s, ",".join(lib.hexs(b) for b in lb) if lb else "~"))
        elif case["shape"] == "file":
            mlines.append("hashsingle %d %d %s %s" % (case["md5"], case["p"], s, lib.hexs(lb[0])))
        else:
            mlines.append("hashstdin %d %d %s %s" % (case["md5"], case["p"], s, lib.hexs(lb[0])))
        midx.append(k)
    mreplies = ctx.model(mlines)
    mres = dict(zip(midx, zip(mlines, mreplies)))
    for k, res in enumerate(results):
        case = res["case"]
        ctx.cov["evaluations"] += 1
        sizes = tuple(sz for _, sz, _ in case["files"])
        ctx.count("e2e_" + case["shape"])
        ctx.count("e2e_piece_length_%s" % ("small" if case["p"] <= 64 else "mid" if case["p"] < 16384 else "16KiB+"))
        ctx.count("e2e_md5" if case["md5"] else "e2e_no_md5")
        if sum(sizes) > 0:
            ctx.distinct(("e2e", case["shape"], case["p"], sizes, case["md5"], tuple(case.get("bursts", ()))))
        full = {"kind": "e2e", "shape": case["shape"], "piece_length": case["p"], "md5": case["md5"], "output": case["out"],
                "files_path_size_contentseed": case["files"], "bursts": case.get("bursts"),
                "rc": res.get("rc"), "stderr": res.get("stderr"), "impl": res.get("obs"), "oracle": res.get("oracle"),
                "reproduce": shell_repro(case)}
        if res["problems"]:
            ctx.violation("oracle-failure", "imdl torrent create (%s, piece length %d, sizes %r%s): %s"
                          % (case["shape"], case["p"], list(sizes), ", --md5" if case["md5"] else "", "; ".join(res["problems"][:4])),
                          full)
            continue
        if k in mres:
            ctx.cov["traces_validated_against_impl"] += 1
            ml, mr = mres[k]
            m = parse_model(dict(via="files" if case["shape"] == "dir" else "stdin"), mr)
            if m != res["impl"]:
                ctx.cov["disagreements_checked"] += 1
                ctx.violation("model-impl-disagreement",
                              "Model/Hasher.v and the written torrent differ (%s, piece length %d, sizes %r); the oracle finds the "
                              "torrent consistent with the content" % (case["shape"], case["p"], list(sizes)),
                              dict(full, model=show(m), model_line=ml[:2000]))
        else:
            ctx.count("e2e_model_skipped_large")
    ctx.sample({"e2e": {"shape": cases[0]["shape"], "piece_length": cases[0]["p"], "files": cases[0]["files"],
                        "impl": results[0].get("obs")}})
    if len(cases) > 12:
        ctx.sample({"e2e": {"shape": cases[12]["shape"], "piece_length": cases[12]["p"], "files": cases[12]["files"],
                            "bursts": cases[12].get("bursts")}})

    # piece length 0 (where the hasher itself is degenerate - c01_zero_piece_length_degenerate) never reaches the hasher
    d = tempfile.mkdtemp(prefix="c01z-")
    try:
        with open(os.path.join(d, "f"), "wb") as f:
            f.write(b"hello")
        rc, out, err = ctx.imdl(["torrent", "create", "--input", "f", "--output", "-", "--piece-length", "0"] + ALLOW, cwd=d)
        ctx.cov["evaluations"] += 1
        ctx.count("e2e_zero_piece_length_rejected")
        if rc == 0 or out:
            ctx.violation("oracle-failure", "create accepted piece length 0 and wrote %d bytes: no blocks can match the content"
                          % len(out), {"kind": "e2e-zero", "rc": rc, "stdout": out[:400],
                                       "reproduce": "printf hello > f; imdl torrent create --input f --output - --piece-length 0"})
    finally:
        shutil.rmtree(d, ignore_errors=True)


def run_beyond_4gib(ctx):
    """thorough only: one sparse file of 2^32 + 12345 bytes, 16 MiB pieces, --md5 (no 32-bit truncation of counters
    anywhere between the read loop and the written length / md5sum / pieces)"""
    size, p = (1 << 32) + 12345, 1 << 24
    d = tempfile.mkdtemp(prefix="c01big-")
    try:
        with open(os.path.join(d, "big"), "wb") as f:
            f.truncate(size)
        rc, out, err = ctx.imdl(["torrent", "create", "--input", "big", "--output", "-", "--piece-length", str(p), "--md5"],
                                cwd=d, timeout=1200)
        full, tail = hashlib.sha1(bytes(p)).digest(), hashlib.sha1(bytes(size % p)).digest()
        m = hashlib.md5()
        z = bytes(p)
        for _ in range(size // p):
            m.update(z)
        m.update(bytes(size % p))
        want = ("ok", full * (size // p) + tail, [(None, size, m.hexdigest())], p)
        try:
            got = observe(out)[:4] if rc == 0 else ("rc", rc)
        except Exception as e:
            got = ("undecodable", repr(e))
        return {"ok": got == want, "rc": rc, "stderr": err.decode("utf-8", "replace")[-300:],
                "got": None if got == want else repr(got)[:600], "size": size, "piece_length": p}
    finally:
        shutil.rmtree(d, ignore_errors=True)


def run_malformed_e2e(ctx):
    """inputs create must refuse: nothing may be written"""
    d = tempfile.mkdtemp(prefix="c01m-")
    try:
        os.makedirs(os.path.join(d, "tree"))
        with open(os.path.join(d, "tree", "f"), "wb") as f:
            f.write(b"hello")
        for label, args in [("missing_input", ["torrent", "create", "--input", "nope", "--output", "-", "--piece-length", "4"] + ALLOW),
                            ("zero_piece_length_dir", ["torrent", "create", "--input", "tree", "--output", "-", "--piece-length", "0"] + ALLOW),
                            ("zero_piece_length_stdin", ["torrent", "create", "--input", "-", "--name", "x", "--output", "-",
                                                         "--piece-length", "0"] + ALLOW)]:
            rc, out, err = ctx.imdl(args, cwd=d, stdin=b"hello")
            ctx.cov["evaluations"] += 1
            ctx.count("e2e_malformed_" + label)
            if rc == 0 or out:
                ctx.violation("oracle-failure", "create did not refuse (%s): rc %d, %d bytes written; no pieces can match the content"
                              % (label, rc, len(out)), {"kind": "e2e-malformed", "argv": ["imdl"] + args, "rc": rc, "stdout": out[:400],
                                                        "reproduce": "mkdir tree; printf hello > tree/f; printf hello | imdl " + " ".join(args)})
    finally:
        shutil.rmtree(d, ignore_errors=True)


# ---------------------------------------------------------------- entry points

def run(ctx):
    ctx.need_coq()
    if not ctx.need_rust() or not ctx.need_runner():
        return finish(ctx)
    r = ctx.rng
    big = None
    if ctx.thorough:
        from concurrent.futures import ThreadPoolExecutor
        big_pool = ThreadPoolExecutor(1)
        big = big_pool.submit(run_beyond_4gib, ctx)
    # regression corpus: the design's example and the named alignments of the existing tests, with short reads
    corpus = [
        {"kind": "hook", "via": "files", "md5": True, "p": 4, "style": "one",
         "files": [[], [b"h", b"e", b"l", b"l", b"o"], [bytes([c]) for c in b"world!!"]]},
        {"kind": "hook", "via": "stdin", "md5": True, "p": 4, "style": "oversize", "files": [[b"helloworld"]]},
        {"kind": "hook", "via": "files", "md5": False, "p": 4, "style": "to_boundary", "files": [[b"abcd"], [b"efgh"]]},
        {"kind": "hook", "via": "files", "md5": False, "p": 4, "style": "short_of_boundary", "files": [[b"abc", b"d"], [b"e"]]},
        {"kind": "hook", "via": "files", "md5": True, "p": 1, "style": "full", "files": [[b"a"]]},
        {"kind": "hook", "via": "files", "md5": True, "p": 8, "style": "full", "files": []},
        {"kind": "hook", "via": "files", "md5": False, "p": 3, "style": "failing-read", "files": [[b"ab", None, b"cd"]]},
        {"kind": "hook", "via": "files", "md5": False, "p": 3, "style": "failing-read", "files": [[b"abc"], [b"d", b"ef", None]]},
    ]
    cases = corpus + [gen_hook_case(r) for _ in range(ctx.n(12000, 150000))] + \
        [gen_hook_case(r, malformed=True) for _ in range(ctx.n(2000, 15000))]
    impl, model = run_hook_cases(ctx, cases, "gen")
    for k in (0, len(corpus) + 3, len(cases) - 1):
        ctx.sample(dict(brief_hook(cases[k]), impl=impl[k][:260], model=model[k][:260]))
    # small-scope exhaustive sweep
    if ctx.thorough:
        sw = sweep_cases(4, (1, 2, 3, 4), 5)
    else:
        sw = sweep_cases(3, (1, 2, 3), 3)
    ctx.count("sweep_cases", len(sw))
    run_hook_cases(ctx, sw, "sweep")
    run_e2e(ctx, ctx.n(800, 8000))
    run_size_disagrees(ctx)
    run_malformed_e2e(ctx)
    if big is not None:
        res = big.result()
        ctx.cov["evaluations"] += 1
        ctx.count("e2e_file_beyond_4GiB")
        ctx.distinct(("e2e-big", res["size"], res["piece_length"]))
        if not res["ok"]:
            ctx.violation("oracle-failure", "imdl torrent create on a sparse file of 2^32+12345 zero bytes, 16 MiB pieces, --md5: "
                          "pieces / length / md5sum do not match the content", dict(res, kind="e2e-big", reproduce=
                          "truncate -s 4294979641 big; imdl torrent create --input big --output - --piece-length 16777216 --md5"))
    return finish(ctx)


def finish(ctx):
    ctx.assumptions += [
        "SHA-1 and MD5 are modelled as functions of the bytes fed to a context since it was created or reset (streaming "
        "update/consume followed by digest/compute equals the one-shot hash of the concatenation); validated on every case of "
        "this run against hashlib for the sha1 and md5 crates",
        "a reader returns, for a non-empty window before end of data, some count between 1 and min(window, bytes left), or an "
        "error; 0 only for an empty window or at end of data (std::io::Read contract)",
        "file sizes stay below 2^64 (usize/u64 counters bytes_hashed and Hasher.length cannot overflow on inputs that exist)",
    ]
    return ctx.finish(
        rule="in-process: seeded cases over piece lengths {1,2,3,4,5,7,8,16,31,32,64, 65..300}, 0-6 files with sizes k*p-1, k*p, k*p+1, 0 "
             "or random, read schedules one-byte / full-window / random / exactly-to-the-boundary / one-short-of-the-boundary / "
             "oversized (clipped) / whole-file, through hash_scripted_files (file lists) and hash_scripted (Hasher::hash_stdin); a "
             "malformed stream with a failing read at a random position and piece length 0; a small-scope exhaustive sweep (quick: "
             "sizes {0..3}^3 x p {1,2,3} x read patterns {1,2,full}^3; thorough: {0..4}^3 x p {1..4} x {1,2,full}^5). End to end: "
             "imdl torrent create on generated trees (nested, 0-6 files), single files and stdin fed in irregular bursts, piece lengths "
             "small / around BufReader's 8 KiB / 16-32 KiB, with and without --md5, to stdout and to a file; stdin cases are "
             "re-run as a single file of the same name and the info spans compared. A case is distinct by (piece length, file "
             "sizes, md5 flag, read-size sequence or burst sequence) and non-trivial when the content is non-empty.",
        trusted_base=["Coq 8.16.1 kernel (coqc)", "extraction with ExtrOcamlBasic + runner/driver.ml (driver.d/hasher.ml)",
                      "Rust hooks hash_scripted, hash_scripted_files (+ Hasher::verif_hash_readers) and the harness line protocol",
                      "tools/lib.py strict bencode reader", "Python oracle in tools/props/c01.py (hashlib)"],
        exhaustive=False,
        extra={"small_scope_sweep": "complete for the stated finite matrix (see rule)"},
    )


def replay(ctx, path):
    case = json.load(open(path))["case"]
    ctx.need_rust(); ctx.need_runner()
    if case.get("kind") == "hook":
        files = [[None if s == "!" else bytes.fromhex(s) for s in f] for f in case["files_as_scripted_reads_hex"]]
        c = {"kind": "hook", "via": case["via"], "md5": case["md5"], "p": case["piece_length"], "style": "replay", "files": files}
        h, mo = hook_lines(c)
        i = parse_impl(c, ctx.harness([h], nproc=1)[0])
        m = parse_model(c, ctx.model([mo], nproc=1)[0])
        print("impl  :", json.dumps(show(i)))
        print("model :", json.dumps(show(m)))
        print("oracle:", json.dumps(show(expected_hook(c))))
        print("verdict:", judge_hook(c, i) or ("model and implementation differ" if i != m else "no objection"))
        return 0
    if case.get("kind") == "e2e":
        c = {"kind": "e2e", "id": 0, "shape": case["shape"], "p": case["piece_length"], "md5": case["md5"],
             "files": [tuple(x) for x in case["files_path_size_contentseed"]], "out": case["output"], "bursts": case.get("bursts")}
        tmp = tempfile.mkdtemp(prefix="c01r-")
        try:
            res = run_e2e_case(ctx, c, tmp)
        finally:
            shutil.rmtree(tmp, ignore_errors=True)
        print("impl  :", json.dumps(res.get("obs"), default=str)[:3000])
        print("oracle:", json.dumps(res.get("oracle"))[:3000])
        lb = res.get("listed_bytes")
        if lb is not None and sum(map(len, lb)) <= 150000:
            sched, _ = simulate(c["p"], [[b] for b in lb])
            line = "hashfiles %d %d %s %s" % (c["md5"], c["p"], ",".join(map(str, sched)) if sched else "~",
                                               ",".join(lib.hexs(b) for b in lb) if lb else "~")
            print("model :", json.dumps(show(parse_model(dict(via="files"), ctx.model([line], nproc=1)[0])))[:3000])
        print("verdict:", "; ".join(res["problems"]) or "no objection")
        print("reproduce:", shell_repro(c))
        return 0
    print(json.dumps(case, indent=1)[:3000])
    return 0
