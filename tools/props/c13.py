"""C13 — verify judges only files inside the content root.

Obligations: coq/Properties/C13.v (the loader admits only plain path components; plain paths
resolve by descending from the root's node, so the verdict depends on the filesystem only through
the subtree at the root; no admitted path leaves the root lexically).
Correspondence: the real binary on hostile torrents (every position x kind of escaping component,
matching decoys planted outside the root, hostile names) against the extracted model and an
independent lexical-escape oracle; the sandbox is snapshotted to show verify writes nothing."""
import copy, shutil, tempfile
import lib
from props import vfy

MANIFEST = dict(
    text="Machine-checked proof over the verifier model (Model/Fs.v with the kernel's component walk incl. '..', absolute restarts, "
         "PathBuf::push): every torrent the loader admits has only plain path components, such paths resolve by plain descent from "
         "the root's node, so success never depends on anything outside the subtree at the content root, and no admitted path leaves "
         "the root lexically. Tied to the code by running the model and a lexical-escape oracle against the real binary on hostile "
         "torrents with matching decoys outside the root. Right level: confinement is a statement about all metainfo an attacker can write.",
    ref="DESIGN.md section 5, C13",
    technique="Coq proof over a Gallina model + model/implementation correspondence run on the real binary + independent oracle",
    note="Escape is judged lexically on the joined path (PathBuf::push, then folding '.' and '..'). No symlinks in the model. 'Neither "
         "crashes nor writes' is carried by the correspondence run (exit status class, sandbox snapshot). Trusted: Coq kernel, "
         "extraction, OCaml driver, Python oracle.")

S = vfy.PH


LONG_NAME = ("\u00e9\u20ac\U0001F600x" * 24).encode()     # 2-, 3-, 4- and 1-byte characters, 240 bytes


def kinds(rootname):
    """(tag, components that replace a plain path, where the decoy must be planted relative to the
    sandbox so that the escaped path finds matching bytes; None = stays inside / nothing to plant)"""
    return [
        ("..", [b"..", b"decoy"], "beside"),
        (".. twice", [b"..", b"..", b"decoy"], "above"),
        ("../.. in one component", [b"../..", b"decoy"], "above"),
        ("../decoy in one component", [b"../decoy"], "beside"),
        ("absolute component", [S + b"/outside/decoy"], "outside"),
        ("absolute component after plain ones", [b"d1", S + b"/outside/decoy"], "outside"),
        ("absolute component then ..", [S + b"/outside/x", b"..", b"decoy"], "outside-x"),
        # added after seeded change C13-3 (screening that trims separators before validating): the absolute escape
        # spelled one directory per component, only the first carrying the leading separator
        ("absolute path split one directory per component", [vfy.PHSPLIT, b"outside", b"decoy"], "outside"),
        ("split absolute path after plain ones", [b"d1", vfy.PHSPLIT, b"outside", b"decoy"], "outside"),
        ("descend then climb out", [b"d1", b"..", b"..", b"decoy"], "beside-d1"),
        # added after seeded change C13-4 (back-slashes turned into separators when the path is joined, after the screening):
        # on this platform a back-slash is an ordinary byte of a file name, so these name files INSIDE the root that do not
        # exist, while the decoy waits where the translated path would point
        ("back-slash spelling: ..\\decoy in one component", [b"..\\decoy"], "beside"),
        ("back-slash spelling: ..\\..\\decoy in one component", [b"..\\..\\decoy"], "above"),
        ("back-slash spelling: absolute path in one component", [S.replace(b"/", b"\\") + b"\\outside\\decoy"], "outside"),
        ("back-slash spelling: descend then climb out", [b"d1\\..\\..\\decoy"], "beside-d1"),
        # added after seeded change C13-6 (the refused component is cut at a byte offset for the error message): long
        # components of multi-byte characters, shifted so that every small offset falls inside a character in one of them
        ("long non-ASCII escaping component", [b"../" + LONG_NAME], ("beside", LONG_NAME)),
        ("long non-ASCII escaping component, shifted 1", [b"../a" + LONG_NAME], ("beside", b"a" + LONG_NAME)),
        ("long non-ASCII escaping component, shifted 2", [b"../ab" + LONG_NAME], ("beside", b"ab" + LONG_NAME)),
        ("long non-ASCII escaping component, shifted 3", [b"../abc" + LONG_NAME], ("beside", b"abc" + LONG_NAME)),
        ("long non-ASCII plain component (stays inside)", [LONG_NAME], None),
        # added after seeded change C13-8 (names trimmed AFTER the screening): a parent-directory component padded with white
        # space is an ordinary (odd) name here; the decoy waits where the trimmed path would point
        ("'.. ' (trailing space) then decoy", [b".. ", b"decoy"], "beside"),
        ("'..\\n' (trailing line feed) then decoy", [b"..\n", b"decoy"], "beside"),
        ("'..\\t' then '.. ' then decoy", [b"..\t", b".. ", b"decoy"], "above"),
        ("' ..' (leading space) then decoy", [b" ..", b"decoy"], "beside"),
        ("'..\\u00a0' (no-break space) then decoy", [b"..\xc2\xa0", b"decoy"], "beside"),
        ("decoy name padded: 'decoy ' beside", [b"..", b"decoy "], "beside"),
        # added after seeded change C13-10 (screening by a regular expression whose `.` does not match a line feed): the
        # escaping component also holds a line feed, a carriage return or a tab
        ("../ and a line feed in one component", [b"../de\ncoy"], ("beside", b"de\ncoy")),
        ("absolute component with a line feed", [S + b"/outside/de\ncoy"], ("sandbox", [b"outside", b"de\ncoy"])),
        ("../ and a carriage return in one component", [b"../de\rcoy"], ("beside", b"de\rcoy")),
        ("line feed first, then ../ in one component", [b"\n/../../decoy"], "beside-lf"),
        # added after seeded change C13-12 (components longer than NAME_MAX skipped by the screening): escaping components of
        # 256 bytes and more, every name in them short
        ("escaping component of 270 bytes", [b"../" + b"./" * 131 + b"decoy"], "beside"),
        ("absolute component padded to 300+ bytes", [S + b"/outside/" + b"./" * 150 + b"decoy"], "outside"),
        ("escaping component of 270 bytes after a plain one", [b"d1", b"../../" + b"./" * 130 + b"decoy"], "beside-d1"),
        # added after seeded change C13-11 (screening abandoned once the path is longer than PATH_MAX): an absolute component
        # after more than 4096 bytes of ordinary ones - joining discards everything before it
        ("absolute component after 21 names of 200 bytes", [b"n" * 200] * 21 + [S + b"/outside/decoy"], "outside"),
        ("absolute component after 2100 one-byte names", [b"q"] * 2100 + [S + b"/outside/decoy"], "outside"),
        ("absolute component after 17 names of 255 bytes", [b"m" * 255] * 17 + [S + b"/outside/decoy"], "outside"),
        # added after seeded change C13-5 (a second, unscreened spelling of `path`): the whole path as ONE byte string
        # added after seeded change C13-14 (a missing file retried under its NFC / NFD / NFKC spellings): components made of
        # compatibility characters that NFKC turns into `..` or `/` are ordinary names here; the decoy waits where the respelt
        # path would point
        ("U+2025 TWO DOT LEADER then decoy", ["\u2025".encode(), b"decoy"], "beside"),
        ("two U+2024 ONE DOT LEADER then decoy", ["\u2024\u2024".encode(), b"decoy"], "beside"),
        ("two U+FF0E FULLWIDTH FULL STOP, twice, then decoy", ["\uff0e\uff0e".encode(), "\uff0e\uff0e".encode(), b"decoy"], "above"),
        ("U+2025 U+FF0F decoy in one component", ["\u2025\uff0fdecoy".encode()], "beside"),
        ("d1 then U+2025 U+2025 then decoy", [b"d1", "\u2025".encode(), "\u2025".encode(), b"decoy"], "beside-d1"),
        ("decomposed name of the decoy beside (e + U+0301)", [b"..", "de\u0301coy".encode()], ("beside", "d\u00e9coy".encode())),
        # added after seeded change C13-13 (`path.utf-8` read and preferred for disk access, checked only for its length): the
        # entry keeps a valid `path` of as many plain components; the escape is spelled in a sibling key other clients write
        ("ALTKEY path.utf-8: ..", [b"..", b"decoy"], "beside"),
        ("ALTKEY path.utf-8: absolute component", [S + b"/outside/decoy"], "outside"),
        ("ALTKEY path.utf-8: separator inside a component", [b"../decoy"], "beside"),
        ("ALTKEY path.utf8: ..", [b"..", b"decoy"], "beside"),
        ("ALTKEY utf-8 path: .. twice", [b"..", b"..", b"decoy"], "above"),
        ("ALTKEY name.utf-8: ..", [b"..", b"decoy"], "beside"),
        ("path as a joined byte string: ../decoy", b"../decoy", "beside"),
        ("path as a joined byte string: d1/../../decoy", b"d1/../../decoy", "beside-d1"),
        ("path as a joined byte string: absolute", S + b"/outside/decoy", "outside"),
        ("path as a joined byte string (stays inside)", b"d1/inner", "d1/inner"),
        (".. and back into the root (stays inside)", [b"..", rootname, b"inner"], "inner"),
        ("separator inside a component (stays inside)", [b"d1/inner"], "d1/inner"),
        ("'.' component (stays inside)", [b".", b"inner"], "inner"),
        ("empty component (stays inside)", [b"", b"inner"], "inner"),
        ("trailing separator (stays inside)", [b"inner/"], "inner"),
        ("trailing empty component (stays inside)", [b"inner", b""], "inner"),
        ("'..' as last component", [b"d1", b".."], None),
        ("root itself via '.'", [b"."], None),
        ("NUL inside a component", [b"in\0ner"], "inner"),
        ("plain component named '...'", [b"...", b"inner"], ".../inner"),
    ]


def hostile_case(r, kind, pos, mode, rootname=b"root", pieces_without_hostile=False):
    """pieces_without_hostile: the piece list covers only the ORDINARY files (the hostile entry still carries the decoy's
    length and md5sum): an implementation that skips the escaping entry when hashing but still checks its existence, length
    and checksum would succeed on the strength of the outside file (seeded change C13-9)"""
    tag, comps, where = kind
    p = r.choice([1, 4, 7, 64, 16384])
    n = r.randint(1, 4)
    pos = min(pos, n - 1) if pos >= 0 else n - 1
    datas = [r.randbytes(r.choice([0, 1, p, p + 1, r.randint(1, 3 * min(p, 300))])) for _ in range(n)]
    if not datas[pos]:
        datas[pos] = r.randbytes(r.randint(1, 9))
    files = [([b"f%d" % i], datas[i]) for i in range(n)]
    w = vfy.World(rootname, p, files, True, r.random() < 0.5)
    if tag.startswith("ALTKEY "):
        key = tag.split(" ", 1)[1].split(":")[0].encode()
        key = {b"utf-8 path": b"path.utf-8"}.get(key, key)
        w.info[b"files"][pos][key] = list(comps)
        w.info[b"files"][pos][b"path"] = [b"plain%d" % i for i in range(len(comps))]          # valid, absent inside the root
    else:
        w.info[b"files"][pos][b"path"] = comps if isinstance(comps, bytes) else list(comps)   # pieces and md5sum stay the decoy's
    if pieces_without_hostile:
        blob = b"".join(d for i, d in enumerate(datas) if i != pos)
        w.info[b"pieces"] = vfy.sha1s(blob, p)
        tag += " (pieces cover the ordinary files only)"
    vfy.tree_del(w.content, [b"f%d" % pos])
    tree, arg, inp = vfy.place(w, mode, r, True)
    # where the content root is, relative to the sandbox
    rootloc = {"content": [b"the content"], "base": [b"bd", rootname], "default": [b"sub", rootname], "stdin": [rootname]}[mode]
    if tag.startswith(".. and back") and mode == "content":
        w.info[b"files"][pos][b"path"] = [b"..", b"the content", b"inner"]
    decoy = datas[pos]
    if isinstance(where, tuple) and where[0] == "sandbox":
        vfy.tree_set(tree, list(where[1]), decoy)
    elif isinstance(where, tuple):
        vfy.tree_set(tree, rootloc[:-1] + [where[1]], decoy)
    elif where == "beside-lf":
        vfy.tree_set(tree, rootloc[:-1] + [b"decoy"], decoy)
        vfy.tree_set(tree, rootloc + [b"\n"], {})
    elif where == "beside":
        vfy.tree_set(tree, rootloc[:-1] + [b"decoy"], decoy)
    elif where == "above":
        if len(rootloc) < 2:
            return None                                   # would leave the sandbox
        vfy.tree_set(tree, rootloc[:-2] + [b"decoy"], decoy)
    elif where == "outside":
        vfy.tree_set(tree, [b"outside", b"decoy"], decoy)
    elif where == "outside-x":
        vfy.tree_set(tree, [b"outside", b"decoy"], decoy)
        vfy.tree_set(tree, [b"outside", b"x"], {})
    elif where == "beside-d1":
        vfy.tree_set(tree, rootloc[:-1] + [b"decoy"], decoy)
        vfy.tree_set(tree, rootloc + [b"d1"], {})
    elif where is not None:
        vfy.tree_set(tree, rootloc + where.encode().split(b"/"), decoy)
    if where is None:
        vfy.tree_set(tree, rootloc + [b"d1"], {})
    return vfy.mk_case("hostile path: %s, file %d of %d" % (tag, pos + 1, n), w, mode, tree, arg, inp)


def root_is_a_file_cases(r):
    """The content root is a regular file, the first entry has the EMPTY path (it names the root itself) and the entries after
    it are single names whose bytes lie NEXT TO the root: every one of them is outside the root, which is not even a directory
    (added after seeded change C13-15: a path buffer reused across entries, where `set_file_name` on the root replaced the
    root's own last component)."""
    out = []
    for mode in ("content", "base", "default", "stdin"):
        p = r.choice([4, 7, 64])
        datas = [r.randbytes(r.randint(1, 3 * p)) for _ in range(r.choice([2, 3, 4]))]
        files = [([b"f%d" % i], d) for i, d in enumerate(datas)]
        w = vfy.World(b"root", p, files, True, r.random() < 0.5)
        w.info[b"files"][0][b"path"] = []
        w.content = datas[0]                                   # the root itself is a file holding the first entry's bytes
        tree, arg, inp = vfy.place(w, mode, r, True)
        rootloc = {"content": [b"the content"], "base": [b"bd", b"root"], "default": [b"sub", b"root"], "stdin": [b"root"]}[mode]
        for i in range(1, len(datas)):
            vfy.tree_set(tree, rootloc[:-1] + [b"f%d" % i], datas[i])
        out.append(vfy.mk_case("hostile shape: root is a file, empty path first, siblings beside the root", w, mode, tree, arg, inp))
    return out


def hostile_names(r):
    """the default root is built from the untrusted name; listed paths are ordinary"""
    out = []
    for nm, tag in ((b"../up", "name = ../up"), (S + b"/abs/root", "absolute name"), (b"a/b", "name with separator"),
                    (b"..", "name = .."), (b".", "name = ."), (b"sub/../../x", "name climbing out of the torrent's directory")):
        for mode in ("default", "stdin", "base"):
            p = r.choice([2, 5, 64])
            files = [([b"f%d" % i], r.randbytes(r.randint(0, 12))) for i in range(r.randint(1, 3))]
            w = vfy.World(nm, p, files, True, False)
            tree = {b"sub": {}, b"bd": {}, b"kept": {}}
            prefix = {"default": [b"sub"], "stdin": [], "base": [b"bd"]}[mode]
            if nm.startswith(S):
                vfy.tree_set(tree, [b"abs", b"root"], w.content)
            else:
                vfy.put_named(tree, prefix, nm, None)
                # the content lands where the joined, folded path points - if that is still inside the sandbox
                at = list(prefix)
                ok = True
                for piece in nm.split(b"/"):
                    if piece == b"..":
                        if at:
                            at.pop()
                        else:
                            ok = False
                    elif piece not in (b"", b"."):
                        at.append(piece)
                if ok and at:
                    vfy.tree_set(tree, at, w.content)
                elif ok:
                    for k, v in w.content.items():
                        tree[k] = v
            arg = b"bd" if mode == "base" else None
            inp = {"default": b"sub/t.torrent", "stdin": b"kept/t.torrent", "base": b"t.torrent"}[mode]
            out.append(vfy.mk_case("hostile " + tag, w, mode, tree, arg, inp))
    return out


def hostile_single_names(r):
    """A SINGLE-file torrent with a hostile name, verified with --content / --base-directory naming an existing DIRECTORY: the
    content root is what the user gave, the name must not be joined onto it (added after seeded change C13-17: `--content DIR`
    became DIR/<name> for single-file torrents, lexically cleaned, so `../decoy/secret` left the directory)."""
    out = []
    for nm, at in ((b"../decoy/secret", [b"decoy", b"secret"]), (b"sub/../../decoy/secret", [b"decoy", b"secret"]),
                   (S + b"/outside/secret", [b"outside", b"secret"]), (b"inner", None), (b"../the content/inner", None)):
        for md5 in (False, True):
            data = r.randbytes(r.randint(1, 40))
            w = vfy.World(nm, r.choice([2, 5, 64]), [([], data)], False, md5)
            tree = {b"the content": {b"bystander": b"x"}, b"decoy": {}, b"outside": {}}
            if at is not None:
                vfy.tree_set(tree, at, data)
            else:
                vfy.tree_set(tree, [b"the content", b"inner"], data)       # even inside the directory: --content names the file itself
            out.append(vfy.mk_case("hostile single-file name %r with --content naming a directory" % nm.replace(S, b"<sandbox>"), w, "content", tree, b"the content", b"t.torrent"))
    return out


def overlong_component_cases(r):
    """Ordinary names longer than any 16-bit quantity (65536 k + 2 bytes) that BEGIN with the bytes of an escape (`..decoysecret`,
    cut into `..`, `decoy`, `secret` when the component boundaries are kept in 16 bits) - a plain, if absurd, name inside the root;
    the decoy waits where the wrapped reading points (added after seeded change C13-16: FilePath stored as one string plus u16 end
    offsets)."""
    out = []
    for k in (1, 2):
        for mode in ("content", "default"):
            first = b"..decoysecret" + b"q" * (65536 * k + 2 - 13)
            p = 64
            data = r.randbytes(r.randint(1, 30))
            w = vfy.World(b"root", p, [([b"f0"], data)], True, r.random() < 0.5)
            w.info[b"files"][0][b"path"] = [first, b"inner", b"leaf66"]
            vfy.tree_del(w.content, [b"f0"])
            tree, arg, inp = vfy.place(w, mode, r, True)
            rootloc = {"content": [b"the content"], "default": [b"sub", b"root"]}[mode]
            vfy.tree_set(tree, rootloc[:-1] + [b"decoy", b"secret"], data)
            vfy.tree_set(tree, rootloc[:-1] + [b"decoy", b"inner", b"leaf66"], data)
            out.append(vfy.mk_case("hostile shape: component of %d bytes beginning `..decoysecret`" % len(first), w, mode, tree, arg, inp))
    return out


def generate(ctx):
    r = ctx.rng
    cases = []
    # corpus first: the two confirmed witnesses (DESIGN section 6)
    cases.append(hostile_case(r, kinds(b"root")[0], 0, "content"))
    cases.append(hostile_case(r, kinds(b"root")[4], 0, "content"))
    reps = ctx.n(2, 30)
    for _ in range(reps):
        for kind in kinds(b"root"):
            for pos in (0, 1, -1):
                mode = r.choice(["content", "base", "default", "stdin"])
                c = hostile_case(r, kind, pos, mode)
                if c is None:
                    c = hostile_case(r, kind, pos, "base")
                cases.append(c)
        for mode in ("content", "base", "default", "stdin"):          # every kind x every root rule once more
            for kind in kinds(b"root"):
                c = hostile_case(r, kind, r.choice([0, 1, 2, -1]), mode)
                if c is not None:
                    cases.append(c)
        for kind in kinds(b"root")[:8]:
            c = hostile_case(r, kind, r.choice([0, 1, -1]), r.choice(["content", "base", "default", "stdin"]), pieces_without_hostile=True)
            if c is not None:
                cases.append(c)
        cases += hostile_names(r)
        cases += root_is_a_file_cases(r)
        cases += hostile_single_names(r)
        for _ in range(12):                                          # ordinary torrents in between
            w = vfy.random_world(r, multi=True)
            mode = r.choice(["content", "base", "default", "stdin"])
            tree, arg, inp = vfy.place(w, mode, r, True)
            cases.append(vfy.mk_case("ordinary", w, mode, tree, arg, inp))
    cases += overlong_component_cases(r)
    for c in cases:
        c["seed"] = r.randrange(1 << 30)
    return cases


def run(ctx):
    ctx.need_coq()
    if not ctx.need_rust() or not ctx.need_runner():
        return finish(ctx)
    cases = generate(ctx)
    tmp = tempfile.mkdtemp(prefix="c13-")
    try:
        recs = lib.pmap(lambda c: vfy.run_case(ctx, c, tmp), cases)
    finally:
        shutil.rmtree(tmp, ignore_errors=True)
    lines = vfy.model_lines(ctx, recs)
    # the model's lexical judgement on the same paths the oracle judged
    esc_lines, esc_idx = [], []
    for i, rec in enumerate(recs):
        t, _ = vfy.read_torrent(rec["torrent"])
        if t and "root" in rec["oracle"]:
            for comps, _, _ in t["files"]:
                if comps:
                    esc_lines.append("vesc %s %s" % (lib.hexs(rec["oracle"]["root"]), lib.hexlist(comps)))
                    esc_idx.append((i, comps))
    replies = ctx.model(lines + esc_lines)
    models, escs = replies[:len(lines)], replies[len(lines):]
    model_escape = [False] * len(recs)
    for (i, comps), e in zip(esc_idx, escs):
        if e == "OK 1":
            model_escape[i] = True
    for i, (rec, m) in enumerate(zip(recs, models)):
        rec["pid"] = "C13"
        judge(ctx, rec, m, model_escape[i])
    return finish(ctx)


def judge(ctx, rec, m, model_escape):
    c, orc, rc = rec["case"], rec["oracle"], rec["rc"]
    ctx.cov["evaluations"] += 1
    ctx.cov["traces_validated_against_impl"] += 1
    kind = c["tag"].split(", file")[0]
    ctx.count("kind: " + kind)
    ctx.count("root rule: " + c["mode"])
    ctx.count("escapes lexically" if orc["escape"] else "stays inside")
    ctx.count("exit status %d" % rc)
    ctx.distinct((c["tag"], c["mode"], orc["escape"], rc, m))
    if kind in ("hostile path: ..", "hostile path: absolute component", "hostile name = ../up"):
        ctx.sample({"tag": c["tag"], "argv": rec["argv"], "torrent": rec["torrent"][:200].decode("latin-1"),
                    "exit_status": rc, "model": m, "escapes": orc["escape"]}, cap=6)
    d = lambda: vfy.describe(rec, m)
    bad = False
    if orc["escape"] and rc == 0:
        ctx.violation("oracle-failure", "%s: verify exited 0 on the strength of a file outside the content root %r"
                      % (c["tag"], orc.get("root")), d()); bad = True
    if vfy.crashed(rc):
        ctx.violation("oracle-failure", "%s: verify crashed (exit %d)" % (c["tag"], rc), d()); bad = True
    if not rec["unchanged"]:
        ctx.violation("oracle-failure", "%s: verify changed the sandbox" % c["tag"], d()); bad = True
    if orc["expect"] == "success" and rc != 0:
        ctx.violation("oracle-failure", "%s: all listed files are inside the root and match, but verify exited %d" % (c["tag"], rc), d()); bad = True
    if orc["expect"] == "not-success" and rc == 0 and not bad:
        ctx.violation("oracle-failure", "%s: verify exited 0 although %s" % (c["tag"], orc["why"]), d()); bad = True
    if bad:
        return
    if model_escape != orc["escape"] and "root" in orc:
        ctx.violation("model-impl-disagreement", "%s: Fs.lex_escapes says %s, the oracle's lexical judgement says %s"
                      % (c["tag"], model_escape, orc["escape"]), d())
    if not m.startswith("OK ") or m == "OK fuel":
        ctx.violation("model-impl-disagreement", "the model did not produce a verdict (%s) on %s" % (m, c["tag"]), d())
    elif (m == "OK success") != (rc == 0):
        ctx.cov["disagreements_checked"] += 1
        ctx.violation("model-impl-disagreement", "%s: model says %s, `imdl torrent verify` exited %d; no escape succeeded (%s)"
                      % (c["tag"], m[3:], rc, orc["expect"] or orc["why"]), d())


def finish(ctx):
    ctx.assumptions += [
        "escape is judged lexically on the joined path (PathBuf::push, then folding '.' and '..'); no symlinks",
        "SHA-1 and MD5 are functions of the bytes (Section variables)",
    ]
    return ctx.finish(
        rule="multi-file torrents of 1-4 files in which one listed path is replaced by a hostile one: 20 kinds (.., ../.., absolute, "
             "separator inside a component, empty, '.', trailing separator, NUL, climb-out after descent, out-and-back-in) x position "
             "(first/middle/last file) x the four content-root rules, each with a decoy holding exactly the bytes the torrent expects "
             "planted at the escaped location; hostile names for the root itself; ordinary torrents in between. A case is "
             "distinct/non-trivial by (kind+position, root rule, lexical escape, exit status, model verdict)",
        trusted_base=["Coq 8.16.1 kernel (coqc)", "extraction with ExtrOcamlBasic + runner/driver.d/verify.ml",
                      "Python oracle in tools/props/vfy.py (os.path.join, own lexical folding, hashlib)", "sandbox snapshot (os.walk + sha256 + mtimes)"],
    )


def replay(ctx, path):
    return vfy.replay(ctx, path, "C13")
