"""C12 — UDP tracker exchange follows BEP 15 and trusts only matching replies.

Obligations: coq/Properties/C12.v (wire layouts over the tables regenerated from src/tracker/*.rs,
accept => echo, peers exact, totality on every datagram, at most three sends, no invented peers,
completeness for honest trackers, each peer printed once, URL screening).
Correspondence: the `tracker_announce` hook (Client::connect + announce_exchange) and the real binary
(`imdl torrent announce`, `imdl torrent from-link`) against a scripted UDP tracker on loopback run by this
module; every datagram the tracker receives is read by an independent BEP 15 reader (below) and must equal
the extracted model's serialisation for the same field values; the outcome (peers / reported failure, number
of sends) is compared with the extracted `Tracker.session`, and judged by the direct oracle in `judge`."""
import zlib
import hashlib, ipaddress, json, os, re, select, shutil, socket, struct, subprocess, tempfile, threading, time
import lib

MANIFEST = dict(
    text="Machine-checked proof over a model of the UDP tracker client whose tables (request layouts, constructor "
         "initialisers, length guards, parse offsets, action codes, magic, retry count, buffer sizes, strides) are "
         "regenerated from src/tracker/*.rs on every run: BEP 15 wire layout of both requests, announce only after a "
         "valid connect reply and with its connection id, accept => length/action/transaction-id echo, peers = exactly "
         "the 6/18-byte records, no crash on any datagram of any length, at most three sends, completeness for honest "
         "trackers; tied to the code by the translator and by a hook + real-binary correspondence run against a scripted "
         "loopback tracker with an independent BEP 15 reader. Right level: the property quantifies over all reply "
         "datagrams and drop patterns, and conformance needs an implementation independent of the crate's own parser.",
    ref="DESIGN.md section 5, C12",
    technique="Coq proof over a Gallina model + translator-generated tables + model/implementation correspondence run",
    note="Partial: UDP delivery, the 3 s timeout and the kernel's datagram truncation are represented by their effect "
         "(answer lists, firstn buflen) and exhibited only by the correspondence run. Assumed about UDP: no datagram payload "
         "exceeds 65527 bytes (udp_deliverable); the receive buffer regenerated from the source is proved to hold it. from-link reports "
         "no per-tracker message; only its wire traffic and peer count are checked. Trusted: Coq kernel, "
         "tools/rs2v_tracker.py, extraction (ExtrOcamlBasic), hook + harness, the Python tracker simulator and oracle.")

MAGIC = 0x41727101980
HAVE_V6 = None


# ---------------------------------------------------------------- independent BEP 15 reader / oracle helpers

def bep15_connect_request(d):
    """problems of a connect request datagram, by BEP 15 (empty list = conformant)"""
    bad = []
    if len(d) != 16:
        return ["connect request is %d bytes, BEP 15 says 16" % len(d)]
    magic, action, _txid = struct.unpack(">QII", d)
    if magic != MAGIC:
        bad.append("protocol id %#x is not 0x41727101980" % magic)
    if action != 0:
        bad.append("connect action is %d, not 0" % action)
    return bad


def bep15_announce_request(d, infohash, conn_id):
    bad = []
    if len(d) != 98:
        return ["announce request is %d bytes, BEP 15 says 98" % len(d)]
    conn, action, _txid = struct.unpack(">QII", d[:16])
    ih = d[16:36]
    _dl, left, _ul = struct.unpack(">QQQ", d[56:80])
    event, _ip, _key, _numwant, port = struct.unpack(">IIIiH", d[80:98])
    if conn != conn_id:
        bad.append("connection id %#x is not the one just received (%#x)" % (conn, conn_id))
    if action != 1:
        bad.append("announce action is %d, not 1" % action)
    if ih != infohash:
        bad.append("bytes 16..36 are %s, not the torrent's infohash %s" % (ih.hex(), infohash.hex()))
    if left == 0:
        bad.append("`left` is 0 (announcing as a seed)")
    if port == 0:
        bad.append("port is 0")
    if event not in (0, 1, 2, 3):
        bad.append("event %d is not one of 0..3" % event)
    return bad


def reply_valid(d, action, txid, hdr):
    """BEP 15: the reply is at least hdr bytes, has the expected action and the request's transaction id"""
    return len(d) >= hdr and struct.unpack(">II", d[:8]) == (action, txid)


def records(payload, stride):
    """the stride-sized records of a payload, or None when it is ragged"""
    if len(payload) % stride:
        return None
    return [(payload[i:i + stride - 2], struct.unpack(">H", payload[i + stride - 2:i + stride])[0])
            for i in range(0, len(payload), stride)]


def parse_printed_peer(text):
    """'1.2.3.4:80' / '[::1]:80' -> (packed address, port) using Python's own address parser"""
    m = re.fullmatch(r"\[(.+)\]:(\d+)", text) or re.fullmatch(r"([0-9.]+):(\d+)", text)
    if not m:
        raise ValueError("unparseable peer %r" % text)
    return ipaddress.ip_address(m.group(1)).packed, int(m.group(2))


def have_v6():
    global HAVE_V6
    if HAVE_V6 is None:
        try:
            s = socket.socket(socket.AF_INET6, socket.SOCK_DGRAM)
            s.bind(("::1", 0))
            s.close()
            HAVE_V6 = True
        except OSError:
            HAVE_V6 = False
    return HAVE_V6


# ---------------------------------------------------------------- scripted replies

def txid_of(req):
    return struct.unpack(">I", req[12:16])[0] if len(req) >= 16 else 0


def build_reply(t, req, prev_txid):
    """t: reply template (JSON-able). None = drop the request."""
    if t is None:
        return None
    if t.get("raw") is not None:
        return bytes.fromhex(t["raw"])
    tx = txid_of(req)
    mode = t.get("txid", "echo")
    if mode == "plus1":
        tx = (tx + 1) & 0xffffffff
    elif mode == "zero":
        tx = 0 if tx else 1
    elif mode == "swap":
        sw = struct.unpack("<I", struct.pack(">I", tx))[0]
        tx = sw if sw != tx else tx ^ 0x01000000
    elif mode == "prev":
        tx = prev_txid if prev_txid != tx else tx ^ 1
    elif mode.startswith("flip"):
        tx ^= 1 << int(mode[4:])
    d = struct.pack(">II", t["action"] & 0xffffffff, tx) + bytes.fromhex(t.get("body", ""))
    if t.get("echo_port") and len(req) >= 98:
        # a tracker that builds its reply from the request, as real ones do: records whose port is the port the client
        # announced (bytes 96..98 of its request) - the announcer itself and other hosts behind the same port number
        # (added after seeded change C12-14: a "do not list ourselves" filter that compared only the port)
        d += b"".join(bytes.fromhex(h) + req[96:98] for h in t["echo_port"])
    if t.get("cut") is not None:
        d = d[:t["cut"]]
    return d


# connection ids a tracker may legitimately hand out and that an implementation might mistake for "none" / a sentinel
SPECIAL_CONN = [0, 1, 0x41727101980, 1 << 32, (1 << 32) - 1, 1 << 63, (1 << 63) - 1, (1 << 64) - 1, 0x100, 0xff00000000000000]
SPECIAL_U32 = [0, 1, 0x7fffffff, 0x80000000, 0xffffffff]


def good_connect(rng, extra=0, conn=None):
    if conn is None:
        conn = rng.choice(SPECIAL_CONN) if rng.random() < 0.12 else rng.getrandbits(64)
    return {"action": 0, "txid": "echo", "body": (conn.to_bytes(8, "big") + bytes(rng.getrandbits(8) for _ in range(extra))).hex()}


def peer_bytes(rng, n, stride, dup=False):
    recs = []
    for _ in range(n):
        if dup and recs and rng.random() < 0.3:
            recs.append(rng.choice(recs))
        elif rng.random() < 0.04:      # records made of extreme bytes: address 0.0.0.0 / all ones, port 0 / 65535
            recs.append(rng.choice([bytes(stride), b"\xff" * stride, bytes(stride - 2) + b"\xff\xff", b"\xff" * (stride - 2) + bytes(2)]))
        else:
            recs.append(bytes(rng.getrandbits(8) for _ in range(stride)))
    return b"".join(recs)


def good_announce(rng, n, stride, dup=False):
    hdr = struct.pack(">III", *[rng.choice(SPECIAL_U32) if rng.random() < 0.15 else rng.getrandbits(32) for _ in range(3)])
    return {"action": 1, "txid": "echo", "body": (hdr + peer_bytes(rng, n, stride, dup)).hex()}


def gen_cases(ctx):
    """hook cases: dicts {name, v6, ih, s1: [templates], s2: [templates]}"""
    rng = ctx.rng
    v6ok = have_v6()
    cases = []

    def add(name, s1, s2, v6=False, ih=None):
        if v6 and not v6ok:
            ctx.count("skipped_no_ipv6")
            return
        cases.append({"name": name, "v6": v6, "ih": (ih or bytes(rng.getrandbits(8) for _ in range(20))).hex(), "s1": s1, "s2": s2})

    # --- regression corpus first: replies longer than the former 8192-byte receive buffer (fixed defect: they were cut
    # silently), up to the largest datagrams UDP can carry
    add("announce-1363-peers-oversize", [good_connect(rng)], [good_announce(rng, 1363, 6)])
    add("announce-455-peers-oversize", [good_connect(rng)], [good_announce(rng, 455, 18)], True)
    add("announce-65000-bytes", [good_connect(rng)], [good_announce(rng, 10830, 6)])
    add("announce-65000-bytes", [good_connect(rng)], [good_announce(rng, 3610, 18)], True)
    add("announce-65504-bytes-ipv4-maximum", [good_connect(rng)], [good_announce(rng, 10914, 6)])
    add("announce-65522-bytes-ipv6-maximum", [good_connect(rng)], [good_announce(rng, 3639, 18)], True)
    # --- deterministic matrix: every announce reply length 0..40, both families
    for v6 in (False, True):
        stride = 18 if v6 else 6
        for ln in range(0, 41):
            t = good_announce(rng, 4, stride)
            t["cut"] = ln
            add("announce-len-%d" % ln, [good_connect(rng)], [t], v6)
        for n in (0, 1, 2, 3, 50, 200):
            add("announce-%d-peers" % n, [good_connect(rng)], [good_announce(rng, n, stride, dup=(n == 50))], v6)
    # every connect reply length 0..20 (longer than 16 is fine by BEP 15)
    for ln in range(0, 21):
        t = good_connect(rng, extra=4)
        t["cut"] = ln
        add("connect-len-%d" % ln, [t], [good_announce(rng, 2, 6)])
    # header perturbations
    for mode in ("plus1", "zero", "swap", "flip0", "flip7", "flip8", "flip31"):
        add("connect-txid-" + mode, [dict(good_connect(rng), txid=mode)], [good_announce(rng, 2, 6)])
        add("announce-txid-" + mode, [good_connect(rng)], [dict(good_announce(rng, 2, 6), txid=mode)])
    add("announce-txid-prev", [good_connect(rng)], [dict(good_announce(rng, 2, 6), txid="prev")])
    for a in (1, 2, 3, 0xffff, 0x01000000, 0xffffffff):
        add("connect-action-%d" % a, [dict(good_connect(rng), action=a)], [good_announce(rng, 2, 6)])
    for a in (0, 2, 3, 0xffff, 0x01000000, 0xffffffff):
        add("announce-action-%d" % a, [good_connect(rng)], [dict(good_announce(rng, 2, 6), action=a)])
    add("announce-error-message", [good_connect(rng)], [{"action": 3, "txid": "echo", "body": b"torrent not registered".hex()}])
    add("connect-error-message", [{"action": 3, "txid": "echo", "body": b"connection refused by policy".hex()}], [good_announce(rng, 1, 6)])
    # error-action replies cut at every length up to a full header and a little more (added after seeded change C12-7: the error
    # message sliced from offset 8 without a length guard)
    for ln in range(0, 13):
        add("announce-error-cut-%d" % ln, [good_connect(rng)], [{"action": 3, "txid": "echo", "body": b"nope".hex(), "cut": ln}])
        add("connect-error-cut-%d" % ln, [{"action": 3, "txid": "echo", "body": b"nope".hex(), "cut": ln}], [good_announce(rng, 1, 6)])
    add("announce-empty-datagram", [good_connect(rng)], [{"raw": ""}])
    add("connect-empty-datagram", [{"raw": ""}], [good_announce(rng, 1, 6)])
    add("announce-gets-connect-reply", [good_connect(rng)], [good_connect(rng)])
    for v6 in (False, True):
        stride = 18 if v6 else 6
        for extra in (1, 2, stride - 1, stride + 1):
            t = good_announce(rng, 3, stride)
            t["body"] += "ab" * extra
            add("announce-ragged-%d" % extra, [good_connect(rng)], [t], v6)
    add("announce-1362-peers-8192-bytes", [good_connect(rng)], [good_announce(rng, 1362, 6)])

    for cid in SPECIAL_CONN:
        add("connect-id-%#x" % cid, [good_connect(rng, conn=cid)], [good_announce(rng, 3, 6)])
    # the same record several times, adjacent and apart, in one reply: printed once
    rec = [bytes(rng.getrandbits(8) for _ in range(6)) for _ in range(3)]
    hdr12 = struct.pack(">III", 1800, 1, 2).hex()
    for name, order in (("apart", [0, 1, 0]), ("adjacent", [0, 0, 1]), ("apart-twice", [0, 1, 2, 0, 1]), ("all-same", [2, 2, 2, 2])):
        add("announce-repeat-" + name, [good_connect(rng)], [{"action": 1, "txid": "echo", "body": hdr12 + b"".join(rec[i] for i in order).hex()}])
    # --- random streams
    n_random = ctx.n(1500, 100000)
    for _ in range(n_random):
        v6 = v6ok and rng.random() < 0.3
        stride = 18 if v6 else 6
        r = rng.random()
        c = good_connect(rng, extra=rng.choice((0, 0, 0, 1, 7)))
        a = good_announce(rng, rng.choice((0, 1, 2, 5, 30, rng.randrange(0, 201))), stride, dup=rng.random() < 0.3)
        name = "random-valid"
        if r < 0.6:
            pass
        else:
            name = "random-malformed"
            which = rng.randrange(10)
            if which == 0:
                c["txid"] = rng.choice(("plus1", "zero", "swap", "flip%d" % rng.randrange(32)))
            elif which == 1:
                c["action"] = rng.choice((1, 2, 3, rng.getrandbits(32)))
            elif which == 2:
                c["cut"] = rng.randrange(0, 16)
            elif which == 3:
                a["txid"] = rng.choice(("plus1", "zero", "swap", "prev", "flip%d" % rng.randrange(32)))
            elif which == 4:
                a["action"] = rng.choice((0, 2, 3, rng.getrandbits(32)))
            elif which == 5:
                a["cut"] = rng.randrange(0, 20)
            elif which == 6:
                full = 8 + len(a["body"]) // 2
                a["cut"] = rng.randrange(20, full + 1)
            elif which == 7:
                a["body"] += "00" * rng.randrange(1, stride)
            elif which == 8:
                a = {"raw": bytes(rng.getrandbits(8) for _ in range(rng.randrange(0, 64))).hex()}
            else:
                c = {"raw": bytes(rng.getrandbits(8) for _ in range(rng.randrange(0, 40))).hex()}
        add(name, [c], [a], v6)

    # --- drop patterns (each dropped request costs a real 3 s timeout)
    pats = [(1, 0), (2, 0), (0, 1), (0, 2), (3, 0), (0, 3)]
    if ctx.thorough:
        pats = [(i, j) for i in range(4) for j in range(4)]
    for k1, k2 in pats:
        add("drop-%d-%d" % (k1, k2), [None] * k1 + [good_connect(rng)], [None] * k2 + [good_announce(rng, 3, 6)])
    if ctx.thorough and v6ok:
        add("drop-1-1-v6", [None, good_connect(rng)], [None, good_announce(rng, 3, 18)], True)
    cases.append({"name": "closed-port", "v6": False, "ih": "11" * 20, "s1": [], "s2": [], "closed": True})
    return cases


# ---------------------------------------------------------------- the scripted tracker

class Tracker:
    """One scripted UDP tracker on loopback. Phase 1 (connect) lasts until a BEP 15-valid connect reply has been
    sent; every datagram received is recorded with the reply sent for it."""

    def __init__(self, v6, s1, s2, closed=False):
        fam = socket.AF_INET6 if v6 else socket.AF_INET
        self.host = "::1" if v6 else "127.0.0.1"
        self.sock = socket.socket(fam, socket.SOCK_DGRAM)
        self.sock.bind((self.host, 0))
        self.port = self.sock.getsockname()[1]
        self.sock.setblocking(False)
        self.v6, self.s1, self.s2 = v6, s1, s2
        self.phase, self.recv1, self.recv2, self.sent1, self.sent2 = 1, [], [], [], []
        self.conn_id, self.txid1 = None, 0
        self.send_failed = None      # the OS refused to send a scripted reply (too large for this loopback): case skipped
        self.closed = closed
        if closed:
            self.sock.close()

    @property
    def addr(self):
        return ("[%s]:%d" if self.v6 else "%s:%d") % (self.host, self.port)

    def pump(self):
        """handle everything that is waiting on the socket"""
        if self.closed:
            return
        while True:
            try:
                d, a = self.sock.recvfrom(65536)
            except (BlockingIOError, OSError):
                return
            if self.phase == 1:
                idx = len(self.recv1)
                self.recv1.append(d)
                t = self.s1[idx] if idx < len(self.s1) else None
                rep = build_reply(t, d, 0)
                self.sent1.append(rep)
                if rep is not None:
                    self.sock.sendto(rep, a)
                    if reply_valid(rep, 0, txid_of(d), 16):
                        self.phase, self.conn_id, self.txid1 = 2, struct.unpack(">Q", rep[8:16])[0], txid_of(d)
            else:
                idx = len(self.recv2)
                self.recv2.append(d)
                t = self.s2[idx] if idx < len(self.s2) else None
                rep = build_reply(t, d, self.txid1)
                self.sent2.append(rep)
                if rep is not None:
                    try:
                        self.sock.sendto(rep, a)
                    except OSError as e:
                        self.send_failed = "%d-byte reply: %r" % (len(rep), e)

    def close(self):
        if not self.closed:
            self.sock.close()
            self.closed = True


class HarnessWorker:
    def __init__(self, exe):
        self.p = subprocess.Popen([exe], stdin=subprocess.PIPE, stdout=subprocess.PIPE, stderr=subprocess.DEVNULL, bufsize=0)

    def run(self, case):
        tr = Tracker(case["v6"], case["s1"], case["s2"], case.get("closed", False))
        try:
            self.p.stdin.write(("announce %s %s\n" % (lib.hexs(tr.addr), case["ih"])).encode())
            self.p.stdin.flush()
            deadline = time.time() + 60
            out, acc = None, b""
            fds = [self.p.stdout] + ([] if tr.closed else [tr.sock])
            while time.time() < deadline:
                r, _, _ = select.select(fds, [], [], 1.0)
                tr.pump()
                if self.p.stdout in r:
                    chunk = os.read(self.p.stdout.fileno(), 1 << 16)
                    if not chunk:
                        break
                    acc += chunk
                    if acc.endswith(b"\n"):
                        out = acc.decode().rstrip("\n")
                        break
            tr.pump()
            if out is None or out == "":
                out = "DIED (no reply from the harness after %.1fs; harness exit status %r)" % (time.time() - deadline + 60, self.p.poll())
            return tr, out
        finally:
            tr.close()

    def stop(self):
        try:
            self.p.stdin.close()
            self.p.wait(timeout=5)
        except Exception:
            self.p.kill()


def run_hook_cases(ctx, cases):
    """-> list of (tracker, harness reply) in case order; 16 workers, slow (drop) cases first"""
    order = sorted(range(len(cases)), key=lambda i: (0 if cases[i]["name"].startswith("drop") else 1, i))
    res = [None] * len(cases)
    lock = threading.Lock()
    pos = [0]
    retried = []

    def worker():
        w = HarnessWorker(ctx.bins["harness"])
        try:
            while True:
                with lock:
                    if pos[0] >= len(order):
                        return
                    i = order[pos[0]]
                    pos[0] += 1
                try:
                    res[i] = w.run(cases[i])
                    if res[i][1].startswith("DIED"):
                        # the harness process went away or stayed silent: once more with a fresh process; a client
                        # that really aborts on this input does so again and is then reported
                        lib.log("C12: %s on case %s - retrying with a fresh harness" % (res[i][1], cases[i]["name"]))
                        retried.append(cases[i]["name"])
                        w.stop()
                        w = HarnessWorker(ctx.bins["harness"])
                        res[i] = w.run(cases[i])
                except Exception as e:   # infrastructure (socket) trouble: retry once with a fresh process
                    w.stop()
                    w = HarnessWorker(ctx.bins["harness"])
                    try:
                        res[i] = w.run(cases[i])
                    except Exception as e2:
                        res[i] = (None, "INFRA %r" % (e2,))
        finally:
            w.stop()

    ths = [threading.Thread(target=worker) for _ in range(lib.NCPU)]
    for t in ths:
        t.start()
    for t in ths:
        t.join()
    if retried:
        ctx.count("harness_silent_retries", len(retried))
    return res


# ---------------------------------------------------------------- model side and the judge

def ans_field(sent):
    return ",".join("x" if r is None else lib.hexs(r) for r in sent) if sent else "~"


def model_line(tr, ih):
    """the extracted model is run on the values observed on the wire (read at the BEP 15 offsets)"""
    t1 = txid_of(tr.recv1[0]) if tr.recv1 else 0
    if tr.recv2 and len(tr.recv2[0]) >= 98:
        d = tr.recv2[0]
        t2, pid, port = txid_of(d), d[36:56], struct.unpack(">H", d[96:98])[0]
    else:
        t2, pid, port = 0, bytes(20), 0
    return "tracker %d %d %s %s %d %d %s %s" % (t1, t2, ih, pid.hex(), port, 1 if tr.v6 else 0,
                                               ans_field(tr.sent1), ans_field(tr.sent2))


def expected_sends(script, got_any_reply_idx):
    return min(3, got_any_reply_idx + 1) if got_any_reply_idx is not None else 3


def first_reply_index(script):
    for i, t in enumerate(script[:3]):
        if t is not None:
            return i
    return None


def judge(case, tr, peers, failed, crashed):
    """The direct oracle: the property's own words over what the tracker saw and what imdl reported.
    peers: list of (packed ip, port) or None; failed: a failure was reported; crashed: panic / signal.
    Returns (list of problems, known-finding key or None)."""
    bad, key = [], None
    ih = bytes.fromhex(case["ih"])
    stride = 18 if case["v6"] else 6
    if crashed:
        bad.append("the client crashed")
    if case.get("closed"):
        if peers is not None:
            bad.append("peers reported although nothing answered")
        return bad, key
    # connect phase
    if not tr.recv1:
        bad.append("no connect request was sent")
        return bad, key
    fr = first_reply_index(case["s1"])
    if tr.phase == 1 and fr is not None and len(tr.recv1) > fr + 1:
        bad.append("the client kept sending (%d-byte datagram) after a connect reply that is too short or does not echo action 0 and "
                   "the transaction id" % len(tr.recv1[fr + 1]))
        if peers is not None:
            bad.append("peers reported without a valid connect reply")
        return bad, key
    for d in tr.recv1:
        bad += bep15_connect_request(d)
    if any(d != tr.recv1[0] for d in tr.recv1):
        bad.append("retransmitted connect requests differ")
    want1 = expected_sends(case["s1"], first_reply_index(case["s1"]))
    if len(tr.recv1) > 3:
        bad.append("connect request sent %d times (more than three)" % len(tr.recv1))
    elif len(tr.recv1) != want1 and not bad:
        bad.append("connect request sent %d times, expected %d for this drop pattern" % (len(tr.recv1), want1))
    if tr.phase == 1:
        # no valid connect reply was ever sent: nothing may be announced, nothing may be reported
        if peers is not None:
            bad.append("peers reported without a valid connect reply")
        elif not failed and not crashed:
            bad.append("no failure reported although the connect exchange cannot have succeeded")
        return bad, key
    # announce phase
    if not tr.recv2:
        if peers is not None:
            bad.append("peers reported although no announce request was sent")
        bad.append("valid connect reply but no announce request followed")
        return bad, key
    for d in tr.recv2:
        bad += bep15_announce_request(d, ih, tr.conn_id)
    if any(d != tr.recv2[0] for d in tr.recv2):
        bad.append("retransmitted announce requests differ")
    if len(tr.recv2) > 3:
        bad.append("announce request sent %d times (more than three)" % len(tr.recv2))
    else:
        want2 = expected_sends(case["s2"], first_reply_index(case["s2"]))
        if len(tr.recv2) != want2 and not bad:
            bad.append("announce request sent %d times, expected %d for this drop pattern" % (len(tr.recv2), want2))
    rep = next((r for r in tr.sent2 if r is not None), None)
    ok = rep is not None and len(tr.recv2) >= 1 and reply_valid(rep, 1, txid_of(tr.recv2[0]), 20)
    recs = records(rep[20:], stride) if ok else None
    if recs is None:
        if peers is not None:
            why = ("no announce reply" if rep is None else "the reply does not echo action/transaction id or is too short"
                   if not ok else "the peer list is ragged")
            bad.append("peers %r reported although %s" % (peers[:3], why))
        elif not failed and not crashed:
            bad.append("no failure reported for an unusable announce reply")
    else:
        if peers is None:
            bad.append("a valid announce reply with %d records was not used" % len(recs))
        elif peers != recs:
            if len(peers) < len(recs) and peers == recs[:len(peers)]:
                bad.append("valid reply of %d bytes lists %d peers but only the first %d are reported (the reply was cut silently)"
                           % (len(rep), len(recs), len(peers)))
            else:
                extra = [p for p in peers if p not in recs]
                bad.append("reported peers differ from the reply's records (%d reported, %d records, %d not in the reply)"
                           % (len(peers), len(recs), len(extra)))
    return bad, key


def translated():
    p = os.path.join(lib.COQ, "Generated", "GenTracker.v")
    return "Definition translated : bool := true." in open(p).read()


def canon_impl(reply):
    """harness reply -> (peers or None, failed, crashed)"""
    if reply.startswith("OK"):
        f = reply.split(" ")
        items = lib.unhexlist(f[1]) if len(f) > 1 else []
        return [parse_printed_peer(x.decode()) for x in items], False, False
    if reply.startswith("ERR"):
        return None, True, False
    return None, False, True


def canon_model(reply):
    """-> (n1, d1, n2, d2, kind, peers)"""
    f = reply.split(" ")
    if f[0] != "OK" or len(f) != 7:
        return None
    peers = None
    if f[5] == "peers":
        peers = []
        if f[6] != "~":
            for it in f[6].split(","):
                ip, port = it.split(":")
                peers.append((lib.unhex(ip), int(port)))
    return int(f[1]), lib.unhex(f[2]), int(f[3]), lib.unhex(f[4]), f[5], peers


def case_record(case, tr, impl, model):
    return {"case": case, "tracker_addr": tr.addr if tr else None,
            "received_connect": [d.hex() for d in tr.recv1] if tr else None,
            "sent_connect": [None if r is None else r.hex() for r in tr.sent1] if tr else None,
            "received_announce": [d.hex() for d in tr.recv2] if tr else None,
            "sent_announce": [None if r is None else r.hex()[:400] for r in tr.sent2] if tr else None,
            "impl": impl[:600], "model": (model or "")[:600],
            "reproduce": "./check C12 --replay <this file>   (runs a tracker scripted with case.s1 / case.s2 and feeds "
                         "`announce <hex addr> %s` to the hook harness; for the binary: imdl torrent announce --input T with "
                         "T's announce = udp://<tracker>)" % case["ih"]}


def compare(ctx, case, tr, impl, model):
    """one hook case: oracle first, then model/implementation correspondence"""
    ctx.cov["evaluations"] += 1
    rec = case_record(case, tr, impl, model)
    if tr is None or impl.startswith("INFRA"):
        ctx.violation("infrastructure", "tracker simulator / harness failed for case %s: %s" % (case["name"], impl), rec)
        return
    if tr.send_failed:
        ctx.count("skipped_reply_not_sendable_on_this_loopback")
        ctx.notes.append("case %s skipped: %s" % (case["name"], tr.send_failed))
        return
    try:
        peers, failed, crashed = canon_impl(impl)
    except Exception as e:
        ctx.violation("oracle-failure", "case %s: the client reported something that is not a socket address: %r" % (case["name"], e), rec)
        return
    bad, key = judge(case, tr, peers, failed, crashed)
    ctx.count("kind:" + re.sub(r"-\d+.*$", "", case["name"]))
    ctx.count("outcome:" + ("peers" if peers is not None else "crash" if crashed else "failure"))
    ctx.count("family:" + ("v6" if case["v6"] else "v4"))
    if peers is not None:
        ctx.count("peers_bucket:%s" % ("0" if not peers else "1-9" if len(peers) < 10 else "10-99" if len(peers) < 100 else "100+"))
    sig = (re.sub(r"\d+", "#", case["name"]), case["v6"], len(tr.recv1), len(tr.recv2),
           None if peers is None else min(len(peers), 50), [None if r is None else min(len(r), 64) for r in tr.sent2[:3]],
           [None if r is None else len(r) for r in tr.sent1[:3]])
    ctx.distinct(repr(sig))
    if bad:
        ctx.violation("oracle-failure", "case %s: %s" % (case["name"], "; ".join(bad[:4])), dict(rec, oracle=bad), key=key)
    if not translated():
        return      # the tables are the fallback ones: the broken obligation is reported, the model says nothing
    m = canon_model(model) if model else None
    if m is None:
        ctx.violation("infrastructure", "model runner gave %r for case %s" % (model, case["name"]), rec)
        return
    ctx.cov["traces_validated_against_impl"] += 1
    if case.get("closed"):
        diffs = [] if (m[4] == "fail") == failed else ["result class differs"]
    else:
        n1, d1, n2, d2, kind, mpeers = m
        diffs = []
        if n1 != len(tr.recv1):
            diffs.append("connect sends: model %d, implementation %d" % (n1, len(tr.recv1)))
        if any(d != d1 for d in tr.recv1):
            diffs.append("connect datagram: model %s, implementation %s" % (d1.hex(), tr.recv1[0].hex()))
        if n2 != len(tr.recv2):
            diffs.append("announce sends: model %d, implementation %d" % (n2, len(tr.recv2)))
        if any(d != d2 for d in tr.recv2):
            diffs.append("announce datagram: model %s, implementation %s" % (d2.hex(), tr.recv2[0].hex()))
        if (kind == "peers") != (peers is not None) or (kind == "fail") != failed or (kind == "panic") != crashed:
            diffs.append("result class: model %s, implementation %s" % (kind, impl[:40]))
        elif kind == "peers" and mpeers != peers:
            diffs.append("peer lists differ (model %d, implementation %d)" % (len(mpeers), len(peers)))
    if diffs and not bad:
        ctx.cov["disagreements_checked"] += 1
        ctx.violation("model-impl-disagreement", "case %s: %s; the oracle finds nothing wrong" % (case["name"], "; ".join(diffs)),
                      dict(rec, diffs=diffs))


# ---------------------------------------------------------------- the real binary

def serve_until(trackers, done, extra_socks=()):
    while not done.is_set():
        socks = [t.sock for t in trackers if not t.closed]
        if not socks:
            time.sleep(0.05)
            continue
        try:
            select.select(socks, [], [], 0.1)
        except (OSError, ValueError):
            pass
        for t in trackers:
            t.pump()
    for t in trackers:
        t.pump()


def make_torrent(urls, shape="five-bytes"):
    """shape: what the torrent's content is - the request must not depend on it (in particular `left` stays non-zero for a
    torrent without content; added after seeded change C12-8)"""
    if shape == "empty-file":
        info = ("d", [(b"length", 0), (b"name", b"x"), (b"piece length", 16384), (b"pieces", b"")])
    elif shape == "empty-files":
        info = ("d", [(b"files", [("d", [(b"length", 0), (b"path", [b"a"])]), ("d", [(b"length", 0), (b"path", [b"b"])])]),
                      (b"name", b"x"), (b"piece length", 16384), (b"pieces", b"")])
    elif shape == "extra-keys":
        # keys of the info dictionary that imdl does not model (BEP 52 hybrid, vendor keys): the infohash on the wire is the
        # SHA-1 of the dictionary as stored, not of imdl's typed re-serialisation (added after seeded change C12-10)
        info = ("d", [(b"length", 5), (b"meta version", 2), (b"name", b"x"), (b"piece length", 16384), (b"pieces", b"a" * 20),
                      (b"x-cross-seed", b"abc"), (b"zz vendor", ("d", [(b"k", [1, 2])]))])
    elif shape == "large":
        info = ("d", [(b"length", (1 << 40) + 1), (b"name", b"x"), (b"piece length", 1 << 24), (b"pieces", b"a" * 20)])
    else:
        info = ("d", [(b"length", 5), (b"name", b"x"), (b"piece length", 16384), (b"pieces", b"a" * 20)])
    top = [(b"announce", urls[0].encode())] if urls else []
    if len(urls) > 1:
        top.append((b"announce-list", [[u.encode()] for u in urls]))
    top.append((b"info", info))
    data = lib.bencode(("d", top))
    return data, hashlib.sha1(lib.info_span(data)).digest()


def gen_e2e(ctx):
    rng = ctx.rng
    v6ok = have_v6()
    out = []
    # regression corpus first: a reply longer than the former 8192-byte buffer, and one near the UDP maximum
    out.append({"name": "e2e-oversize-1363", "cmd": "announce",
                "specs": [{"t": "udp", "kind": "valid-oversize", "v6": False, "s1": [good_connect(rng)], "s2": [good_announce(rng, 1363, 6, dup=True)]}]})
    out.append({"name": "e2e-oversize-65000", "cmd": "announce",
                "specs": [{"t": "udp", "kind": "valid-oversize", "v6": False, "s1": [good_connect(rng)], "s2": [good_announce(rng, 10830, 6)]},
                          {"t": "http"}]})
    n = ctx.n(36, 400)
    for i in range(n):
        specs = []
        for _ in range(rng.choice((1, 1, 2, 3))):
            v6 = v6ok and rng.random() < 0.25
            stride = 18 if v6 else 6
            r = rng.random()
            c, a = good_connect(rng), good_announce(rng, rng.choice((0, 1, 3, 20, 150)), stride, dup=True)
            if r < 0.55:
                kind = "valid"
                if rng.random() < 0.4:
                    hosts = [bytes([127, 0, 0, 1]), bytes([10, 9, 8, 7]), bytes(rng.getrandbits(8) for _ in range(4))]
                    if v6:
                        hosts = [bytes(15) + b"\x01", bytes.fromhex("20010db8") + bytes(rng.getrandbits(8) for _ in range(12))]
                    a = dict(a, echo_port=[h.hex() for h in rng.sample(hosts, rng.randrange(1, len(hosts) + 1))])
            elif r < 0.65:
                kind, a = "bad-txid", dict(a, txid=rng.choice(("plus1", "swap", "prev")))
            elif r < 0.72:
                kind, a = "error-action", {"action": 3, "txid": "echo", "body": b"denied".hex()}
            elif r < 0.80:
                kind, a = "truncated", dict(a, cut=rng.randrange(0, 20))
            elif r < 0.88:
                kind = "ragged"
                a["body"] += "00" * rng.randrange(1, stride)
            elif r < 0.94:
                kind, c = "bad-connect", dict(c, txid="plus1")
            else:
                kind, c = "short-connect", dict(c, cut=rng.randrange(0, 16))
            specs.append({"t": "udp", "kind": kind, "v6": v6, "s1": [c], "s2": [a]})
        for _ in range(rng.choice((0, 0, 1, 2))):
            specs.append({"t": rng.choice(("http", "https", "portless", "wss", "garbage"))})
        rng.shuffle(specs)
        # shared duplicate peers across trackers: reuse the first valid tracker's body in another one
        out.append({"name": "e2e-%d" % i, "specs": specs, "cmd": "announce",
                    "shape": ("five-bytes", "empty-file", "empty-files", "large", "extra-keys")[i % 5]})
    # the same peer reported by several trackers of one torrent is printed once (added after seeded change C18-7 / C12: the set of
    # printed peers kept per tracker instead of per run)
    recs = [bytes([10, 0, 0, k]) + struct.pack(">H", 6880 + k) for k in range(1, 5)]
    hdr = struct.pack(">III", 1800, 1, 2)
    def shared(*idx):
        return {"action": 1, "txid": "echo", "body": (hdr + b"".join(recs[i] for i in idx)).hex()}
    for name, bodies in (("two-overlap", [(0, 1), (0, 2)]), ("three-overlap", [(0, 1), (2, 0), (1, 3, 0)]), ("identical", [(0, 1), (0, 1)]),
                         ("overlap-and-repeat", [(0, 0, 1), (1, 2, 1)])):
        out.append({"name": "e2e-shared-peers-" + name, "cmd": "announce",
                    "specs": [{"t": "udp", "kind": "valid", "v6": False, "s1": [good_connect(rng)], "s2": [shared(*b)]} for b in bodies]})
    # more trackers than imdl may hold open files (its limit lowered to 48): one socket at a time is enough (added after seeded
    # change C12-11: every tracker client built before the first exchange)
    for k, lim in ((70, 48),) + (((300, 64),) if ctx.thorough else ()):
        out.append({"name": "e2e-%d-trackers-nofile-%d" % (k, lim), "cmd": "announce", "nofile": lim, "shape": "extra-keys",
                    "specs": [{"t": "udp", "kind": "valid", "v6": False, "s1": [good_connect(rng)],
                               "s2": [{"action": 1, "txid": "echo",
                                       "body": (hdr + bytes([10, 1, j // 250, j % 250 + 1]) + struct.pack(">H", 7000 + j)).hex()}]}
                              for j in range(k)]})
    # all trackers unusable
    out.append({"name": "e2e-only-http", "specs": [{"t": "http"}], "cmd": "announce"})
    out.append({"name": "e2e-only-portless", "specs": [{"t": "portless"}, {"t": "garbage"}], "cmd": "announce"})
    out.append({"name": "e2e-no-trackers", "specs": [], "cmd": "announce"})
    # from-link
    for i in range(ctx.n(4, 40)):
        a = good_announce(rng, rng.choice((0, 1, 2)), 6)
        # peers that refuse immediately: loopback, low ports
        body = bytes.fromhex(a["body"])[:12] + b"".join(bytes([127, 0, 0, 1]) + struct.pack(">H", rng.randrange(1, 20))
                                                         for _ in range(rng.choice((0, 1, 2, 2))))
        if rng.random() < 0.5 and len(body) > 12:
            body += body[12:18]     # a duplicate record
        a["body"] = body.hex()
        specs = [{"t": "udp", "kind": "valid", "v6": False, "s1": [good_connect(rng)], "s2": [a]}]
        if i % 2:
            specs.append({"t": "http"})
        # an unusable tracker listed BEFORE the usable one must be skipped, not end the whole fan-out (added after seeded
        # change C12-9: try_for_each over the trackers); with one worker thread the order is deterministic
        if i % 4 in (1, 2):
            specs.insert(0, {"t": ("http", "portless", "https", "garbage")[(i // 4) % 4]})
        if i % 3 == 2:
            specs.append({"t": "udp", "kind": "bad-txid", "v6": False, "s1": [good_connect(rng)],
                          "s2": [dict(good_announce(rng, 1, 6), txid="plus1")]})
        if i % 3 == 1:
            # a reply that must be refused as a whole although whole records stand in front of what is wrong with it: none of
            # them is a peer (added after seeded change C12-13: from-link took the records decoded before the stray bytes)
            b = good_announce(rng, rng.choice((1, 2, 5)), 6)
            b["body"] = (bytes.fromhex(b["body"])[:12] + b"".join(bytes([127, 0, 0, 1]) + struct.pack(">H", rng.randrange(1, 20))
                                                                   for _ in range(rng.choice((1, 2, 3)))) + bytes(rng.randrange(1, 6))).hex()
            specs.append({"t": "udp", "kind": "ragged", "v6": False, "s1": [good_connect(rng)], "s2": [b]})
        out.append({"name": "fromlink-%d" % i, "specs": specs, "cmd": "from-link", "one_thread": i % 2 == 0 or i % 4 == 1})
    # more answering trackers than worker threads: every reply is collected, nothing waits for a reader that comes later
    # (added after seeded change C12-12: a bounded channel drained only after the parallel loop)
    for k, threads in ((5, 2), (24, None)):
        specs = []
        for j in range(k):
            a = good_announce(rng, 1, 6)
            a["body"] = (bytes.fromhex(a["body"])[:12] + bytes([127, 0, 0, 1]) + struct.pack(">H", 1 + j % 19)).hex()
            specs.append({"t": "udp", "kind": "valid", "v6": False, "s1": [good_connect(rng)], "s2": [a]})
        out.append({"name": "fromlink-%d-answering-trackers-%s-threads" % (k, threads or "default"), "specs": specs,
                    "cmd": "from-link", "threads": threads, "timeout": 45})
    return out


def run_e2e_case(ctx, ec, tmp):
    """-> dict with trackers, urls, rc, stdout, stderr"""
    trackers, urls, decoys = [], [], []
    for sp in ec["specs"]:
        if sp["t"] == "udp":
            tr = Tracker(sp["v6"], sp["s1"], sp["s2"])
            trackers.append(tr)
            sp["_tr"] = tr
            # the request string of the tracker URL varies (a passkey, a key in the path, a trailing separator, none at all): BEP 15's
            # announce request is 98 bytes whatever the URL says (added after seeded change C12-17: BEP 41 URL data appended)
            urls.append("udp://%s%s" % (tr.addr, ("/announce", "/announce", "/announce?passkey=0123456789abcdef", "/k3y/announce", "/announce/", "",
                                                  "/", "/scrape", "/a%20b/announce?x=1&y=2")[(len(urls) + zlib.crc32(ec["name"].encode())) % 9]))
        elif sp["t"] in ("http", "https", "wss"):
            dec = Tracker(False, [], [])     # listens on UDP at the port named by the non-UDP URL: must stay silent
            decoys.append(dec)
            sp["_tr"] = dec
            urls.append("%s://127.0.0.1:%d/announce" % (sp["t"], dec.port))
        elif sp["t"] == "portless":
            urls.append("udp://127.0.0.1/announce?n=%d" % len(urls))
        else:
            urls.append("not a url at all %d" % len(urls))
    d = tempfile.mkdtemp(dir=tmp)
    done = threading.Event()
    th = threading.Thread(target=serve_until, args=(trackers + decoys, done))
    th.start()
    try:
        if ec["cmd"] == "announce":
            data, ih = make_torrent(urls, ec.get("shape", "five-bytes"))
            with open(os.path.join(d, "t.torrent"), "wb") as f:
                f.write(data)
            argv = ["torrent", "announce", "--input", "t.torrent"]
        else:
            ih = hashlib.sha1(("fromlink" + ec["name"]).encode()).digest()
            link = "magnet:?xt=urn:btih:%s" % ih.hex() + "".join("&tr=" + u for u in urls if " " not in u)
            argv = ["torrent", "from-link", link, "--output", "out.torrent"]
        env = {"NO_COLOR": "1", "TERM": "dumb"}
        if ec.get("one_thread"):
            env["RAYON_NUM_THREADS"] = "1"
        if ec.get("threads"):
            env["RAYON_NUM_THREADS"] = str(ec["threads"])
        rc, out, err = ctx.imdl(argv, cwd=d, env=env, timeout=ec.get("timeout", 120), nofile=ec.get("nofile"))
    finally:
        done.set()
        th.join()
        for t in trackers + decoys:
            t.close()
    return {"urls": urls, "argv": argv, "ih": ih, "rc": rc, "stdout": out.decode("utf-8", "replace"),
            "stderr": err.decode("utf-8", "replace"), "wrote": os.path.exists(os.path.join(d, "out.torrent")), "dir": d}


def judge_e2e(ctx, ec, res):
    """direct oracle for a run of the real binary"""
    bad, keys = [], set()
    rc, out, err = res["rc"], res["stdout"], res["stderr"]
    if rc < 0 or rc not in (0, 1) or "panicked" in err:
        bad.append("imdl crashed (exit status %d)" % rc)
    want, usable, unusable = [], 0, 0
    for sp in ec["specs"]:
        if sp["t"] != "udp":
            unusable += 1
            tr = sp.get("_tr")
            if tr is not None and (tr.recv1 or tr.recv2):
                bad.append("a datagram was sent to the non-UDP tracker's port")
            continue
        tr = sp["_tr"]
        case = {"v6": sp["v6"], "ih": res["ih"].hex(), "s1": sp["s1"], "s2": sp["s2"]}
        # per-tracker wire conformance, judged with "peers unknown": only the request side and the gating
        rep = next((r for r in tr.sent2 if r is not None), None)
        ok = tr.phase == 2 and rep is not None and tr.recv2 and reply_valid(rep, 1, txid_of(tr.recv2[0]), 20)
        recs = records(rep[20:], 18 if sp["v6"] else 6) if ok else None
        b, _ = judge(case, tr, recs, recs is None, False)
        bad += ["tracker %s: %s" % (tr.addr, x) for x in b]
        if tr.phase == 2:
            usable += 1
        else:
            unusable += 1
        if recs is None:
            unusable += 0 if tr.phase == 1 else 1
        else:
            want += recs
        sp["_recs"] = recs
    lines = [l for l in out.splitlines() if l.strip()]
    errlines = [l for l in err.splitlines() if l.strip()]
    if ec["cmd"] == "announce":
        try:
            printed = [parse_printed_peer(l.strip()) for l in lines]
        except Exception as e:
            bad.append("stdout has a line that is not a peer address: %r" % e)
            printed = []
        if len(set(printed)) != len(printed):
            bad.append("a peer is printed more than once")
        if set(printed) != set(want):
            inv = [p for p in printed if p not in set(want)]
            mis = [p for p in set(want) if p not in set(printed)]
            bad.append("printed peers differ from the records of the accepted replies (%d invented, %d missing)" % (len(inv), len(mis)))
        if usable and rc != 0:
            bad.append("exit status %d although %d tracker(s) completed the connect exchange" % (rc, usable))
        if not usable and rc == 0:
            bad.append("exit status 0 although no tracker was usable")
        failures = sum(1 for sp in ec["specs"] if sp["t"] != "udp" or sp.get("_recs") is None)
        if len(errlines) < failures:
            bad.append("%d tracker(s) were skipped or failed but only %d message line(s) were written" % (failures, len(errlines)))
    else:
        if lines:
            bad.append("from-link wrote to stdout")
        m = re.search(r"returned (\d+) peers", err)
        if m:
            if int(m.group(1)) != len(set(want)):
                bad.append("from-link counted %s peers, the accepted replies hold %d distinct records" % (m.group(1), len(set(want))))
        else:
            ctx.count("fromlink_count_line_not_found")
        if rc == 0 or res["wrote"]:
            bad.append("from-link produced a torrent although no peer served metadata")
    return bad, keys, want


def e2e_record(ec, res, bad):
    specs = []
    for sp in ec["specs"]:
        s = {k: v for k, v in sp.items() if not k.startswith("_")}
        tr = sp.get("_tr")
        if tr is not None:
            s["received"] = [d.hex() for d in tr.recv1 + tr.recv2]
            s["sent"] = [None if r is None else r.hex()[:300] for r in tr.sent1 + tr.sent2]
        specs.append(s)
    return {"e2e": {"name": ec["name"], "cmd": ec["cmd"], "specs": specs}, "urls": res["urls"], "argv": ["imdl"] + res["argv"],
            "rc": res["rc"], "stdout": res["stdout"][:2000], "stderr": res["stderr"][:2000], "oracle": bad,
            "reproduce": "./check C12 --replay <this file>  (starts the scripted trackers of e2e.specs, writes the torrent / magnet "
                         "naming them and runs the real binary with the argv above)"}


def run_e2e(ctx):
    ecs = gen_e2e(ctx)
    tmp = tempfile.mkdtemp(prefix="c12-")
    try:
        results = lib.pmap(lambda ec: run_e2e_case(ctx, ec, tmp), ecs)
        # confirmation run for binary cases the oracle objects to (see run()); sequential, at most a handful
        sus = [i for i, (ec, res) in enumerate(zip(ecs, results)) if judge_e2e(ctx, ec, res)[0]]
        if 0 < len(sus) <= 6:
            for i in sus:
                results[i] = run_e2e_case(ctx, ecs[i], tmp)
            ctx.count("confirmation_reruns_binary", len(sus))
        # model side: each scripted tracker's session, and the de-duplication
        mlines, owners = [], []
        for ec, res in zip(ecs, results):
            for sp in ec["specs"]:
                if sp["t"] == "udp":
                    mlines.append(model_line(sp["_tr"], res["ih"].hex()))
                    owners.append((ec, sp))
        mres = ctx.model(mlines) if mlines else []
        for (ec, sp), m in zip(owners, mres):
            sp["_model"] = m
        plines = []
        for ec, res in zip(ecs, results):
            ctx.cov["evaluations"] += 1
            bad, keys, want = judge_e2e(ctx, ec, res)
            ctx.count("e2e:" + ec["cmd"])
            for sp in ec["specs"]:
                ctx.count("e2e_tracker:" + (sp.get("kind") or sp["t"]))
            ctx.distinct(repr((ec["cmd"], sorted((sp.get("kind") or sp["t"], sp.get("v6", False)) for sp in ec["specs"]), res["rc"], min(len(want), 40))))
            rec = e2e_record(ec, res, bad)
            if bad:
                ctx.violation("oracle-failure", "%s: %s" % (ec["name"], "; ".join(bad[:4])), rec)
                continue
            if not translated():
                continue
            # correspondence with the model
            diffs, mpeers_all = [], []
            for sp in ec["specs"]:
                if sp["t"] != "udp":
                    continue
                tr, m = sp["_tr"], canon_model(sp.get("_model", ""))
                if m is None:
                    ctx.violation("infrastructure", "model runner gave %r" % sp.get("_model"), rec)
                    continue
                ctx.cov["traces_validated_against_impl"] += 1
                n1, d1, n2, d2, kind, mpeers = m
                if n1 != len(tr.recv1) or any(d != d1 for d in tr.recv1):
                    diffs.append("connect phase differs for %s" % tr.addr)
                if n2 != len(tr.recv2) or any(d != d2 for d in tr.recv2):
                    diffs.append("announce phase differs for %s" % tr.addr)
                if (kind == "peers") != (sp.get("_recs") is not None):
                    diffs.append("result class differs for %s" % tr.addr)
                if mpeers:
                    mpeers_all += mpeers
            if ec["cmd"] == "announce":
                plines.append(("tprinted " + (",".join("%s:%d" % (ip.hex(), port) for ip, port in mpeers_all) or "~"), ec, res, rec, diffs))
            elif diffs:
                ctx.cov["disagreements_checked"] += 1
                ctx.violation("model-impl-disagreement", "%s: %s" % (ec["name"], "; ".join(diffs)), dict(rec, diffs=diffs))
        pres = ctx.model([p[0] for p in plines]) if plines else []
        for (line, ec, res, rec, diffs), pr in zip(plines, pres):
            f = pr.split(" ")
            mp = set()
            if f[0] == "OK" and len(f) > 1 and f[1] != "~":
                for it in f[1].split(","):
                    ip, port = it.split(":")
                    mp.add((lib.unhex(ip), int(port)))
            got = set(parse_printed_peer(l.strip()) for l in res["stdout"].splitlines() if l.strip())
            if f[0] != "OK" or mp != got:
                diffs.append("printed set differs from Tracker.printed of the model's peers")
            if diffs:
                ctx.cov["disagreements_checked"] += 1
                ctx.violation("model-impl-disagreement", "%s: %s" % (ec["name"], "; ".join(diffs)), dict(rec, diffs=diffs))
        if ecs:
            ctx.sample({"binary_case": ecs[0]["name"], "urls": results[0]["urls"], "rc": results[0]["rc"],
                        "stdout": results[0]["stdout"][:200], "stderr": results[0]["stderr"][:300]})
    finally:
        shutil.rmtree(tmp, ignore_errors=True)


# ---------------------------------------------------------------- URL screening against the model

def run_screen(ctx):
    urls = [("udp", True, True), ("udp", True, False), ("http", True, True), ("https", True, True), ("wss", True, False),
            ("udp", False, False), ("UDP", True, True), ("udpx", True, True), ("ud", True, True), ("", True, True)]
    res = ctx.model(["tscreen %s %d %d" % (lib.hexs(s), h, p) for s, h, p in urls])
    for (s, h, p), r in zip(urls, res):
        ctx.cov["evaluations"] += 1
        want = "usable" if (s == "udp" and h and p) else "skip-not-udp" if s != "udp" else "skip-no-host-port"
        if r != "OK " + want:
            ctx.violation("model-impl-disagreement", "Tracker.screen %r -> %s, the property says %s" % ((s, h, p), r, want),
                          {"scheme": s, "host": h, "port": p, "model": r})


# ---------------------------------------------------------------- entry points

def run(ctx):
    ctx.need_coq()
    if not ctx.need_rust() or not ctx.need_runner():
        return finish(ctx)
    cases = gen_cases(ctx)
    t0 = time.time()
    # the closed-port case frees its port before the client starts: run it alone, after the others
    cases = [c for c in cases if not c.get("closed")] + [c for c in cases if c.get("closed")]
    nclosed = sum(1 for c in cases if c.get("closed"))
    results = run_hook_cases(ctx, cases[:len(cases) - nclosed]) + run_hook_cases(ctx, cases[len(cases) - nclosed:])
    lib.log("C12: %d hook cases in %.1fs" % (len(cases), time.time() - t0))
    # confirmation run: a case the oracle objects to is run once more, alone (the client's 3 s timeout makes a starved
    # simulator look like a lost reply); a real defect is deterministic and fails again. Mass failures are not re-run.
    suspects = []
    for i, (c, (tr, impl)) in enumerate(zip(cases, results)):
        try:
            if tr is None or (not tr.send_failed and judge(c, tr, *canon_impl(impl))[0]):
                suspects.append(i)
        except Exception:
            suspects.append(i)
    if 0 < len(suspects) <= max(12, len(cases) // 2000):
        for i in suspects:
            results[i] = run_hook_cases(ctx, [cases[i]])[0]
        ctx.count("confirmation_reruns", len(suspects))
    mlines = [model_line(tr, c["ih"]) if tr is not None else "tracker 0 0 - - 0 0 ~ ~" for c, (tr, _) in zip(cases, results)]
    models = ctx.model(mlines)
    tx1, tx2 = [], []
    for c, (tr, impl), m in zip(cases, results, models):
        compare(ctx, c, tr, impl, m)
        if tr is not None and tr.recv1:
            tx1.append(txid_of(tr.recv1[0]))
        if tr is not None and tr.recv2 and len(tr.recv2[0]) >= 16:
            tx2.append(txid_of(tr.recv2[0]))
    # fresh transaction ids: over a run they must essentially all differ
    for name, tx in (("connect", tx1), ("announce", tx2)):
        if len(tx) >= 50 and len(set(tx)) < 0.95 * len(tx):
            ctx.violation("oracle-failure", "%s transaction ids are not fresh: %d distinct values in %d exchanges" % (name, len(set(tx)), len(tx)),
                          {"transaction_ids_sample": tx[:20], "reproduce": "run any two announces and compare bytes 12..16 of the %s requests" % name})
    ctx.count("distinct_connect_txids", len(set(tx1)))
    ctx.count("distinct_announce_txids", len(set(tx2)))
    for c, (tr, impl), m in list(zip(cases, results, models))[:3] + [x for x in zip(cases, results, models) if x[0]["name"].startswith("drop")][:2]:
        if tr is not None:
            ctx.sample({"case": c["name"], "v6": c["v6"], "connect_requests": [d.hex() for d in tr.recv1],
                        "announce_requests": [d.hex() for d in tr.recv2], "impl": impl[:160], "model": m[:160]})
    if translated():
        run_screen(ctx)
    else:
        ctx.notes.append("GenTracker.v is the fallback (source not translatable): model comparisons skipped, oracle still run")
    t0 = time.time()
    run_e2e(ctx)
    lib.log("C12: binary cases in %.1fs" % (time.time() - t0))
    return finish(ctx)


def finish(ctx):
    ctx.assumptions += [
        "udp_deliverable: no UDP datagram payload exceeds 65527 bytes (16-bit UDP length minus the 8-byte header; 65507 over IPv4) - "
        "the explicit hypothesis of c12_peers_exactly_the_records / c12_only_the_records_of_the_whole_reply; "
        "c12_receive_buffer_holds_any_udp_datagram proves the generated RX_BUF_LEN is at least that; replies of 65504 (IPv4) and "
        "65522 (IPv6) bytes are exercised on loopback",
        "UDP and the kernel are represented by their effect: an answer list per request (None = recv error/timeout) and "
        "truncation of a datagram to the receive buffer (firstn buflen); exhibited only by the correspondence run",
        "send errors (Error::TrackerSend) are not modelled; the closed-port case covers the ECONNREFUSED path on the real socket",
        "transaction ids / peer id come from rand::thread_rng(); freshness is judged statistically over the run",
        "Client::connect is modelled for a single resolved address (IP literals); DNS names resolving to several addresses are not generated",
    ]
    return ctx.finish(
        rule="hook cases: a deterministic matrix (every announce reply length 0..40 for IPv4 and IPv6, every connect reply length "
             "0..20, each header field perturbed, error action, empty datagram, ragged tails, replies longer than the former 8192-byte buffer "
             "up to the largest UDP datagrams), "
             "seeded random mostly-valid (60%) and malformed (40%) streams with 0-200 peers, drop patterns of the first k requests, a "
             "closed port; binary cases: torrents/magnets naming 1-3 scripted trackers plus non-UDP, port-less and unparseable URLs. "
             "A case is distinct/non-trivial by (case family, address family, datagrams received per phase, reply lengths capped at "
             "64, peers reported capped at 50).",
        trusted_base=["Coq 8.16.1 kernel (coqc); vm_compute for the closed instances", "tools/rs2v_tracker.py (GenTracker)",
                      "extraction with ExtrOcamlBasic + runner/driver.d/tracker.ml", "Rust hook tracker_announce + harness line protocol",
                      "Python tracker simulator, BEP 15 reader and oracle in tools/props/c12.py; Python ipaddress/struct/hashlib"],
        extra={"ipv6_loopback": bool(have_v6())})


def replay(ctx, path):
    rec = json.load(open(path))
    case = rec["case"]
    ctx.need_rust(); ctx.need_runner()
    if "e2e" in case:
        ec = {"name": case["e2e"]["name"], "cmd": case["e2e"]["cmd"],
              "specs": [{k: v for k, v in sp.items() if k not in ("received", "sent")} for sp in case["e2e"]["specs"]]}
        tmp = tempfile.mkdtemp(prefix="c12-replay-")
        try:
            res = run_e2e_case(ctx, ec, tmp)
            bad, keys, want = judge_e2e(ctx, ec, res)
            print("impl  : rc=%d stdout=%r stderr=%r" % (res["rc"], res["stdout"][:600], res["stderr"][:600]))
            for sp in ec["specs"]:
                if sp["t"] == "udp":
                    print("model :", ctx.model([model_line(sp["_tr"], res["ih"].hex())])[0][:600])
            print("oracle:", bad or "nothing wrong", sorted(keys))
        finally:
            shutil.rmtree(tmp, ignore_errors=True)
        return 0
    c = case.get("case")
    if not c:
        print(json.dumps(case, indent=1)[:4000])
        return 0
    (tr, impl), = run_hook_cases(ctx, [c])
    m = ctx.model([model_line(tr, c["ih"])])[0]
    peers, failed, crashed = canon_impl(impl)
    bad, key = judge(c, tr, peers, failed, crashed)
    print("requests seen by the tracker: connect %s announce %s" % ([d.hex() for d in tr.recv1], [d.hex() for d in tr.recv2]))
    print("impl  :", impl[:600])
    print("model :", m[:600])
    print("oracle:", bad or "nothing wrong", key or "")
    return 0
