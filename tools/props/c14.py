"""C14 — create enforces its validity rules, and each --allow lifts exactly one.

Obligations: coq/Properties/C14.v (acceptance characterised for every piece length and every allow
list; zero / too-large always rejected; independence of the allows; each rejection for exactly its
reason; truthful note; exact recording; tables regenerated from the Rust source).
Correspondence: the real binary over the complete matrix 8 allow subsets x piece lengths on both
sides of every threshold (numeric and unit spellings) x 4 private/announce combinations, plus
allow-list orderings/duplicates, announce-tier-only, stdin input, a seeded random stream and a
malformed stream; compared with the extracted `Lint.status` and judged by a direct oracle written
from the property's words."""
import itertools, json, os, re, shutil, tempfile, zlib
import lib

MANIFEST = dict(
    text="Machine-checked proof over the lint decision model for all piece lengths and all allow lists (acceptance iff non-zero, "
         "fits u32 and every violated lint is allowed; independence of the allows; each rejection for exactly its reason; truthful "
         "note; exact recording), with lint names, Error::lint map, check order, threshold and integer width regenerated from the "
         "Rust source on every run, tied to the real binary by a complete run of the finite matrix the property quantifies over. "
         "Right level: independence and exact thresholds are whole-matrix facts; the theorem settles every piece length, the run "
         "every cell of the matrix.",
    ref="DESIGN.md section 5, C14",
    technique="Coq proof over a Gallina model + translator-generated tables + model/implementation correspondence run on the real binary",
    note="The model starts after argument parsing: byte-size text is only used in exactly representable spellings (parsing is C16). "
         "Trusted: Coq kernel, tools/rs2v.py + rs2v_lint.py, extraction (ExtrOcamlBasic), runner driver, Python oracle.")

KIB = 1 << 10
U32 = (1 << 32) - 1
NAMES = {"p": "private-trackerless", "s": "small-piece-length", "u": "uneven-piece-length"}
CODES = {v: k for k, v in NAMES.items()}
ANNOUNCE = "http://tracker.example.com/announce"
ANNOUNCES = [ANNOUNCE, "udp://tracker.example.com:6969/announce", "https://tracker.example.com/announce",
             "wss://tracker.example.com/announce", "ws://tracker.example.com:8000/announce", "ftp://tracker.example.com/a",
             "x-custom://tracker.example.com/announce", "udp:bar.com"]
UNITS = [("KiB", 1 << 10), ("MiB", 1 << 20), ("GiB", 1 << 30), ("TiB", 1 << 40)]
ANSI = re.compile(r"\x1b\[[0-9;]*[A-Za-z]")


# ---------------------------------------------------------------- the direct oracle (property's own words)

def violated(pl, private, announce):
    v = set()
    if private and not announce:
        v.add("private-trackerless")
    if pl < 16 * KIB:
        v.add("small-piece-length")
    if pl == 0 or pl & (pl - 1):
        v.add("uneven-piece-length")
    return v


def judge(c, obs):
    """obs = dict(rc, notes=[lint names in note lines], recorded=int|None, wrote=bool, decode_error=str|None).
    Returns the list of ways in which the run contradicts the property."""
    pl, allowed = c["pl"], {NAMES[x] for x in c["allow"]}
    blocking = violated(pl, c["private"], c["announce"]) - allowed
    hard = []
    if pl == 0:
        hard.append("zero piece length")
    if pl > U32:
        hard.append("piece length above 2^32-1")
    rc, notes = obs["rc"], obs["notes"]
    bad = []
    if rc == 0:
        for h in hard:
            bad.append("%s was accepted" % h)
        for l in sorted(blocking):
            bad.append("lint %s is violated and not allowed (allowed: %s), yet the run was accepted" % (l, sorted(allowed) or "none"))
        if c.get("dry"):
            if obs["wrote"]:
                bad.append("--dry-run wrote a torrent")
        elif obs.get("decode_error"):
            bad.append("accepted run wrote no decodable torrent: %s" % obs["decode_error"])
        elif obs["recorded"] != pl:
            bad.append("accepted run records piece length %r, given %d" % (obs["recorded"], pl))
        if notes:
            bad.append("accepted run printed a lint note (%s)" % ", ".join(notes))
    else:
        if obs["wrote"]:
            bad.append("rejected run (exit %s) still produced a torrent" % rc)
        if not hard and not blocking:
            bad.append("nothing forbids this request (every violated lint is allowed, length in range) yet it was rejected "
                       "(exit %s, note %s)" % (rc, notes or "none"))
        for n in notes:
            if n not in NAMES.values():
                bad.append("note names an unknown lint %r" % n)
            elif n in allowed:
                bad.append("note names %s, which is allowed" % n)
            elif n not in blocking:
                bad.append("note names %s, which is not violated" % n)
        if (notes or (blocking and not hard)) and rc != 1:
            bad.append("lint rejection exits %s, not 1" % rc)
        if blocking and not hard and not notes:
            bad.append("rejected for a lint (%s) without a note naming it" % ", ".join(sorted(blocking)))
    return bad


# ---------------------------------------------------------------- cases

def spellings(v):
    """exact byte-size texts for v beyond plain decimal: (text, kind)"""
    out = []
    for name, u in UNITS:
        if v and v % u == 0 and v // u < 100000:
            out.append(("%d%s" % (v // u, name), "unit"))
        elif v and (2 * v) % u == 0 and v > u // 2 and (2 * v) // u < 100000:
            out.append(("%d.5%s" % (v // u, name), "half-unit"))
    out = out[:2]
    if out:
        t = out[0][0]
        out.append((t.lower(), "lower-case-unit"))
    # fractions with two to six decimals that are exact in binary (0.25MiB, 0.125KiB, 0.015625MiB): the digits after the first
    # count too (added after seeded change C14-11: the fraction digits folded in the wrong order, right for one digit only)
    from fractions import Fraction
    for name, u in UNITS:
        q = Fraction(v, u)
        k = q.denominator.bit_length() - 1
        if v and 2 <= k <= 6 and q.denominator == 1 << k and v // u < 100000:
            out.append(("%d.%s%s" % (v // u, str(int((q - v // u) * 10 ** k)).zfill(k), name), "multi-digit-fraction"))
            break
    return out


def matrix_values(thorough):
    vs = {0, 1, 2, 3, 5, 6, 7, 1000, 1023, 1024, 1536, 8192, 12288, 16383, 16384, 16385, 24576, 32768, 49152,
          65535, 65536, 65537, (1 << 31) - 1, 1 << 31, (1 << 31) + 1, U32 - 1, U32, U32 + 1, U32 + 2, 3 << 31,
          1 << 33, 1 << 40, 3 << 40, 1 << 53}
    for k in range(0, 41):
        vs.add(1 << k)
    for k in range(0, 32):
        vs.add(3 << k)
    for k in (13, 14, 15, 31, 32) + (tuple(range(2, 34)) if thorough else ()):
        vs.add((1 << k) - 1); vs.add((1 << k) + 1)
    return sorted(vs)


def mk(allow, pl, text, private, announce, kind, inp="file", out="stdout", tier_only=False, short=False, dry=False):
    return {"allow": list(allow), "pl": pl, "text": text, "private": private, "announce": announce, "kind": kind,
            "input": inp, "output": out, "tier_only": tier_only, "short": short, "dry": dry}


def gen_cases(ctx):
    cases = []
    subsets = [c for n in range(4) for c in itertools.combinations("psu", n)]
    combos = [(False, False), (False, True), (True, False), (True, True)]
    for v in matrix_values(ctx.thorough):
        texts = [(str(v), "decimal")] + spellings(v)
        if v < 100:
            texts.append(("%dbytes" % v, "bytes-suffix"))
        for text, sk in texts:
            for a in subsets:
                for pr, an in combos:
                    cases.append(mk(a, v, text, pr, an, "matrix/" + sk, out="stdout" if sk == "decimal" else "file"))
    # saturating spelling: 16EiB = 2^64 as a float, `as u64` saturates to 2^64-1 (not a power of two, too large)
    for a in subsets:
        cases.append(mk(a, (1 << 64) - 1, "16EiB", False, False, "matrix/saturating"))
    # the allow list is a set: order, duplicates, short flag
    lists = [("u", "u"), ("s", "u", "s"), ("u", "s"), ("u", "s", "p"), ("p", "p", "u"), ("s", "s"), ("u", "p", "s", "u")]
    edge = [0, 1, 12288, 16383, 16384, 16385, 24576, U32, U32 + 1, 3 << 31]
    for a in lists:
        for v in edge:
            for pr, an in combos:
                cases.append(mk(a, v, str(v), pr, an, "allow-list-order-dup", short=(len(a) % 2 == 0)))
    # --dry-run changes what is written, not what is allowed (added after seeded change C14-8: the pre-flight checks skipped
    # under --dry-run)
    for a in subsets:
        for v in edge + [1000, 8192]:
            for pr, an in ((False, False), (True, False)):
                cases.append(mk(a, v, str(v), pr, an, "dry-run", out="file", dry=True))
    # --announce-tier alone is not --announce
    for a in subsets:
        for v in (1, 16384, 24576):
            cases.append(mk(a, v, str(v), True, False, "announce-tier-only", tier_only=True))
    # stdin input goes through the same rules
    for a in subsets:
        for v in edge:
            cases.append(mk(a, v, str(v), False, False, "stdin-input", inp="stdin"))
    # inputs that yield no file at all go through the same rules: an empty directory, a directory whose entries are all filtered
    # out (hidden / junk names), a directory emptied by --glob (added after seeded change C14-14: the only enforcement of the
    # 2^32-1 limit sat in code a directory without files never reached)
    for inp in ("emptydir", "filtereddir", "globdir"):
        for a in subsets:
            for v in edge + [1 << 32, 1 << 40, (1 << 64) - 1]:
                cases.append(mk(a, v, str(v), False, False, "no-files-input", inp=inp, out="file" if v % 2 else "stdout"))
    n_matrix = len(cases)
    # seeded random stream: any bit length up to 2^53 (exact in the byte-size parser), biased to the thresholds
    r = ctx.rng
    for _ in range(ctx.n(400, 20000)):
        k = r.choice([r.randrange(0, 54), r.randrange(0, 54), 14, 15, 32, 33])
        v = r.getrandbits(k) if k else 0
        m = r.random()
        if m < 0.25 and k:
            v = 1 << (k - 1)
        elif m < 0.35 and k > 1:
            v = (1 << (k - 1)) + r.choice([-1, 1])
        a = tuple(r.choice("psu") for _ in range(r.randrange(0, 5)))
        cases.append(mk(a, v, str(v), r.random() < 0.5, r.random() < 0.5, "random",
                        inp="stdin" if r.random() < 0.1 else "file", out="file" if r.random() < 0.2 else "stdout",
                        short=r.random() < 0.3))
    return cases, n_matrix


MALFORMED = [
    (["--piece-length", "abc"], "piece-length-not-a-number"),
    (["--piece-length", "-1"], "piece-length-negative"),
    (["--piece-length", "1.5.5"], "piece-length-two-dots"),
    (["--piece-length", "16XiB"], "piece-length-bad-suffix"),
    (["--piece-length", ""], "piece-length-empty"),
    (["--piece-length", "16 KiB"], "piece-length-inner-space"),
    (["--piece-length", "0x4000"], "piece-length-hex"),
    (["--piece-length", "16384", "--allow", "small-piece-size"], "allow-name-from-help-text"),
    (["--piece-length", "16384", "--allow", "foo"], "allow-unknown"),
    (["--piece-length", "16384", "--allow", "Small-Piece-Length"], "allow-wrong-case"),
    (["--piece-length", "16384", "--allow", ""], "allow-empty"),
    (["--piece-length", "16384", "--allow", "small-piece-length,uneven-piece-length"], "allow-comma-list"),
    (["--piece-length", "1", "--allow", "small_piece_length"], "allow-underscores"),
]


# a handful of cases written out in the evidence file
SAMPLE_PICKS = [
    dict(kind="matrix/decimal", allow=["u"], pl=16383, private=False, announce=False),
    dict(kind="matrix/decimal", allow=["p", "s"], pl=U32 + 2, private=True, announce=False),
    dict(kind="matrix/unit", allow=["s"], text="16KiB", private=True, announce=True),
    dict(kind="allow-list-order-dup", allow=["u", "p", "s", "u"], pl=0, private=True, announce=False),
    dict(kind="random"),
]


def argv_of(c):
    a = ["torrent", "create", "--input", {"stdin": "-", "file": "f", "emptydir": "e", "filtereddir": "h", "globdir": "g"}[c["input"]]]
    if c["input"] == "globdir":
        a += ["--glob", "!*"]
    if c["input"] == "stdin":
        a += ["--name", "x"]
    a += ["--output", "-" if c["output"] == "stdout" else "out.torrent"]
    a += ["--piece-length", c["text"]]
    for x in c["allow"]:
        a += ["-A" if c["short"] else "--allow", NAMES[x]]
    if c["private"]:
        a.append("--private")
    if c["announce"]:
        # any URL is a tracker for this rule, whatever its scheme (added after seeded change C14-12: only http, https and udp
        # announce URLs counted as "has a tracker")
        a += ["--announce", ANNOUNCES[zlib.crc32(repr((c["pl"], sorted(c["allow"]), c["kind"])).encode()) % len(ANNOUNCES)]]
    if c["tier_only"]:
        a += ["--announce-tier", ANNOUNCE]
    if c.get("dry"):
        a.append("--dry-run")
    return a


def populate(d):
    with open(os.path.join(d, "f"), "wb") as f:
        f.write(b"hello")
    os.makedirs(os.path.join(d, "e"), exist_ok=True)
    os.makedirs(os.path.join(d, "h", ".git"), exist_ok=True)
    for n in (".hidden", "Thumbs.db", "Desktop.ini", os.path.join(".git", "config")):
        with open(os.path.join(d, "h", n), "wb") as f:
            f.write(b"x")
    os.makedirs(os.path.join(d, "g", "sub"), exist_ok=True)
    for n in ("a.txt", os.path.join("sub", "b.bin")):
        with open(os.path.join(d, "g", n), "wb") as f:
            f.write(b"data")


def observe(ctx, argv, base, shared, use_stdin, file_out):
    d = tempfile.mkdtemp(dir=base) if file_out else shared
    if file_out:
        populate(d)
    rc, out, err = ctx.imdl(argv, cwd=d, stdin=b"hello" if use_stdin else b"", env={"NO_COLOR": "1"})
    text = ANSI.sub("", err.decode("utf-8", "replace"))
    notes = []
    for line in text.splitlines():
        # the note is the line after `error: ...` that tells which --allow lifts the check; never the error line itself
        # every lint a note line names counts (seeded change C14-17: a second `--allow` on the same line named a lint the user
        # had already allowed)
        if not line.startswith("error"):
            notes += re.findall(r"--allow\s+([A-Za-z0-9_-]+)", line)
    obs = {"rc": rc, "notes": notes, "recorded": None, "wrote": False, "decode_error": None,
           "stderr": text[-600:], "extra_files": []}
    blob = out
    if file_out:
        p = os.path.join(d, "out.torrent")
        blob = open(p, "rb").read() if os.path.exists(p) else b""
        obs["extra_files"] = sorted(set(os.listdir(d)) - {"f", "e", "h", "g", "out.torrent"})
        if out:
            obs["extra_files"].append("<%d bytes on stdout>" % len(out))
        shutil.rmtree(d, ignore_errors=True)
    if blob:
        obs["wrote"] = True
        try:
            v, end = lib.bdecode_strict(blob)
            if end != len(blob):
                raise lib.BencodeError("trailing bytes")
            obs["recorded"] = lib.dget(lib.dget(v, "info"), "piece length")
        except Exception as e:
            obs["decode_error"] = repr(e)
    elif rc == 0:
        obs["decode_error"] = "nothing written"
    return obs


def closed_stderr_probe(ctx, base):
    """A rejection is an exit with status 1 also when nobody listens to the diagnostic: standard error is a pipe whose reading
    end is closed (`2>&1 | head -0`, a log collector that went away). (Added after seeded change C14-15: SIGPIPE restored to its
    default in run(); the process then dies from signal 13 while it writes `error: ...`.)"""
    import subprocess
    d = tempfile.mkdtemp(dir=base)
    populate(d)
    env = dict(lib.noise_env(), PATH=os.environ.get("PATH", ""), RUST_BACKTRACE="0", NO_COLOR="1")
    jobs = [(["--private"], "private-trackerless"), (["--piece-length", "1"], "small"), (["--piece-length", "17KiB"], "uneven"),
            (["--piece-length", "0"], "zero"), (["--piece-length", "4GiB"], "too-large"),
            (["--piece-length", "16KiB", "--private", "--allow", "small-piece-length"], "private-other-allow"),
            (["--piece-length", "abc"], "usage")]
    for extra, what in jobs:
        for inp in ("f", "g"):
            rfd, wfd = os.pipe()
            os.close(rfd)
            try:
                p = subprocess.run([ctx.bins["imdl"], "torrent", "create", "--input", inp, "--output", "-"] + extra, cwd=d, env=env,
                                   stdin=subprocess.DEVNULL, stdout=subprocess.PIPE, stderr=wfd, timeout=60)
            finally:
                os.close(wfd)
            ctx.cov["evaluations"] += 1
            ctx.count("closed_stderr_rejections")
            ctx.distinct(("closed-stderr", what, inp))
            if p.returncode != 1 or p.stdout:
                ctx.violation("oracle-failure", "rejection (%s) with standard error closed by its reader: exit status %d%s, %d bytes on standard output; "
                              "a rejected create exits 1 and writes nothing" % (what, p.returncode, " (killed by a signal)" if p.returncode < 0 else "", len(p.stdout)),
                              {"argv": ["imdl", "torrent", "create", "--input", inp, "--output", "-"] + extra, "rc": p.returncode,
                               "reproduce": "imdl torrent create --input %s --output - %s 2>&1 >/dev/null | head -c0; echo ${PIPESTATUS[0]}" % (inp, " ".join(extra))})
    shutil.rmtree(d, ignore_errors=True)


def impl_line(obs):
    """canonical observables, in the format of the model's reply"""
    rc = obs["rc"]
    if len(obs["notes"]) == 0:
        n = "~"
    elif len(obs["notes"]) == 1:
        n = CODES.get(obs["notes"][0], "?" + obs["notes"][0])
    else:
        n = "+".join(obs["notes"])
    rec = "~" if obs["recorded"] is None else str(obs["recorded"])
    return "OK %s %s %s" % (rc, n, rec)


def model_line(c):
    return "lint %s %d %d %d" % (",".join(c["allow"]) or "~", c["pl"], int(c["private"]), int(c["announce"]))


def shell(argv, use_stdin):
    q = " ".join("'%s'" % a if (a == "" or re.search(r"[^A-Za-z0-9_./:=,-]", a)) else a for a in argv)
    pre = "cd $(mktemp -d) && printf hello > f && mkdir -p e h g/sub && touch h/.hidden h/Thumbs.db g/a.txt g/sub/b.bin && "
    return pre + ("printf hello | " if use_stdin else "") + "NO_COLOR=1 imdl " + q + "; echo exit=$?"


def coqchk(ctx):
    """thorough tier: independent re-check of the compiled proofs by coqchk (no axioms, no assumed positivity/guardedness)"""
    rc, out = lib.sh(["coqchk", "-silent", "-o", "-Q", ".", "Imdl", "Imdl.Proofs.LintProofs", "Imdl.Generated.GenLint"],
                     cwd=lib.COQ, timeout=1200)
    ok = (rc == 0 and "Axioms: <none>" in out and "type-in-type: <none>" in out
          and "unsafe (co)fixpoints: <none>" in out and "positivity is assumed: <none>" in out)
    ctx.notes.append("coqchk -o Imdl.Proofs.LintProofs Imdl.Generated.GenLint: %s" % ("ok, no axioms" if ok else "FAILED rc=%s" % rc))
    if not ok:
        ctx.violation("obligation-broken", "coqchk does not accept the compiled development", {"coqchk_log": out[-3000:]})


def run(ctx):
    res = ctx.need_coq()
    if ctx.thorough and res.get("ok"):
        coqchk(ctx)
    if not ctx.need_rust() or not ctx.need_runner():
        return finish(ctx, 0)
    cases, n_matrix = gen_cases(ctx)
    base = tempfile.mkdtemp(prefix="c14-")
    shared = tempfile.mkdtemp(dir=base)
    populate(shared)
    try:
        obs = lib.pmap(lambda c: observe(ctx, argv_of(c), base, shared, c["input"] == "stdin", c["output"] == "file"), cases)
        model = ctx.model([model_line(c) for c in cases])
        failures, disagreements, picked = [], [], set()
        for c, o, m in zip(cases, obs, model):
            ctx.cov["evaluations"] += 1
            ctx.cov["traces_validated_against_impl"] += 1
            ctx.count("kind:" + c["kind"])
            ctx.count("allow-set-size:%d" % len(set(c["allow"])))
            ctx.count("private=%d,announce=%d" % (c["private"], c["announce"]))
            i = impl_line(o)
            mm = m.split(" ")
            verdict = mm[4] if len(mm) == 5 and mm[0] == "OK" else m
            ctx.count("model-verdict:" + verdict.split(":")[0] + (":" + verdict.split(":")[1] if verdict.startswith("lint:") else ""))
            ctx.distinct((tuple(sorted(set(c["allow"]))), c["pl"], c["private"], c["announce"]))
            argv = argv_of(c)
            case = {"argv": ["imdl"] + argv, "allow": [NAMES[x] for x in c["allow"]], "piece_length_text": c["text"],
                    "piece_length": c["pl"], "private": c["private"], "announce": c["announce"], "input": c["input"],
                    "output": c["output"], "kind": c["kind"], "impl": i, "model": m, "exit": o["rc"], "notes": o["notes"],
                    "recorded": o["recorded"], "stderr": o["stderr"], "model_request": model_line(c),
                    "reproduce": shell(argv, c["input"] == "stdin")}
            bad = judge(c, o)
            if o["extra_files"]:
                bad.append("unexpected files/outputs: %s" % o["extra_files"])
            case["oracle"] = bad or "property holds on this run"
            if bad:
                failures.append((len(argv), c["pl"], bad, case))
            elif (" ".join(mm[:3]) != " ".join(i.split(" ")[:3])) if c.get("dry") else (" ".join(mm[:4]) != i):
                disagreements.append((len(argv), c["pl"], case))
            for n, want in enumerate(SAMPLE_PICKS):
                if n not in picked and all(c[k] == v for k, v in want.items()):
                    picked.add(n)
                    ctx.sample({k: case[k] for k in ("argv", "impl", "model", "oracle")})
        # smallest failing inputs first (fewest arguments, then smallest length)
        failures.sort(key=lambda t: (t[0], t[1]))
        for _, _, bad, case in failures[:25]:
            ctx.violation("oracle-failure", "%s: %s" % (" ".join(case["argv"]), "; ".join(bad)), case)
        if len(failures) > 25:
            ctx.notes.append("%d further failing cases not listed" % (len(failures) - 25))
        disagreements.sort(key=lambda t: (t[0], t[1]))
        for _, _, case in disagreements[:25]:
            ctx.cov["disagreements_checked"] += 1
            ctx.violation("model-impl-disagreement",
                          "Lint.status and the binary differ on %s (impl %s, model %s); the property's own conditions hold there"
                          % (" ".join(case["argv"]), case["impl"], case["model"]), case)
        closed_stderr_probe(ctx, base)
        if sorted(os.listdir(shared)) != ["e", "f", "g", "h"]:
            ctx.violation("oracle-failure", "runs with --output - left files behind: %s" % sorted(os.listdir(shared)),
                          {"files": sorted(os.listdir(shared))})

        # malformed stream: outside the model (it starts after parsing); must be refused and write nothing
        mal = [(extra, kind) for extra, kind in MALFORMED]
        r = ctx.rng
        for _ in range(ctx.n(20, 300)):
            junk = "".join(r.choice("0123456789.kKmMiIbB -+eExX") for _ in range(r.randrange(1, 7)))
            if not re.fullmatch(r"[0-9.]*[0-9][0-9.]*([kmgtpeKMGTPE][iI][bB]|[bB]|bytes?)?", junk) or junk.count(".") > 1:
                mal.append((["--piece-length=" + junk], "piece-length-random-junk"))

        def one_mal(t):
            extra, kind = t
            argv = ["torrent", "create", "--input", "f", "--output", "out.torrent"] + extra
            return argv, kind, observe(ctx, argv, base, shared, False, True)
        for argv, kind, o in lib.pmap(one_mal, mal):
            ctx.cov["evaluations"] += 1
            ctx.count("malformed:" + kind)
            case = {"argv": ["imdl"] + argv, "exit": o["rc"], "stderr": o["stderr"], "reproduce": shell(argv, False)}
            if o["rc"] == 0 or o["wrote"]:
                ctx.violation("oracle-failure", "malformed request was not refused: %s (exit %s, wrote=%s)"
                              % (" ".join(argv), o["rc"], o["wrote"]), case)
            elif o["rc"] != 1:
                ctx.violation("oracle-failure", "malformed request %s ended with exit %s, not a plain refusal"
                              % (" ".join(argv), o["rc"]), case)
        ctx.sample({"malformed": ["imdl", "torrent", "create", "--input", "f", "--output", "out.torrent"] + MALFORMED[7][0],
                    "expect": "refused, nothing written"})
    finally:
        shutil.rmtree(base, ignore_errors=True)
    return finish(ctx, n_matrix)


def finish(ctx, n_matrix):
    ctx.assumptions += [
        "byte-size text is used only in exactly representable spellings (decimal below 2^53, whole and half multiples of "
        "KiB..TiB, `16EiB` saturating to 2^64-1); exactness of the parser itself is C16",
        "clap delivers every --allow occurrence, --private and --announce to Create::run as modelled (exercised by the run)",
    ]
    return ctx.finish(
        rule="complete matrix: 8 allow subsets x %s piece-length values (0, 1, every 2^k k<=40, every 3*2^k k<=31, 16383/16384/16385, "
             "2^31+-1, 2^32-2..2^32+1, 3*2^31, 2^33, 2^40, 3*2^40, 2^53, 2^64-1) in decimal and in every exact unit spelling x 4 "
             "private/announce combinations (%d runs), plus reordered/duplicated allow lists with -A, --announce-tier without "
             "--announce, stdin input, a seeded random stream (random allow lists with duplicates, lengths of every bit size "
             "biased to 2^k, 2^k+-1 and the 2^14/2^32 thresholds) and a malformed stream (bad byte-size text, bad lint names) that "
             "must be refused; a case is distinct/non-trivial by (allow set, piece length, private, announce)"
             % ("~%d" % len(matrix_values(ctx.thorough)), n_matrix),
        trusted_base=["Coq 8.16.1 kernel (coqc)", "tools/rs2v.py + tools/rs2v_lint.py (GenLint)",
                      "extraction with ExtrOcamlBasic + runner/driver.d/lint.ml", "the real imdl binary run as a subprocess",
                      "Python oracle and strict bencode reader (tools/props/c14.py, tools/lib.py)"],
        exhaustive=True,
    )


def replay(ctx, path):
    rec = json.load(open(path))
    case = rec["case"]
    if "argv" not in case:
        print(json.dumps(case, indent=1)[:4000]); return 0
    ctx.need_rust(); ctx.need_runner()
    argv = case["argv"][1:]
    base = tempfile.mkdtemp(prefix="c14-replay-")
    try:
        shared = tempfile.mkdtemp(dir=base)
        populate(shared)
        file_out = "out.torrent" in argv
        o = observe(ctx, argv, base, shared, case.get("input") == "stdin", file_out)
        print("argv  :", " ".join(case["argv"]))
        print("impl  :", impl_line(o), "| stderr:", o["stderr"].strip().splitlines()[-2:])
        if "model_request" in case:
            print("model :", ctx.model([case["model_request"]])[0])
            c = {"allow": [CODES[x] for x in case["allow"]], "pl": case["piece_length"], "private": case["private"],
                 "announce": case["announce"], "dry": "--dry-run" in case["argv"]}
            print("oracle:", judge(c, o) or "property holds on this run")
        print("shell :", case.get("reproduce"))
    finally:
        shutil.rmtree(base, ignore_errors=True)
    return 0
