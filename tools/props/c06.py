"""C06 — create includes exactly the documented files, in the documented order.

Obligations: coq/Properties/C06.v (walk = sort (filter included (all files)); glob precedence;
SortSpec::compare is a total order, sorted permutations are unique, so the listing does not depend
on the enumeration order; symlink root refusal; tables regenerated from src/walker.rs,
src/sort_*.rs, src/file_path.rs).
Correspondence: the real binary `imdl torrent create --input ROOT --output -` on generated trees,
each built twice in different creation orders, vs the extracted `Walk.walk`; the `sortcmp` and
`globf` hooks at volume vs `Walk.sort_compare` / `Walk.pattern_filter`.
Oracle: Python enumerate / filter / sort by the documented rules (this file, independent of the model)."""
import functools, json, os, random, re, shlex, shutil, socket, tempfile
import lib

MANIFEST = dict(
    text="Machine-checked proof over a Gallina model of Walker::files / pattern_filter / SortSpec::compare: for every tree, "
         "flag combination, glob list (any matcher) and sort specification the listing is the unique sorted arrangement of "
         "exactly the files passing the documented per-path predicate, independent of enumeration order; symlink roots are "
         "refused unless followed. Tied to the code by translator-generated tables and a correspondence run of the extracted "
         "model against the real binary on generated trees and against the sort/glob hooks. Right level: the property is "
         "combinatorial over trees x flags x globs x sort keys, which sampling cannot settle but induction over trees can.",
    ref="DESIGN.md section 5, C06",
    technique="Coq proof over a Gallina model + translator-generated tables + model/implementation correspondence run",
    note="Assumed: globset matching (Section variable gmatch; a glob sub-language is validated against the glob_filter hook "
         "first); the `ignore` crate's walker is represented by its effect (yield / walk_error). Not modelled: --ignore, "
         "platform hidden attributes, non-UTF-8 names, symlink loops. Trusted: Coq kernel, tools/rs2v_walker.py, extraction "
         "(ExtrOcamlBasic), hooks + harness, Python oracle.")

JUNK_DOC = [b"Thumbs.db", b"Desktop.ini"]          # the property's own words
SPEC_TEXT = {("path", False): ["path", "path:ascending"], ("path", True): ["path:descending"],
             ("size", False): ["size", "size:ascending"], ("size", True): ["size:descending"]}

# names aimed at: hidden at any depth, junk names (exact / other case / as directory names / near misses),
# names where component-wise and plain string order differ (bytes below '/' = 0x2f: space ! - . ; and above),
# upper/lower case, digits, prefixes of each other, non-ASCII
PLAIN = ["a", "b", "c", "x", "y", "ab", "a b", "a.b", "a-b", "a_b", "a0", "a~", "A", "B", "Z", "z", "0", "10", "9",
         "b.txt", "c.txt", "x.rs", "a.b.c", "é", "zé", "a+b", "a,b", "a b c", "-", "_", "!a", "!b.txt", "!"]
HIDDEN = [".h", ".a", ".x y", "..x", ".Thumbs.db", ".b.txt"]
JUNKISH = ["Thumbs.db", "Desktop.ini", "thumbs.db", "desktop.ini", "Thumbs.db.bak", "xThumbs.db", "Desktop.ini "]
SIZES = [0, 1, 1, 2, 2, 2, 3, 3, 5, 10, 17]


# ------------------------------------------------------------------ trees
# node: ("F", size) | ("D", [(name, node), ...]) | ("L", node, sibling_name_or_None) | ("B",)

def gen_name(r, used):
    for _ in range(50):
        k = r.random()
        n = r.choice(HIDDEN) if k < 0.17 else r.choice(JUNKISH) if k < 0.34 else r.choice(PLAIN)
        if n not in used:
            used.add(n)
            return n
    n = "n%d" % len(used)
    used.add(n)
    return n


SPECIAL_OK = [False]   # set per tree by gen_root: may this tree hold entries that are neither files, directories nor links


def gen_node(r, depth, allow_broken, in_link=False):
    k = r.random()
    if SPECIAL_OK[0] and not in_link and r.random() < 0.12:
        # a FIFO or a unix socket: exists, is not a regular file, must be passed over without being opened
        return ("S", r.choice(["fifo", "fifo", "sock"]))
    if depth <= 0 or k < 0.45:
        return ("F", r.choice(SIZES))
    if k < 0.80:
        return gen_dir(r, depth - 1, allow_broken)
    if k < 0.96 or not allow_broken:
        return ("L", gen_node(r, depth - 1, allow_broken, True), None)
    return ("B",)


def gen_dir(r, depth, allow_broken, lo=0, hi=5):
    used, es = set(), []
    for _ in range(r.randint(lo, hi)):
        n = gen_name(r, used)
        # now and then a link to a sibling inside the root (same files reachable under two paths)
        if es and r.random() < 0.08:
            tn, tt = r.choice(es)
            if tt[0] in ("F", "D"):
                es.append((n, ("L", tt, tn)))
                continue
        es.append((n, gen_node(r, depth, allow_broken)))
    r.shuffle(es)
    return ("D", es)


def gen_root(r):
    allow_broken = r.random() < 0.10
    SPECIAL_OK[0] = r.random() < 0.15
    k = r.random()
    d = gen_dir(r, r.choice([1, 2, 3, 3, 4]), allow_broken, lo=1, hi=6)
    if k < 0.80:
        return d
    if k < 0.88:
        return ("L", d, None)
    if k < 0.92:
        return ("F", r.choice(SIZES))
    if k < 0.96:
        return ("L", ("F", r.choice(SIZES)), None)
    if k < 0.98:
        return ("L", ("L", d, None), None)
    return ("B",)


def enc_tree(t):
    if t[0] == "F":
        return "F%d" % t[1]
    if t[0] == "B":
        return "B"
    if t[0] == "L":
        return "L" + enc_tree(t[1])
    # special files are not content: for the model (whose tree type has files, directories and links) they are not there
    return "D(" + ";".join("%s:%s" % (n.encode().hex(), enc_tree(c)) for n, c in t[1] if c[0] != "S") + ")"


def materialise(t, top, root_name, order_rng):
    """Create the tree under `top` (root at top/root_name, link targets under top/ext) creating directory
    entries in an order drawn from order_rng. Returns the shell commands that rebuild it (relative to $T)."""
    cmds = []
    ctr = [0]
    os.mkdir(os.path.join(top, "ext"))
    cmds.append("mkdir ext")

    def rel(p):
        return os.path.relpath(p, top)

    def go(node, p):
        if node[0] == "F":
            with open(p, "wb") as f:
                f.write(b"x" * node[1])
            cmds.append("head -c %d /dev/zero | tr '\\0' x > %s" % (node[1], shlex.quote(rel(p))))
        elif node[0] == "D":
            os.mkdir(p)
            cmds.append("mkdir %s" % shlex.quote(rel(p)))
            es = list(node[1])
            order_rng.shuffle(es)
            for n, c in es:
                go(c, os.path.join(p, n))
        elif node[0] == "S":
            if node[1] == "sock" and len(p) < 100:
                sk = socket.socket(socket.AF_UNIX, socket.SOCK_STREAM)
                sk.bind(p); sk.close()
                cmds.append("python3 -c 'import socket,sys; socket.socket(socket.AF_UNIX).bind(sys.argv[1])' %s" % shlex.quote(rel(p)))
            else:
                os.mkfifo(p)
                cmds.append("mkfifo %s" % shlex.quote(rel(p)))
        elif node[0] == "L":
            if node[2] is not None:
                os.symlink(node[2], p)
                cmds.append("ln -s %s %s" % (shlex.quote(node[2]), shlex.quote(rel(p))))
            else:
                ctr[0] += 1
                tgt = os.path.join(top, "ext", "t%d" % ctr[0])
                go(node[1], tgt)
                os.symlink(tgt, p)
                cmds.append('ln -s "$T"/%s %s' % (shlex.quote(rel(tgt)), shlex.quote(rel(p))))
        else:
            ctr[0] += 1
            os.symlink(os.path.join(top, "ext", "missing%d" % ctr[0]), p)
            cmds.append('ln -s "$T"/ext/missing%d %s' % (ctr[0], shlex.quote(rel(p))))

    go(t, os.path.join(top, root_name))
    return cmds


# ------------------------------------------------------------------ globs (validated sub-language)
# a glob is a list of tokens: ("lit", str) ("star",) ("any",) ("class", neg, [(lo, hi)]) ("pre",) ("suf",) ("mid",)

def glob_text(toks):
    out = []
    for t in toks:
        if t[0] == "lit":
            out.append(t[1])
        elif t[0] == "star":
            out.append("*")
        elif t[0] == "any":
            out.append("?")
        elif t[0] == "class":
            out.append("[" + ("!" if t[1] else "") + "".join(a if a == b else a + "-" + b for a, b in t[2]) + "]")
        elif t[0] == "pre":
            out.append("**/")
        elif t[0] == "suf":
            out.append("/**")
        elif t[0] == "mid":
            out.append("/**/")
    return "".join(out)


def glob_regex(toks):
    """The documented meaning of the sub-language (globset defaults: `*` and `?` cross `/`; matching is on the
    bytes of the whole root-relative path): a bytes regex."""
    out = []
    for t in toks:
        if t[0] == "lit":
            out.append(re.escape(t[1].encode()))
        elif t[0] == "star":
            out.append(b".*")
        elif t[0] == "any":
            out.append(b".")
        elif t[0] == "class":
            out.append(b"[" + (b"^" if t[1] else b"") +
                       b"".join(re.escape(a.encode()) if a == b else re.escape(a.encode()) + b"-" + re.escape(b.encode())
                                for a, b in t[2]) + b"]")
        elif t[0] == "pre":
            out.append(b"(?:/?|.*/)")
        elif t[0] == "suf":
            out.append(b"/.*")
        elif t[0] == "mid":
            out.append(b"(?:/|/.*/)")
    return re.compile(b"".join(out), re.S)


GLOB_SAFE = re.compile(r"[A-Za-z0-9 ._~+,\-é!]+\Z")


def lit(s):
    return [("lit", s)] if s else []


def gen_glob(r, paths):
    """paths: candidate root-relative paths (lists of str components). Returns (include, tokens)."""
    include = r.random() < 0.55
    p = r.choice(paths) if paths and r.random() < 0.9 else [r.choice(PLAIN)]
    p = [c for c in p if GLOB_SAFE.match(c) and "," not in c] or ["a"]
    full = "/".join(p)
    k = r.randrange(12)
    if k == 0:
        toks = lit(full)
    elif k == 1:
        toks = [("pre",)] + lit(p[-1])
    elif k == 2 and len(p) > 1:
        toks = lit(p[0]) + [("suf",)]
    elif k == 3:
        i = p[-1].rfind(".")
        toks = [("star",)] + lit(p[-1][i:] if i > 0 else p[-1][-1:])
    elif k == 4:
        toks = lit(full[:r.randint(1, len(full))]) + [("star",)]
    elif k == 5:
        i = r.randrange(len(full))
        toks = lit(full[:i]) + [("any",)] + lit(full[i + 1:])
    elif k == 6:
        i = r.randrange(len(full))
        ch = full[i]
        if ch.isalnum() and ch.isascii():
            cls = r.choice([[(ch, ch)], [("a", "c")], [("a", "z")], [("0", "9"), ("A", "Z")], [(ch, ch), ("x", "y")]])
            toks = lit(full[:i]) + [("class", r.random() < 0.3, cls)] + lit(full[i + 1:])
        else:
            toks = lit(full[:i]) + [("any",)] + lit(full[i + 1:])
    elif k == 7 and len(p) > 1:
        toks = lit(p[0]) + [("mid",)] + lit(p[-1])
    elif k == 8:
        toks = [("star",)] + lit(p[-1])
    elif k == 9:
        toks = [("star",)]
    elif k == 10:
        toks = lit(p[0]) + [("star",)] + lit(full[-1:])
    else:
        toks = lit(p[-1])
    # only the FIRST `!` of the argument is the polarity mark; an excluding glob whose pattern itself begins with `!` is written
    # `!!name` and is about names that begin with `!` (added after seeded change C06-12: every leading `!` trimmed). An including
    # glob cannot begin with `!`, and none begins with `-` (it would read as an option).
    first = toks[0][1][:1] if toks and toks[0][0] == "lit" else ""
    if not toks or first == "-" or (first == "!" and include):
        toks = [("star",)] + toks
    return (include, toks)


def glob_arg(g):
    return ("" if g[0] else "!") + glob_text(g[1])


# ------------------------------------------------------------------ the direct oracle (the property's own words)

def reachable_files(t, follow):
    """every regular file below the root with what the documented filters look at:
    (components, size, crosses a symlink?)"""
    out = []

    def go(node, comps, via_link):
        if node[0] == "F":
            out.append((tuple(c.encode() for c in comps), node[1], via_link))
        elif node[0] == "D":
            for n, c in node[1]:
                go(c, comps + [n], via_link)
        elif node[0] == "L":
            go(node[1], comps, True)

    go(t, [], False)
    return out


def strip_links(t):
    while t[0] == "L":
        t = t[1]
    return t


def has_special(t):
    if t[0] == "S":
        return True
    if t[0] == "L":
        return has_special(t[1])
    if t[0] == "D":
        return any(has_special(c) for _, c in t[1])
    return False


def has_dangling(t):
    if t[0] == "B":
        return True
    if t[0] == "L":
        return has_dangling(t[1])
    if t[0] == "D":
        return any(has_dangling(c) for _, c in t[1])
    return False


def glob_decides(globs, relpath):
    """the last glob matching the root-relative path decides; unmatched paths take the opposite polarity of
    the first glob; no globs: included"""
    verdict = None
    for inc, toks in globs:
        if glob_regex(toks).fullmatch(relpath):
            verdict = inc
    if verdict is None:
        verdict = (not globs[0][0]) if globs else True
    return verdict


def oracle_cmp(specs, a, b):
    """`--sort-by` keys in order, remaining ties by ascending path, paths compared component-wise"""
    for key, desc in list(specs) + [("path", False)]:
        x, y = (a[0], b[0]) if key == "path" else (a[1], b[1])
        if x != y:
            lt = x < y            # tuples of bytes: component-wise, bytes bytewise; ints numerically
            return (1 if lt else -1) if desc else (-1 if lt else 1)
    return 0


def oracle(case):
    """-> set of acceptable canonical outcomes"""
    t, (hid, junk, follow) = case["tree"], case["flags"]
    if t[0] in ("L", "B") and not follow:
        return {"ERR"}
    r = strip_links(t)
    if r[0] == "B":
        return {"ERR"}
    if r[0] == "F":
        return {"SINGLE %d" % r[1]}
    keep = []
    for comps, size, via_link in reachable_files(r, follow):
        if via_link and not follow:
            continue
        if not hid and any(c.startswith(b".") for c in comps):
            continue
        if not junk and comps[-1] in JUNK_DOC:
            continue
        if not glob_decides(case["globs"], b"/".join(comps)):
            continue
        keep.append((comps, size))
    keep.sort(key=functools.cmp_to_key(lambda a, b: oracle_cmp(case["specs"], a, b)))
    ok = {canon_list(keep)}
    if follow and has_dangling(r):
        ok.add("ERR")     # the property does not say what a dangling link does; the model does (walk_error)
    return ok


def canon_list(files):
    return "LIST " + (",".join("%s:%d" % ("/".join(c.hex() for c in comps), size) for comps, size in files) or "~")


# ------------------------------------------------------------------ implementation / model sides

def case_argv(case, root_name):
    hid, junk, follow = case["flags"]
    a = ["torrent", "create", "--input", root_name, "--output", "-"]
    if hid:
        a.append("--include-hidden")
    if junk:
        a.append("--include-junk")
    if follow:
        a.append("--follow-symlinks")
    for g in case["globs"]:
        a += ["--glob", glob_arg(g)]
    for s in case["spec_text"]:
        a += ["--sort-by", s]
    return a


ROOT_SPELLINGS = ["plain", "plain", "plain", "dot", "slash", "abs", "abs-slash", "abs-slashdot", "dotdot", "slashdot"]


def spelled(root_name, spelling, top):
    """the same root, written differently on the command line: imdl cleans the path lexically, so none of these may change
    the listing - in particular a symlinked root stays refused whether or not the path ends in a separator (added after
    seeded change C06-9: absolute inputs skipping the normalisation)"""
    return {"plain": root_name, "dot": "./" + root_name, "slash": root_name + "/", "slashdot": root_name + "/.",
            "abs": os.path.join(top, root_name), "abs-slash": os.path.join(top, root_name) + "/",
            "abs-slashdot": os.path.join(top, root_name) + "/.",
            "dotdot": "../" + os.path.basename(top) + "/" + root_name}[spelling]


def impl_canon(rc, out):
    if rc != 0:
        # 1 = imdl's own error exit, 2 = clap usage error; a panic (101) or a signal is not a refusal
        return "ERR" if rc in (1, 2) and not out else "CRASH rc=%d stdout=%d bytes" % (rc, len(out))
    try:
        v, end = lib.bdecode_strict(out)
        info = lib.dget(v, "info")
        files = lib.dget(info, "files")
        if files is None:
            return "SINGLE %d" % lib.dget(info, "length")
        return canon_list([(tuple(lib.dget(f, "path")), lib.dget(f, "length")) for f in files])
    except Exception as e:
        return "UNDECODABLE %r" % (e,)


def model_line(case):
    hid, junk, follow = case["flags"]
    cands = [c for c, _, _ in reachable_files(strip_links(case["tree"]), True)]
    globs = []
    for inc, toks in case["globs"]:
        rx = glob_regex(toks)
        m = sorted({"/".join(x.hex() for x in c) for c in cands if c and rx.fullmatch(b"/".join(c))})
        globs.append(("+" if inc else "-") + ";".join(m))
    specs = ",".join(("p" if k == "path" else "s") + ("-" if d else "+") for k, d in case["specs"]) or "~"
    return "walk %d%d%d %s %s %s" % (hid, junk, follow, ",".join(globs) or "~", specs, enc_tree(case["tree"]))


def model_canon(reply):
    if reply in ("OK REFUSED", "OK FAILED"):
        return "ERR"
    return reply[3:] if reply.startswith("OK ") else "MODEL:" + reply


def run_impl(ctx, case, builds=2):
    """build the tree `builds` times in different creation orders; run the binary on each"""
    outs, script = [], None
    for b in range(builds):
        top = tempfile.mkdtemp(prefix="c06-", dir=case.get("tmp"))
        try:
            cmds = materialise(case["tree"], top, case["root_name"], random.Random(case["order_seed"] * 7 + b))
            argv = case_argv(case, spelled(case["root_name"], case.get("root_spelling", "plain"), top))
            rc, out, err = ctx.imdl(argv, cwd=top, timeout=6 if has_special(case["tree"]) else 120)
            outs.append(impl_canon(rc, out))
            if b == 0:
                script = ("T=$(mktemp -d) && cd \"$T\" && " + " && ".join(cmds) + " && " +
                          " ".join(shlex.quote(x) for x in ["imdl"] + argv) + " | strings | tail -3")
        finally:
            shutil.rmtree(top, ignore_errors=True)
    return outs, script


def gen_case(r, tree=None):
    t = tree if tree is not None else gen_root(r)
    flags = (r.random() < 0.5, r.random() < 0.5, r.random() < 0.5)
    paths = [[c.decode() for c in comps] for comps, _, _ in reachable_files(strip_links(t), True) if comps]
    globs = [gen_glob(r, paths) for _ in range(r.choice([0, 0, 0, 1, 1, 2, 3]))]
    specs = [(r.choice(["path", "size", "size"]), r.random() < 0.5) for _ in range(r.choice([0, 0, 1, 1, 2, 3]))]
    return {"tree": t, "flags": flags, "globs": globs, "specs": specs,
            "spec_text": [r.choice(SPEC_TEXT[s]) for s in specs],
            "root_name": r.choice(["root", "root", "root", ".root", "Thumbs.db", "a b"]),
            "root_spelling": r.choice(ROOT_SPELLINGS),
            "order_seed": r.getrandbits(30)}


def describe(case):
    return {"tree": enc_tree(case["tree"]), "tree_readable": readable(case["tree"]),
            "flags": dict(zip(("include_hidden", "include_junk", "follow_symlinks"), case["flags"])),
            "globs": [glob_arg(g) for g in case["globs"]], "sort_by": case["spec_text"],
            "root_name": case["root_name"], "root_spelling": case.get("root_spelling", "plain"), "order_seed": case["order_seed"],
            "_raw": case_json(case)}


def readable(t):
    if t[0] == "F":
        return "file(%d)" % t[1]
    if t[0] == "B":
        return "dangling-link"
    if t[0] == "S":
        return t[1]
    if t[0] == "L":
        return {"link->" + ("sibling " + t[2] if t[2] else ""): readable(t[1])}
    return {n: readable(c) for n, c in t[1]}


def case_json(case):
    return json.dumps({k: case.get(k) for k in ("tree", "flags", "globs", "specs", "spec_text", "root_name", "root_spelling", "order_seed")})


def case_from_json(s):
    d = json.loads(s)

    def tree(t):
        if t[0] == "D":
            return ("D", [(n, tree(c)) for n, c in t[1]])
        if t[0] == "L":
            return ("L", tree(t[1]), t[2])
        return tuple(t)

    def toks(ts):
        return [("class", t[1], [tuple(x) for x in t[2]]) if t[0] == "class" else tuple(t) for t in ts]

    return {"tree": tree(d["tree"]), "flags": tuple(d["flags"]), "globs": [(g[0], toks(g[1])) for g in d["globs"]],
            "specs": [tuple(s) for s in d["specs"]], "spec_text": d["spec_text"], "root_name": d["root_name"],
            "root_spelling": d.get("root_spelling") or "plain", "order_seed": d["order_seed"]}


# ------------------------------------------------------------------ shrinking

def shrink(ctx, case, still_fails, budget=80):
    """greedy: drop directory entries, globs, sort keys, flags while the failure persists"""
    def variants(c):
        for i in range(len(c["globs"])):
            yield dict(c, globs=c["globs"][:i] + c["globs"][i + 1:])
        for i in range(len(c["specs"])):
            yield dict(c, specs=c["specs"][:i] + c["specs"][i + 1:], spec_text=c["spec_text"][:i] + c["spec_text"][i + 1:])
        for i in range(3):
            if c["flags"][i]:
                f = list(c["flags"]); f[i] = False
                yield dict(c, flags=tuple(f))
        if c["root_name"] != "root":
            yield dict(c, root_name="root")

        def drops(t):
            if t[0] == "D":
                for i, (n, ch) in enumerate(t[1]):
                    rest = [(m, x) for j, (m, x) in enumerate(t[1]) if j != i and not (x[0] == "L" and x[2] == n)]
                    yield ("D", rest)
                for i, (n, ch) in enumerate(t[1]):
                    for v in drops(ch):
                        yield ("D", t[1][:i] + [(n, v)] + t[1][i + 1:])
            elif t[0] == "L" and t[2] is None:
                for v in drops(t[1]):
                    yield ("L", v, None)
        for v in drops(c["tree"]):
            yield dict(c, tree=v)

    progress = True
    while progress and budget > 0:
        progress = False
        for v in variants(case):
            budget -= 1
            if budget <= 0:
                break
            try:
                if still_fails(v):
                    case, progress = v, True
                    break
            except Exception:
                continue
    return case


# ------------------------------------------------------------------ the run

def run(ctx):
    ctx.need_coq()
    if not ctx.need_rust() or not ctx.need_runner():
        return finish(ctx)
    r = ctx.rng
    glob_assumption_ok = validate_globs(ctx)
    e2e(ctx, glob_assumption_ok)      # first: its failures replay on the real binary
    undecodable_names(ctx)
    hooks_at_volume(ctx)
    malformed(ctx)
    return finish(ctx)


def undecodable_names(ctx):
    """A file whose name is not valid UTF-8 cannot be listed in a torrent; it must only matter when it would be listed. When
    the documented filters leave it out (a glob that excludes it, a hidden name, a junk name is not possible here), the other
    files are listed as if it were not there. Oracle only - the model's names are UTF-8. (Added after seeded change C06-8:
    the path was decoded before the glob filter, so an excluded file aborted the whole run.)"""
    bad = b"r\xe9sum\xe9"
    layouts = [
        ("undecodable file excluded by an including glob", {b"a.txt": 3, b"b.txt": 1, b"sub/c.txt": 2, bad + b".bak": 4}, ["--glob", "*.txt"],
         [[b"a.txt"], [b"b.txt"], [b"sub", b"c.txt"]]),
        ("undecodable file excluded by a negated glob", {b"a.txt": 3, b"sub/c.txt": 2, b"sub/" + bad + b".bak": 4}, ["--glob", "!*.bak"],
         [[b"a.txt"], [b"sub", b"c.txt"]]),
        ("undecodable hidden file", {b"a.txt": 3, b"." + bad: 4, b"sub/.h" + bad: 1, b"sub/c.txt": 2}, [],
         [[b"a.txt"], [b"sub", b"c.txt"]]),
        ("file in an undecodable directory excluded by a glob", {b"a.txt": 3, bad + b"/x.bak": 4, b"b.txt": 2}, ["--glob", "!*.bak"],
         [[b"a.txt"], [b"b.txt"]]),
        ("undecodable hidden directory", {b"a.txt": 3, b"." + bad + b"/x": 4}, [], [[b"a.txt"]]),
    ]
    for label, files, extra, want in layouts:
        top = tempfile.mkdtemp(prefix="c06u-")
        try:
            for rel, size in files.items():
                p = os.path.join(os.fsencode(top), b"root", rel)
                os.makedirs(os.path.dirname(p), exist_ok=True)
                with open(p, "wb") as f:
                    f.write(b"x" * size)
            rc, out, err = ctx.imdl(["torrent", "create", "--input", "root", "--output", "-"] + extra, cwd=top, timeout=60)
            ctx.cov["evaluations"] += 1
            ctx.count("e2e_undecodable_names")
            ctx.distinct(("undecodable", label))
            got = None
            if rc == 0:
                try:
                    v, _ = lib.bdecode_strict(out)
                    got = [lib.dget(f, "path") for f in lib.dget(lib.dget(v, "info"), "files")]
                except Exception:
                    got = None
            if got != want:
                ctx.violation("oracle-failure",
                              "%s: `imdl torrent create --input root --output - %s` exited %d listing %r; the files that pass the filters are %r"
                              % (label, " ".join(extra), rc, got, want),
                              {"kind": "undecodable-names", "label": label, "files": {k.hex(): v for k, v in files.items()},
                               "argv": ["imdl", "torrent", "create", "--input", "root", "--output", "-"] + extra, "rc": rc,
                               "stderr": err.decode("utf-8", "replace")[-300:], "listed": repr(got), "expected": repr(want),
                               "reproduce": "create the files (names are hex of the bytes, sizes in bytes) under ./root, then run argv"})
        finally:
            shutil.rmtree(top, ignore_errors=True)


def corpus_cases():
    """hand-written edge cases; run before any generated case in every tier"""
    F = lambda n: ("F", n)
    D = lambda *es: ("D", list(es))
    base = D(("a", D(("x", F(2)), (".y", F(1)), ("Thumbs.db", F(3)))), ("a b", F(2)), ("a.b", F(2)), ("a-b", F(2)),
             ("b", F(1)), (".h", D(("x", F(1)), ("sub", D(("deep", F(4)))))), ("Desktop.ini", D(("q", F(7)))),
             ("thumbs.db", F(1)), ("l", ("L", F(5), None)), ("ld", ("L", D(("o", F(9)), (".p", F(1))), None)),
             ("s", D((".hd", D(("c", F(2)))), ("Desktop.ini", F(1)), ("t", F(2)))), ("in", ("L", F(1), "b")))
    out = []
    for flags in [(h, j, f) for h in (False, True) for j in (False, True) for f in (False, True)]:
        out.append({"tree": base, "flags": flags, "globs": [], "specs": [], "spec_text": [], "root_name": "root", "order_seed": 1})
    star_txt = (True, [("star",), ("lit", "b")])
    for globs, specs, st in [
        ([(True, [("lit", "a"), ("suf",)])], [("size", True)], ["size:descending"]),
        ([(False, [("pre",), ("lit", "x")])], [("size", False), ("path", True)], ["size", "path:descending"]),
        ([star_txt, (False, [("lit", "a"), ("star",)]), (True, [("lit", "a.b")])], [("path", True)], ["path:descending"]),
        ([(False, [("star",)]), (True, [("lit", "s"), ("mid",), ("lit", "c")])], [], []),
        ([], [("size", False), ("size", True)], ["size:ascending", "size:descending"]),
    ]:
        out.append({"tree": base, "flags": (True, False, True), "globs": globs, "specs": specs, "spec_text": st,
                    "root_name": ".root", "order_seed": 2})
    for t in [("L", base, None), ("L", F(3), None), F(4), ("B",), D(), D((".only", F(1))),
              D(("d", ("B",)), ("f", F(1))), D((".d", ("B",)), ("f", F(1))), D((".hd", D(("d", ("B",)))), ("f", F(1)))]:
        for follow in (False, True):
            out.append({"tree": t, "flags": (False, False, follow), "globs": [], "specs": [], "spec_text": [],
                        "root_name": "root", "order_seed": 3})
    return out


def e2e(ctx, glob_ok):
    r = ctx.rng
    cases = corpus_cases()
    ncorpus = len(cases)
    ntrees = ctx.n(400, 5000)
    per_tree = 4
    for _ in range(ntrees):
        t = gen_root(r)
        for _ in range(per_tree):
            cases.append(gen_case(r, t))
    if not glob_ok:
        for c in cases:
            c["globs"] = []
    tmp = tempfile.mkdtemp(prefix="c06run-")
    try:
        for c in cases:
            c["tmp"] = tmp
        impl = lib.pmap(lambda c: run_impl(ctx, c), cases)
        model = [model_canon(x) for x in ctx.model([model_line(c) for c in cases])]
        nshrunk = 0
        for i, (c, (outs, script), m) in enumerate(zip(cases, impl, model)):
            ctx.cov["evaluations"] += 1
            ctx.cov["traces_validated_against_impl"] += 1
            want = oracle(c)
            a, b = outs[0], outs[1]
            rec = dict(describe(c), impl=a, impl_other_creation_order=b, model=m, oracle=sorted(want), reproduce=script)
            kind = ("corpus" if i < ncorpus else "generated")
            ctx.count("e2e_" + kind)
            ctx.count("flags_h%dj%df%d" % c["flags"])
            ctx.count("globs_%d" % len(c["globs"]))
            ctx.count("sort_keys_%d" % len(c["specs"]))
            ctx.count("root_" + {"D": "dir", "F": "file", "L": "symlink", "B": "dangling"}[c["tree"][0]])
            if has_special(c["tree"]):
                ctx.count("trees_with_fifo_or_socket")
            ctx.count("outcome_" + a.split(" ")[0])
            if a.startswith("LIST"):
                n = 0 if a == "LIST ~" else a.count(",") + 1
                ctx.count("listed_files_%s" % ("0" if n == 0 else "1-3" if n <= 3 else "4-9" if n <= 9 else "10+"))
            ctx.distinct((c["flags"], len(c["globs"]), tuple(c["specs"]), a))
            if i in (0, ncorpus, ncorpus + 5):
                ctx.sample({k: rec[k] for k in ("tree_readable", "flags", "globs", "sort_by", "impl", "model")})
            bad = None
            if a != b:
                bad = "the listing depends on the order in which the directory entries were created"
            elif a not in want:
                bad = "imdl's outcome differs from the documented one"
            if bad and nshrunk >= 3:
                ctx.violation("oracle-failure", "%s: %s flags %s globs %s sort-by %s -> %s, documented %s (not shrunk)" % (
                    bad, json.dumps(rec["tree_readable"], ensure_ascii=False), rec["flags"], rec["globs"], rec["sort_by"],
                    a if a == b else "%s / %s" % (a, b), " or ".join(rec["oracle"])), rec)
            elif bad:
                nshrunk += 1

                def still(v):
                    v = dict(v, tmp=tmp)
                    o, _ = run_impl(ctx, v)
                    return o[0] != o[1] or o[0] not in oracle(v)
                small = shrink(ctx, c, still, budget=ctx.n(60, 200))
                small = dict(small, tmp=tmp)
                o, sc = run_impl(ctx, small)
                rec = dict(describe(small), impl=o[0], impl_other_creation_order=o[1], oracle=sorted(oracle(small)),
                           model=model_canon(ctx.model([model_line(small)])[0]), reproduce=sc, before_shrinking=describe(c))
                ctx.violation("oracle-failure", "%s: root %s flags %s globs %s sort-by %s -> %s, documented %s" % (
                    bad, json.dumps(rec["tree_readable"], ensure_ascii=False), rec["flags"], rec["globs"], rec["sort_by"],
                    o[0] if o[0] == o[1] else "%s / %s" % (o[0], o[1]), " or ".join(rec["oracle"])), rec)
            elif a != m:
                ctx.cov["disagreements_checked"] += 1
                ctx.violation("model-impl-disagreement",
                              "Walk.walk and Walker::files differ (impl %s, model %s); the documented rules are satisfied" % (a, m), rec)
    finally:
        shutil.rmtree(tmp, ignore_errors=True)


def validate_globs(ctx):
    """the glob sub-language: globset (through Walker::pattern_filter with ONE include glob) must agree with
    glob_regex on every (glob, path) pair; otherwise the Section hypothesis about gmatch is not what we think"""
    r = ctx.rng
    pairs = []
    for _ in range(ctx.n(400, 6000)):
        t = gen_dir(r, 3, False, lo=1, hi=5)
        paths = [[c.decode() for c in comps] for comps, _, _ in reachable_files(t, True)]
        if not paths:
            continue
        for _ in range(3):
            g = gen_glob(r, paths)
            for p in r.sample(paths, min(4, len(paths))) + [[r.choice(PLAIN)]]:
                pairs.append((g[1], "/".join(p)))
    # a pattern that itself begins with `!` can only be given as an excluding glob (`!!name`): then a match means "left out"
    banged = lambda g: glob_text(g).startswith("!")
    lines = ["globf %s %s" % (lib.hexlist([("!" if banged(g) else "") + glob_text(g)]), lib.hexs(p)) for g, p in pairs]
    ok = True
    nmatch = 0
    for (g, p), rep in zip(pairs, ctx.harness(lines)):
        ctx.cov["evaluations"] += 1
        hit = bool(glob_regex(g).fullmatch(p.encode()))
        want = "OK %d" % (1 if hit != banged(g) else 0)
        nmatch += hit
        if rep != want:
            ok = False
            ctx.violation("assumption-broken",
                          "globset disagrees with the documented meaning of glob %r on path %r (hook %s, expected %s)"
                          % (glob_text(g), p, rep, want),
                          {"hypothesis": "gmatch = globset GlobMatcher::is_match restricted to the validated sub-language",
                           "glob": glob_text(g), "path": p, "hook": rep, "expected": want,
                           "reproduce": "printf 'globf %s %s\\n' | imdl-verif-harness" % (lib.hexlist([glob_text(g)]), lib.hexs(p))})
            break
    ctx.count("glob_validation_pairs", len(pairs))
    ctx.count("glob_validation_matching", nmatch)
    return ok


def hooks_at_volume(ctx):
    r = ctx.rng
    # --- SortSpec::compare
    names = PLAIN + HIDDEN + JUNKISH
    items = []
    for _ in range(ctx.n(4000, 150000)):
        specs = [(r.choice(["path", "size"]), r.random() < 0.5) for _ in range(r.choice([0, 0, 1, 1, 2, 3, 4]))]
        a = [r.choice(names) for _ in range(r.randint(1, 4))]
        k = r.random()
        if k < 0.25:
            b = list(a)                                   # same path
        elif k < 0.5:
            b = a[:r.randint(1, len(a))] + [r.choice(names) for _ in range(r.randint(0, 2))]   # shared prefix
        elif k < 0.65:
            b = ["/".join(a).replace("/", r.choice([" ", ".", "-", "0"]))] if len(a) > 1 else a + ["x"]  # string-order trap
        else:
            b = [r.choice(names) for _ in range(r.randint(1, 4))]
        la = r.choice(SIZES + [2 ** 32, 2 ** 63, 2 ** 64 - 1])
        lb = la if r.random() < 0.5 else r.choice(SIZES + [2 ** 32 + 1, 2 ** 64 - 1])
        items.append((specs, a, la, b, lb))
    hl = ["sortcmp %s %s %d %s %d" % (lib.hexlist([r.choice(SPEC_TEXT[s]) for s in specs]), lib.hexlist(a), la, lib.hexlist(b), lb)
          for specs, a, la, b, lb in items]
    ml = ["wsortcmp %s %s %d %s %d" % (",".join(("p" if k == "path" else "s") + ("-" if d else "+") for k, d in specs) or "~",
                                        "/".join(x.encode().hex() for x in a), la, "/".join(x.encode().hex() for x in b), lb)
          for specs, a, la, b, lb in items]
    for it, hr, mr, hline in zip(items, ctx.harness(hl), ctx.model(ml), hl):
        specs, a, la, b, lb = it
        ctx.cov["evaluations"] += 1
        ctx.cov["traces_validated_against_impl"] += 1
        want = "OK %d" % oracle_cmp(specs, (tuple(x.encode() for x in a), la), (tuple(x.encode() for x in b), lb))
        ctx.distinct(("cmp", tuple(specs), want, a == b, la == lb))
        case = {"specs": specs, "a": [a, la], "b": [b, lb], "impl": hr, "model": mr, "oracle": want,
                "reproduce": "printf '%s\\n' | imdl-verif-harness" % hline}
        if hr != want:
            ctx.violation("oracle-failure", "SortSpec::compare(%s) on %s (%d bytes) vs %s (%d bytes) gives %s, documented order gives %s"
                          % (specs, "/".join(a), la, "/".join(b), lb, hr, want), case)
        elif hr != mr:
            ctx.cov["disagreements_checked"] += 1
            ctx.violation("model-impl-disagreement", "Walk.sort_compare differs from SortSpec::compare (%s vs %s)" % (mr, hr), case)
    ctx.count("sortcmp_cases", len(items))
    # --- Walker::pattern_filter, glob lists
    items = []
    for _ in range(ctx.n(1200, 40000)):
        t = gen_dir(r, 3, False, lo=1, hi=5)
        paths = [[c.decode() for c in comps] for comps, _, _ in reachable_files(t, True)]
        if not paths:
            continue
        globs = [gen_glob(r, paths) for _ in range(r.choice([0, 1, 1, 2, 2, 3, 4]))]
        for p in r.sample(paths, min(3, len(paths))):
            items.append((globs, "/".join(p)))
    hl = ["globf %s %s" % (lib.hexlist([glob_arg(g) for g in globs]), lib.hexs(p)) for globs, p in items]
    ml = ["wpfilter %s" % (",".join(("+" if inc else "-") + ("1" if glob_regex(tk).fullmatch(p.encode()) else "0")
                                    for inc, tk in globs) or "~") for globs, p in items]
    for (globs, p), hr, mr, hline in zip(items, ctx.harness(hl), ctx.model(ml), hl):
        ctx.cov["evaluations"] += 1
        ctx.cov["traces_validated_against_impl"] += 1
        want = "OK %d" % (1 if glob_decides(globs, p.encode()) else 0)
        ctx.distinct(("glob", len(globs), tuple(g[0] for g in globs), want))
        case = {"globs": [glob_arg(g) for g in globs], "path": p, "impl": hr, "model": mr, "oracle": want,
                "reproduce": "printf '%s\\n' | imdl-verif-harness" % hline}
        if hr != want:
            ctx.violation("oracle-failure", "globs %s on path %r: pattern_filter gives %s, the documented precedence gives %s"
                          % ([glob_arg(g) for g in globs], p, hr, want), case)
        elif hr != mr:
            ctx.cov["disagreements_checked"] += 1
            ctx.violation("model-impl-disagreement", "Walk.pattern_filter differs from Walker::pattern_filter (%s vs %s)" % (mr, hr), case)
    ctx.count("globf_cases", len(items))


def malformed(ctx):
    """malformed stream: sort specs outside the documented KEY[:ORDER] language and unparsable globs must be
    refused (non-zero exit, nothing on stdout) - they have no meaning in the model"""
    tmp = tempfile.mkdtemp(prefix="c06bad-")
    try:
        os.mkdir(os.path.join(tmp, "root"))
        open(os.path.join(tmp, "root", "f"), "wb").write(b"x")
        bad = [["--sort-by", s] for s in ["", "Path", "path:", ":ascending", "size:up", "path:ascending:descending", "length",
                                           "size;path", " size", "SIZE:descending", "path:Ascending"]]
        bad += [["--glob", g] for g in ["[", "a[!", "{a", "a/**b/[", "[z-a]"]]
        bad += [["--sort-by"], ["--glob"]]

        def one(extra):
            rc, out, err = ctx.imdl(["torrent", "create", "--input", "root", "--output", "-"] + extra, cwd=tmp)
            return extra, rc, out
        for extra, rc, out in lib.pmap(one, bad):
            ctx.cov["evaluations"] += 1
            ctx.count("malformed_" + extra[0].strip("-"))
            if rc == 0 or out:
                ctx.violation("model-impl-disagreement",
                              "imdl accepted %r, which is outside the documented sort/glob language the model covers (rc %d, %d bytes on stdout)"
                              % (extra, rc, len(out)), {"argv": ["imdl", "torrent", "create", "--input", "root", "--output", "-"] + extra,
                                                        "rc": rc, "reproduce": "mkdir root; echo -n x > root/f; imdl torrent create --input root --output - "
                                                        + " ".join(shlex.quote(x) for x in extra)})
        # a root that does not exist
        rc, out, err = ctx.imdl(["torrent", "create", "--input", "nonexistent", "--output", "-"], cwd=tmp)
        ctx.cov["evaluations"] += 1
        ctx.count("malformed_missing_root")
        if rc == 0 or out:
            ctx.violation("oracle-failure", "create on a root that does not exist did not fail", {"rc": rc})
    finally:
        shutil.rmtree(tmp, ignore_errors=True)


def finish(ctx):
    ctx.assumptions += [
        "globset: GlobMatcher::is_match is a function of (glob, root-relative path) - the Section variable gmatch; on the "
        "generated sub-language (literals, *, ?, [..], [!..], leading **/, trailing /**, inner /**/; * and ? cross '/'; bytes) it "
        "agrees with the documented meaning, validated through the glob_filter hook before any other case",
        "the `ignore` crate's walker (hidden(!include_hidden), follow_links(follow_symlinks), standard_filters(false)) yields "
        "every entry whose path has no hidden component below the root exactly once, descends through links only when "
        "following, and reports a dangling link as an error when following: Walk.yield / Walk.walk_error",
        "sibling names in a directory are distinct (wf_tree) - hypothesis of the uniqueness / order-independence theorems",
        "out of scope: --ignore, platform hidden attributes, non-UTF-8 names, symlink loops, files changing during the walk",
    ]
    return ctx.finish(
        rule="trees of depth <= 4 (hidden names, junk names incl. near misses and as directory names, names ordered differently "
             "component-wise and as strings, equal sizes, file/dir/dangling/sibling symlinks, symlink/file/dangling roots, "
             "hidden/junk-named roots), each built twice in different creation orders, x 4 random configurations (3 flags, 0-3 "
             "globs, 0-3 sort keys) + a fixed corpus over all 8 flag combinations; hooks: sort comparisons on related path pairs "
             "and glob lists on tree paths; a case is distinct by (flags, #globs, sort keys, outcome) resp. (keys, result, "
             "same-path, same-size) resp. (glob polarities, result)",
        trusted_base=["Coq 8.16.1 kernel (coqc), vm_compute for closed instances", "tools/rs2v_walker.py (GenWalker)",
                      "extraction with ExtrOcamlBasic + runner/driver.d/walk.ml",
                      "Rust hooks sort_compare / glob_filter + harness line protocol; the real imdl binary",
                      "Python oracle, glob sub-language and tree builder in tools/props/c06.py; lib.bdecode_strict"],
    )


def replay(ctx, path):
    rec = json.load(open(path))
    case = rec["case"]
    ctx.need_rust(); ctx.need_runner()
    if "_raw" not in case:
        print(json.dumps(case, indent=1, ensure_ascii=False)[:4000])
        if "reproduce" in case and "imdl-verif-harness" in case["reproduce"]:
            m = re.search(r"printf '(.*)\\n'", case["reproduce"])
            if m:
                print("impl :", ctx.harness([m.group(1)])[0])
        return 0
    c = case_from_json(case["_raw"])
    outs, script = run_impl(ctx, c)
    print("input :", json.dumps(describe(c)["tree_readable"], ensure_ascii=False), describe(c)["flags"],
          describe(c)["globs"], describe(c)["sort_by"])
    print("impl  :", outs[0])
    print("impl' :", outs[1], "(other creation order)")
    print("model :", model_canon(ctx.model([model_line(c)])[0]))
    print("oracle:", " or ".join(sorted(oracle(c))))
    print("shell :", script)
    return 0
