"""C06 — create includes exactly the documented files, in the documented order.

Obligations: coq/Properties/C06.v (walk = sort (filter included (all files)); glob precedence;
SortSpec::compare is a total order, sorted permutations are unique, so the listing does not depend
on the enumeration order; symlink root refusal; tables regenerated from src/walker.rs,
src/sort_*.rs, src/file_path.rs).
Correspondence: the real binary `imdl torrent create --input ROOT --output -` on generated trees,
each built twice in different creation orders, vs the extracted `Walk.walk` (once with the glob matches
tabulated by the Python oracle, once with the concrete matcher of Model/Glob.v); the `sortcmp` and
`globf` hooks at volume vs `Walk.sort_compare` / `Walk.pattern_filter`.
X13: globset itself (Glob::new + compile_matcher + is_match, default options) is modelled in Model/Glob.v
and proved against a declarative semantics (Proofs/GlobProofs.v); `glob_library` ties the extracted
parser + matcher to the real library through the `glob_filter` hook on >= 20 000 (pattern, path) pairs
per quick run (grammar-built patterns, raw metacharacter text, malformed patterns, a fixed corpus) and
`glob_e2e` runs every corpus pattern through `imdl torrent create --glob=..` on a tiny tree.
Oracle: Python enumerate / filter / sort by the documented rules, and `doc_regex`, the meaning of a glob
written from the globset documentation (this file, independent of the model)."""
import functools, json, os, random, re, shlex, shutil, socket, tempfile
import lib

MANIFEST = dict(
    text="Machine-checked proof over a Gallina model of Walker::files / pattern_filter / SortSpec::compare: for every tree, "
         "flag combination, glob list and sort specification the listing is the unique sorted arrangement of "
         "exactly the files passing the documented per-path predicate, independent of enumeration order; symlink roots are "
         "refused unless followed. The glob matcher is concrete: a Gallina model of globset 0.4.14's parser and of the regex it "
         "writes, proved sound and complete against a declarative semantics for all token lists and paths, with the precedence "
         "rule (last matching glob decides) stated over that semantics. Tied to the code by translator-generated tables and a correspondence run of the extracted "
         "model against the real binary on generated trees and against the sort/glob hooks (globset itself: >= 20 000 "
         "(pattern, path) pairs per quick run through the glob_filter hook, every corpus pattern end to end). Right level: the property is "
         "combinatorial over trees x flags x globs x sort keys, which sampling cannot settle but induction over trees can.",
    ref="DESIGN.md section 5, C06",
    technique="Coq proof over a Gallina model + translator-generated tables + model/implementation correspondence run",
    note="globset matching is modelled (Model/Glob.v: patterns are valid UTF-8, paths any bytes; the regex engine is represented "
         "by the meaning of the regex fragments globset writes per token) and validated against the glob_filter hook; "
         "the `ignore` crate's walker is represented by its effect (yield / walk_error). Not modelled: --ignore, "
         "platform hidden attributes, non-UTF-8 names, symlink loops. Trusted: Coq kernel, tools/rs2v_walker.py, extraction "
         "(ExtrOcamlBasic), hooks + harness, Python oracle.")

JUNK_DOC = [b"Thumbs.db", b"Desktop.ini"]          # the property's own words
SPEC_TEXT = {("path", False): ["path", "path:ascending"], ("path", True): ["path:descending"],
             ("size", False): ["size", "size:ascending"], ("size", True): ["size:descending"]}

# names aimed at: hidden at any depth, junk names (exact / other case / as directory names / near misses),
# names where component-wise and plain string order differ (bytes below '/' = 0x2f: space ! - . ; and above),
# upper/lower case, digits, prefixes of each other, non-ASCII
PLAIN = ["a", "b", "c", "x", "y", "ab", "a b", "a.b", "a-b", "a_b", "a0", "a~", "A", "B", "Z", "z", "0", "10", "9",
         "b.txt", "c.txt", "x.rs", "a.b.c", "é", "zé", "a+b", "a,b", "a b c", "-", "_", "!a", "!b.txt", "!"]
HIDDEN = [".h", ".a", ".x y", "..x", ".Thumbs.db", ".b.txt"]
JUNKISH = ["Thumbs.db", "Desktop.ini", "thumbs.db", "desktop.ini", "Thumbs.db.bak", "xThumbs.db", "Desktop.ini "]
SIZES = [0, 1, 1, 2, 2, 2, 3, 3, 5, 10, 17]


# ------------------------------------------------------------------ trees
# node: ("F", size) | ("D", [(name, node), ...]) | ("L", node, sibling_name_or_None) | ("B",)

def gen_name(r, used):
    for _ in range(50):
        k = r.random()
        n = r.choice(HIDDEN) if k < 0.17 else r.choice(JUNKISH) if k < 0.34 else r.choice(PLAIN)
        if n not in used:
            used.add(n)
            return n
    n = "n%d" % len(used)
    used.add(n)
    return n


SPECIAL_OK = [False]   # set per tree by gen_root: may this tree hold entries that are neither files, directories nor links


def gen_node(r, depth, allow_broken, in_link=False):
    k = r.random()
    if SPECIAL_OK[0] and not in_link and r.random() < 0.12:
        # a FIFO or a unix socket: exists, is not a regular file, must be passed over without being opened
        return ("S", r.choice(["fifo", "fifo", "sock"]))
    if depth <= 0 or k < 0.45:
        return ("F", r.choice(SIZES))
    if k < 0.80:
        return gen_dir(r, depth - 1, allow_broken)
    if k < 0.96 or not allow_broken:
        return ("L", gen_node(r, depth - 1, allow_broken, True), None)
    return ("B",)


def gen_dir(r, depth, allow_broken, lo=0, hi=5):
    used, es = set(), []
    for _ in range(r.randint(lo, hi)):
        n = gen_name(r, used)
        # now and then a link to a sibling inside the root (same files reachable under two paths)
        if es and r.random() < 0.08:
            tn, tt = r.choice(es)
            if tt[0] in ("F", "D"):
                es.append((n, ("L", tt, tn)))
                continue
        es.append((n, gen_node(r, depth, allow_broken)))
    r.shuffle(es)
    return ("D", es)


def gen_root(r):
    allow_broken = r.random() < 0.10
    SPECIAL_OK[0] = r.random() < 0.15
    k = r.random()
    d = gen_dir(r, r.choice([1, 2, 3, 3, 4]), allow_broken, lo=1, hi=6)
    if k < 0.80:
        return d
    if k < 0.88:
        return ("L", d, None)
    if k < 0.92:
        return ("F", r.choice(SIZES))
    if k < 0.96:
        return ("L", ("F", r.choice(SIZES)), None)
    if k < 0.98:
        return ("L", ("L", d, None), None)
    return ("B",)


def enc_tree(t):
    if t[0] == "F":
        return "F%d" % t[1]
    if t[0] == "B":
        return "B"
    if t[0] == "L":
        return "L" + enc_tree(t[1])
    # special files are not content: for the model (whose tree type has files, directories and links) they are not there
    return "D(" + ";".join("%s:%s" % (n.encode().hex(), enc_tree(c)) for n, c in t[1] if c[0] != "S") + ")"


def materialise(t, top, root_name, order_rng):
    """Create the tree under `top` (root at top/root_name, link targets under top/ext) creating directory
    entries in an order drawn from order_rng. Returns the shell commands that rebuild it (relative to $T)."""
    cmds = []
    ctr = [0]
    os.mkdir(os.path.join(top, "ext"))
    cmds.append("mkdir ext")

    def rel(p):
        return os.path.relpath(p, top)

    def go(node, p):
        if node[0] == "F":
            with open(p, "wb") as f:
                f.write(b"x" * node[1])
            cmds.append("head -c %d /dev/zero | tr '\\0' x > %s" % (node[1], shlex.quote(rel(p))))
        elif node[0] == "D":
            os.mkdir(p)
            cmds.append("mkdir %s" % shlex.quote(rel(p)))
            es = list(node[1])
            order_rng.shuffle(es)
            for n, c in es:
                go(c, os.path.join(p, n))
        elif node[0] == "S":
            if node[1] == "sock" and len(p) < 100:
                sk = socket.socket(socket.AF_UNIX, socket.SOCK_STREAM)
                sk.bind(p); sk.close()
                cmds.append("python3 -c 'import socket,sys; socket.socket(socket.AF_UNIX).bind(sys.argv[1])' %s" % shlex.quote(rel(p)))
            else:
                os.mkfifo(p)
                cmds.append("mkfifo %s" % shlex.quote(rel(p)))
        elif node[0] == "L":
            if node[2] is not None:
                os.symlink(node[2], p)
                cmds.append("ln -s %s %s" % (shlex.quote(node[2]), shlex.quote(rel(p))))
            else:
                ctr[0] += 1
                tgt = os.path.join(top, "ext", "t%d" % ctr[0])
                go(node[1], tgt)
                os.symlink(tgt, p)
                cmds.append('ln -s "$T"/%s %s' % (shlex.quote(rel(tgt)), shlex.quote(rel(p))))
        else:
            ctr[0] += 1
            os.symlink(os.path.join(top, "ext", "missing%d" % ctr[0]), p)
            cmds.append('ln -s "$T"/ext/missing%d %s' % (ctr[0], shlex.quote(rel(p))))

    go(t, os.path.join(top, root_name))
    return cmds


# ------------------------------------------------------------------ globs (validated sub-language)
# a glob is a list of tokens: ("lit", str) ("star",) ("any",) ("class", neg, [(lo, hi)]) ("pre",) ("suf",) ("mid",)

def glob_text(toks):
    out = []
    for t in toks:
        if t[0] == "lit":
            out.append(t[1])
        elif t[0] == "star":
            out.append("*")
        elif t[0] == "any":
            out.append("?")
        elif t[0] == "class":
            out.append("[" + ("!" if t[1] else "") + "".join(a if a == b else a + "-" + b for a, b in t[2]) + "]")
        elif t[0] == "pre":
            out.append("**/")
        elif t[0] == "suf":
            out.append("/**")
        elif t[0] == "mid":
            out.append("/**/")
    return "".join(out)


def glob_regex(toks):
    """The documented meaning of the sub-language (globset defaults: `*` and `?` cross `/`; matching is on the
    bytes of the whole root-relative path): a bytes regex."""
    out = []
    for t in toks:
        if t[0] == "lit":
            out.append(re.escape(t[1].encode()))
        elif t[0] == "star":
            out.append(b".*")
        elif t[0] == "any":
            out.append(b".")
        elif t[0] == "class":
            out.append(b"[" + (b"^" if t[1] else b"") +
                       b"".join(re.escape(a.encode()) if a == b else re.escape(a.encode()) + b"-" + re.escape(b.encode())
                                for a, b in t[2]) + b"]")
        elif t[0] == "pre":
            out.append(b"(?:/?|.*/)")
        elif t[0] == "suf":
            out.append(b"/.*")
        elif t[0] == "mid":
            out.append(b"(?:/|/.*/)")
    return re.compile(b"".join(out), re.S)


GLOB_SAFE = re.compile(r"[A-Za-z0-9 ._~+,\-é!]+\Z")


def lit(s):
    return [("lit", s)] if s else []


def gen_glob(r, paths):
    """paths: candidate root-relative paths (lists of str components). Returns (include, tokens)."""
    include = r.random() < 0.55
    p = r.choice(paths) if paths and r.random() < 0.9 else [r.choice(PLAIN)]
    p = [c for c in p if GLOB_SAFE.match(c) and "," not in c] or ["a"]
    full = "/".join(p)
    k = r.randrange(12)
    if k == 0:
        toks = lit(full)
    elif k == 1:
        toks = [("pre",)] + lit(p[-1])
    elif k == 2 and len(p) > 1:
        toks = lit(p[0]) + [("suf",)]
    elif k == 3:
        i = p[-1].rfind(".")
        toks = [("star",)] + lit(p[-1][i:] if i > 0 else p[-1][-1:])
    elif k == 4:
        toks = lit(full[:r.randint(1, len(full))]) + [("star",)]
    elif k == 5:
        i = r.randrange(len(full))
        toks = lit(full[:i]) + [("any",)] + lit(full[i + 1:])
    elif k == 6:
        i = r.randrange(len(full))
        ch = full[i]
        if ch.isalnum() and ch.isascii():
            cls = r.choice([[(ch, ch)], [("a", "c")], [("a", "z")], [("0", "9"), ("A", "Z")], [(ch, ch), ("x", "y")]])
            toks = lit(full[:i]) + [("class", r.random() < 0.3, cls)] + lit(full[i + 1:])
        else:
            toks = lit(full[:i]) + [("any",)] + lit(full[i + 1:])
    elif k == 7 and len(p) > 1:
        toks = lit(p[0]) + [("mid",)] + lit(p[-1])
    elif k == 8:
        toks = [("star",)] + lit(p[-1])
    elif k == 9:
        toks = [("star",)]
    elif k == 10:
        toks = lit(p[0]) + [("star",)] + lit(full[-1:])
    else:
        toks = lit(p[-1])
    # only the FIRST `!` of the argument is the polarity mark; an excluding glob whose pattern itself begins with `!` is written
    # `!!name` and is about names that begin with `!` (added after seeded change C06-12: every leading `!` trimmed). An including
    # glob cannot begin with `!`, and none begins with `-` (it would read as an option).
    first = toks[0][1][:1] if toks and toks[0][0] == "lit" else ""
    if not toks or first == "-" or (first == "!" and include):
        toks = [("star",)] + toks
    return (include, toks)


def glob_arg(g):
    return ("" if g[0] else "!") + glob_text(g[1])


# ------------------------------------------------------------------ the direct oracle (the property's own words)

def reachable_files(t, follow):
    """every regular file below the root with what the documented filters look at:
    (components, size, crosses a symlink?)"""
    out = []

    def go(node, comps, via_link):
        if node[0] == "F":
            out.append((tuple(c.encode() for c in comps), node[1], via_link))
        elif node[0] == "D":
            for n, c in node[1]:
                go(c, comps + [n], via_link)
        elif node[0] == "L":
            go(node[1], comps, True)

    go(t, [], False)
    return out


def strip_links(t):
    while t[0] == "L":
        t = t[1]
    return t


def has_special(t):
    if t[0] == "S":
        return True
    if t[0] == "L":
        return has_special(t[1])
    if t[0] == "D":
        return any(has_special(c) for _, c in t[1])
    return False


def has_dangling(t):
    if t[0] == "B":
        return True
    if t[0] == "L":
        return has_dangling(t[1])
    if t[0] == "D":
        return any(has_dangling(c) for _, c in t[1])
    return False


def glob_decides(globs, relpath):
    """the last glob matching the root-relative path decides; unmatched paths take the opposite polarity of
    the first glob; no globs: included"""
    verdict = None
    for inc, toks in globs:
        if glob_regex(toks).fullmatch(relpath):
            verdict = inc
    if verdict is None:
        verdict = (not globs[0][0]) if globs else True
    return verdict


def oracle_cmp(specs, a, b):
    """`--sort-by` keys in order, remaining ties by ascending path, paths compared component-wise"""
    for key, desc in list(specs) + [("path", False)]:
        x, y = (a[0], b[0]) if key == "path" else (a[1], b[1])
        if x != y:
            lt = x < y            # tuples of bytes: component-wise, bytes bytewise; ints numerically
            return (1 if lt else -1) if desc else (-1 if lt else 1)
    return 0


def oracle(case):
    """-> set of acceptable canonical outcomes"""
    t, (hid, junk, follow) = case["tree"], case["flags"]
    if t[0] in ("L", "B") and not follow:
        return {"ERR"}
    r = strip_links(t)
    if r[0] == "B":
        return {"ERR"}
    if r[0] == "F":
        return {"SINGLE %d" % r[1]}
    keep = []
    for comps, size, via_link in reachable_files(r, follow):
        if via_link and not follow:
            continue
        if not hid and any(c.startswith(b".") for c in comps):
            continue
        if not junk and comps[-1] in JUNK_DOC:
            continue
        if not glob_decides(case["globs"], b"/".join(comps)):
            continue
        keep.append((comps, size))
    keep.sort(key=functools.cmp_to_key(lambda a, b: oracle_cmp(case["specs"], a, b)))
    ok = {canon_list(keep)}
    if follow and has_dangling(r):
        ok.add("ERR")     # the property does not say what a dangling link does; the model does (walk_error)
    return ok


def canon_list(files):
    return "LIST " + (",".join("%s:%d" % ("/".join(c.hex() for c in comps), size) for comps, size in files) or "~")


# ------------------------------------------------------------------ implementation / model sides

def case_argv(case, root_name):
    hid, junk, follow = case["flags"]
    a = ["torrent", "create", "--input", root_name, "--output", "-"]
    if hid:
        a.append("--include-hidden")
    if junk:
        a.append("--include-junk")
    if follow:
        a.append("--follow-symlinks")
    for g in case["globs"]:
        a += ["--glob", glob_arg(g)]
    for s in case["spec_text"]:
        a += ["--sort-by", s]
    return a


ROOT_SPELLINGS = ["plain", "plain", "plain", "dot", "slash", "abs", "abs-slash", "abs-slashdot", "dotdot", "slashdot"]


def spelled(root_name, spelling, top):
    """the same root, written differently on the command line: imdl cleans the path lexically, so none of these may change
    the listing - in particular a symlinked root stays refused whether or not the path ends in a separator (added after
    seeded change C06-9: absolute inputs skipping the normalisation)"""
    return {"plain": root_name, "dot": "./" + root_name, "slash": root_name + "/", "slashdot": root_name + "/.",
            "abs": os.path.join(top, root_name), "abs-slash": os.path.join(top, root_name) + "/",
            "abs-slashdot": os.path.join(top, root_name) + "/.",
            "dotdot": "../" + os.path.basename(top) + "/" + root_name}[spelling]


def impl_canon(rc, out):
    if rc != 0:
        # 1 = imdl's own error exit, 2 = clap usage error; a panic (101) or a signal is not a refusal
        return "ERR" if rc in (1, 2) and not out else "CRASH rc=%d stdout=%d bytes" % (rc, len(out))
    try:
        v, end = lib.bdecode_strict(out)
        info = lib.dget(v, "info")
        files = lib.dget(info, "files")
        if files is None:
            return "SINGLE %d" % lib.dget(info, "length")
        return canon_list([(tuple(lib.dget(f, "path")), lib.dget(f, "length")) for f in files])
    except Exception as e:
        return "UNDECODABLE %r" % (e,)


def model_line(case):
    hid, junk, follow = case["flags"]
    cands = [c for c, _, _ in reachable_files(strip_links(case["tree"]), True)]
    globs = []
    for inc, toks in case["globs"]:
        rx = glob_regex(toks)
        m = sorted({"/".join(x.hex() for x in c) for c in cands if c and rx.fullmatch(b"/".join(c))})
        globs.append(("+" if inc else "-") + ";".join(m))
    specs = ",".join(("p" if k == "path" else "s") + ("-" if d else "+") for k, d in case["specs"]) or "~"
    return "walk %d%d%d %s %s %s" % (hid, junk, follow, ",".join(globs) or "~", specs, enc_tree(case["tree"]))


def model_line_globs(case):
    hid, junk, follow = case["flags"]
    specs = ",".join(("p" if k == "path" else "s") + ("-" if d else "+") for k, d in case["specs"]) or "~"
    return "walkg %d%d%d %s %s %s" % (hid, junk, follow, lib.hexlist([glob_arg(g) for g in case["globs"]]), specs, enc_tree(case["tree"]))


def model_canon(reply):
    if reply in ("OK REFUSED", "OK FAILED"):
        return "ERR"
    return reply[3:] if reply.startswith("OK ") else "MODEL:" + reply


def run_impl(ctx, case, builds=2):
    """build the tree `builds` times in different creation orders; run the binary on each"""
    outs, script = [], None
    for b in range(builds):
        top = tempfile.mkdtemp(prefix="c06-", dir=case.get("tmp"))
        try:
            cmds = materialise(case["tree"], top, case["root_name"], random.Random(case["order_seed"] * 7 + b))
            argv = case_argv(case, spelled(case["root_name"], case.get("root_spelling", "plain"), top))
            rc, out, err = ctx.imdl(argv, cwd=top, timeout=6 if has_special(case["tree"]) else 120)
            outs.append(impl_canon(rc, out))
            if b == 0:
                script = ("T=$(mktemp -d) && cd \"$T\" && " + " && ".join(cmds) + " && " +
                          " ".join(shlex.quote(x) for x in ["imdl"] + argv) + " | strings | tail -3")
        finally:
            shutil.rmtree(top, ignore_errors=True)
    return outs, script


def gen_case(r, tree=None):
    t = tree if tree is not None else gen_root(r)
    flags = (r.random() < 0.5, r.random() < 0.5, r.random() < 0.5)
    paths = [[c.decode() for c in comps] for comps, _, _ in reachable_files(strip_links(t), True) if comps]
    globs = [gen_glob(r, paths) for _ in range(r.choice([0, 0, 0, 1, 1, 2, 3]))]
    specs = [(r.choice(["path", "size", "size"]), r.random() < 0.5) for _ in range(r.choice([0, 0, 1, 1, 2, 3]))]
    return {"tree": t, "flags": flags, "globs": globs, "specs": specs,
            "spec_text": [r.choice(SPEC_TEXT[s]) for s in specs],
            "root_name": r.choice(["root", "root", "root", ".root", "Thumbs.db", "a b"]),
            "root_spelling": r.choice(ROOT_SPELLINGS),
            "order_seed": r.getrandbits(30)}


def describe(case):
    return {"tree": enc_tree(case["tree"]), "tree_readable": readable(case["tree"]),
            "flags": dict(zip(("include_hidden", "include_junk", "follow_symlinks"), case["flags"])),
            "globs": [glob_arg(g) for g in case["globs"]], "sort_by": case["spec_text"],
            "root_name": case["root_name"], "root_spelling": case.get("root_spelling", "plain"), "order_seed": case["order_seed"],
            "_raw": case_json(case)}


def readable(t):
    if t[0] == "F":
        return "file(%d)" % t[1]
    if t[0] == "B":
        return "dangling-link"
    if t[0] == "S":
        return t[1]
    if t[0] == "L":
        return {"link->" + ("sibling " + t[2] if t[2] else ""): readable(t[1])}
    return {n: readable(c) for n, c in t[1]}


def case_json(case):
    return json.dumps({k: case.get(k) for k in ("tree", "flags", "globs", "specs", "spec_text", "root_name", "root_spelling", "order_seed")})


def case_from_json(s):
    d = json.loads(s)

    def tree(t):
        if t[0] == "D":
            return ("D", [(n, tree(c)) for n, c in t[1]])
        if t[0] == "L":
            return ("L", tree(t[1]), t[2])
        return tuple(t)

    def toks(ts):
        return [("class", t[1], [tuple(x) for x in t[2]]) if t[0] == "class" else tuple(t) for t in ts]

    return {"tree": tree(d["tree"]), "flags": tuple(d["flags"]), "globs": [(g[0], toks(g[1])) for g in d["globs"]],
            "specs": [tuple(s) for s in d["specs"]], "spec_text": d["spec_text"], "root_name": d["root_name"],
            "root_spelling": d.get("root_spelling") or "plain", "order_seed": d["order_seed"]}


# ------------------------------------------------------------------ shrinking

def shrink(ctx, case, still_fails, budget=80):
    """greedy: drop directory entries, globs, sort keys, flags while the failure persists"""
    def variants(c):
        for i in range(len(c["globs"])):
            yield dict(c, globs=c["globs"][:i] + c["globs"][i + 1:])
        for i in range(len(c["specs"])):
            yield dict(c, specs=c["specs"][:i] + c["specs"][i + 1:], spec_text=c["spec_text"][:i] + c["spec_text"][i + 1:])
        for i in range(3):
            if c["flags"][i]:
                f = list(c["flags"]); f[i] = False
                yield dict(c, flags=tuple(f))
        if c["root_name"] != "root":
            yield dict(c, root_name="root")

        def drops(t):
            if t[0] == "D":
                for i, (n, ch) in enumerate(t[1]):
                    rest = [(m, x) for j, (m, x) in enumerate(t[1]) if j != i and not (x[0] == "L" and x[2] == n)]
                    yield ("D", rest)
                for i, (n, ch) in enumerate(t[1]):
                    for v in drops(ch):
                        yield ("D", t[1][:i] + [(n, v)] + t[1][i + 1:])
            elif t[0] == "L" and t[2] is None:
                for v in drops(t[1]):
                    yield ("L", v, None)
        for v in drops(c["tree"]):
            yield dict(c, tree=v)

    progress = True
    while progress and budget > 0:
        progress = False
        for v in variants(case):
            budget -= 1
            if budget <= 0:
                break
            try:
                if still_fails(v):
                    case, progress = v, True
                    break
            except Exception:
                continue
    return case


# ------------------------------------------------------------------ globset, concretely (X13)
# Model/Glob.v is a concrete model of globset 0.4.14 (Glob::new + compile_matcher().is_match, default options) and of
# Walker::globs. The tie: every generated (pattern, path) pair goes through the `glob_filter` hook with the single glob `g`
# (and, for a share of them, `!g`), which reveals is_match exactly, and through the extracted `Glob.glob_filter`; the error
# classification must agree (model None <-> hook error). A third, independent judge is `doc_regex`: a translation of the
# generator's own pattern structure into a Python regular expression written from the globset documentation (never from the
# model, never from glob.rs); it is applied where the documentation is unambiguous (see `doc_judges`).
#
# a structured pattern is a list of items
#   ("lit", ch)  ("any",)  ("star",)  ("class", negated, [(lo, hi), ...])  ("pre",)  ("suf",)  ("mid",)  ("alt", [branch, ...])
# ("pre" only first, "suf" only last, "mid" between two items; a branch is a non-empty list of items without "alt")

G_LITS = list("abcxyz") + list("abx") + [".", ".", "/", "/", "-", "_", " ", "0", "9", "A", "~", "+", "é", "ÿ", "☃", "!", "^", ","] \
    + ["*", "?", "[", "]", "{", "}", "\\"]
G_META = set("*?[]{}\\")          # written escaped when meant literally ("," only inside a group, "!" only first in a class)
G_PATH_ALPHA = ["a", "b", "x", "/", "/", ".", "[", "*", "\\", "{", "}", "é", "☃", "-", ",", "?", "]", "z", "0", " "]


def g_item(r, depth=0):
    k = r.random()
    if k < 0.46:
        return ("lit", r.choice(G_LITS))
    if k < 0.58:
        return ("any",)
    if k < 0.74:
        return ("star",)
    if k < 0.92 or depth:
        neg = r.random() < 0.3
        rs = []
        for _ in range(r.choice([1, 1, 2, 3])):
            q = r.random()
            if q < 0.45:
                c = r.choice(list("abcxyz09A._-/ ") + ["]", "*", "?", "[", "é", "!", "^", "\\", "{", ","])
                rs.append((c, c))
            elif q < 0.9:
                rs.append(r.choice([("a", "c"), ("a", "z"), ("0", "9"), ("A", "Z"), ("x", "z"), (" ", "/"), ("+", "-"), ("a", "a"), ("a", "é"), ("é", "ÿ")]))
            else:
                rs.append(("-", "-"))
        return ("class", neg, rs)
    return ("alt", [[g_item(r, 1) for _ in range(r.choice([1, 1, 2, 3]))] for _ in range(r.choice([1, 2, 2, 3]))])


def g_pattern(r):
    """a pattern inside the documented language: `**` only in its three legal positions, groups not nested, no empty branch"""
    n = r.choice([1, 1, 2, 2, 3, 3, 4, 5, 6])
    its = [g_item(r) for _ in range(n)]
    if r.random() < 0.2:
        its = [("pre",)] + its
    if r.random() < 0.2:
        its = its + [("suf",)]
    if len(its) >= 2 and r.random() < 0.22:
        i = r.randint(1, len(its) - 1)
        if its[i - 1][0] not in ("pre", "mid") and its[i][0] not in ("suf", "mid"):
            its = its[:i] + [("mid",)] + its[i:]
    if r.random() < 0.12:                           # a group whose branches use the recursive forms
        br = [[("pre",), ("lit", "s")], [("lit", "d"), ("suf",)], [("lit", "a"), ("mid",), ("lit", "b")], [("star",), ("lit", ".")]]
        r.shuffle(br)
        its = [t for t in its if t[0] not in ("pre", "suf")]
        k = r.random()
        g = ("alt", br[:r.randint(1, 3)])
        its = [g] if k < 0.3 else [g] + its if k < 0.6 else its + [g] if k < 0.85 else its[:1] + [g] + its[1:]
    return its


def g_class_text(neg, rs, r):
    """one spelling of the class: `]` must come first, a literal `-` last, `!`/`^` not first unless negating; None when this
    set has no spelling"""
    singles = [lo for lo, hi in rs if lo == hi]
    elems = [c for c in singles if c not in ("]", "-")] + [lo + "-" + hi for lo, hi in rs if lo != hi]
    head = "]" if "]" in singles else ""
    if not neg and not head and elems and elems[0] in ("!", "^"):
        j = next((i for i, e in enumerate(elems) if e not in ("!", "^")), None)
        if j is None:
            return None                                    # `[!]` / `[^]` cannot be written without negating
        elems[0], elems[j] = elems[j], elems[0]
    if not head and not elems and "-" not in singles:
        return None
    return "[" + ("!" if neg and r.random() < 0.6 else "^" if neg else "") + head + "".join(elems) + ("-" if "-" in singles else "") + "]"


def g_text(its, r, in_alt=False):
    """the pattern text of a structured pattern; None when this structure has no spelling"""
    out = []
    for t in its:
        k = t[0]
        if k == "lit":
            c = t[1]
            if c in G_META or (in_alt and c == ","):
                q = r.random()
                out.append("\\" + c if q < 0.6 or c == "\\" and q < 0.8 else "[" + c + "]")
            elif r.random() < 0.04:
                out.append("\\" + c)                      # a backslash in front of an ordinary character is ignored
            else:
                out.append(c)
        elif k == "any":
            out.append("?")
        elif k == "star":
            out.append("*")
        elif k == "class":
            c = g_class_text(t[1], t[2], r)
            if c is None:
                return None
            out.append(c)
        elif k == "pre":
            out.append("**/")
        elif k == "suf":
            out.append("/**")
        elif k == "mid":
            out.append("/**/")
        elif k == "alt":
            bs = [g_text(b, r, True) for b in t[1]]
            if any(b is None for b in bs):
                return None
            out.append("{" + ",".join(bs) + "}")
    text = "".join(out)
    # two stars that the structure did not mean as `**` must not touch
    return text


def g_well_formed(its):
    """the structure spells what it means: no two `*` adjacent unless they are one of the three recursive forms, and the
    recursive forms stand where the documentation allows them (after nothing or a `/`, before nothing or a `/`)"""
    flat = []
    for t in its:
        flat.append(t)
    for a, b in zip(flat, flat[1:]):
        if a[0] == "star" and b[0] in ("star", "pre", "suf", "mid"):
            return False
        if a[0] in ("pre", "mid") and b[0] in ("pre", "suf", "mid"):
            return False
        if a[0] in ("suf",):
            return False
        if b[0] == "mid" and a[0] in ("pre", "mid"):
            return False
        if a[0] == "lit" and a[1] == "/" and b[0] in ("pre", "suf", "mid"):
            return False
        if a[0] in ("pre", "mid") and b[0] == "lit" and b[1] == "/":
            return False
    for t in its:
        if t[0] == "alt":
            for b in t[1]:
                if not b or not g_well_formed(b) or any(x[0] == "alt" for x in b):
                    return False
                if b[0][0] in ("suf", "mid") or b[-1][0] in ("pre", "mid"):
                    return False
    if any(t[0] == "pre" for t in its[1:]) or any(t[0] == "suf" for t in its[:-1]):
        return False
    if its and (its[0][0] == "mid" or its[-1][0] == "mid"):
        return False
    # a group next to a star or a recursive form: the documentation does not say how `**` inside a branch sees its neighbours
    for a, b in zip(its, its[1:]):
        if a[0] == "alt" and (b[0] in ("pre", "suf", "mid") or any(x[-1][0] == "star" for x in a[1]) and b[0] == "star"):
            return False
        if b[0] == "alt" and a[0] in ("pre", "mid", "suf"):
            return False
        if b[0] == "alt" and a[0] == "star" and any(x[0][0] in ("star", "pre") for x in b[1]):
            return False
        if b[0] == "alt" and a[0] == "lit" and a[1] == "/" and any(x[0][0] == "pre" for x in b[1]):
            return False
        if a[0] == "alt" and b[0] == "lit" and b[1] == "/" and any(x[-1][0] == "suf" for x in a[1]):
            return False
        if b[0] == "alt" and any(x[0][0] == "pre" for x in b[1]):
            return False                                   # `x{**/s}`: "starts with **/" is about the glob, not about a branch
        if a[0] == "alt" and any(x[-1][0] == "suf" for x in a[1]):
            return False
    return True


def doc_regex(its):
    """The documented meaning as a Python regular expression over CHARACTERS (written from the `# Syntax` section of the
    globset documentation): `?` any single character, `*` zero or more characters (both cross `/`: literal_separator is off),
    a leading `**/` all directories, a trailing `/**` all sub-entries, an inner `/**/` zero or more directories, `{a,b}`
    either, `[ab]`/`[a-c]`/`[!ab]` a character (not) in the set, `\c` and `[c]` the character itself; the whole path."""
    def rx(items):
        o = []
        for t in items:
            k = t[0]
            if k == "lit":
                o.append(re.escape(t[1]))
            elif k == "any":
                o.append(".")
            elif k == "star":
                o.append(".*")
            elif k == "class":
                o.append("[" + ("^" if t[1] else "") + "".join(re.escape(lo) if lo == hi else re.escape(lo) + "-" + re.escape(hi)
                                                                for lo, hi in t[2]) + "]")
            elif k == "pre":
                o.append("(?:.*/)?")
            elif k == "suf":
                o.append("/.*")
            elif k == "mid":
                o.append("/(?:.*/)?")
            elif k == "alt":
                o.append("(?:" + "|".join(rx(b) for b in t[1]) + ")")
        return "".join(o)
    if its == [("pre",)]:
        return re.compile(".*", re.S)                      # "the glob `**` is allowed and means match everything"
    return re.compile(rx(its), re.S)


def g_has(its, kinds):
    return any(t[0] in kinds or (t[0] == "alt" and any(g_has(b, kinds) for b in t[1])) for t in its)


def doc_judges(its, text, path):
    """is this (pattern, path) pair one the documentation decides? Not when the pattern begins with `!` (imdl reads that as the
    polarity mark) and not when `?` or a class meets a non-ASCII path or a non-ASCII class member: the documentation says
    "character", the library matches BYTES (counted separately, see doc_char_vs_library_byte)"""
    if text.startswith("!"):
        return False
    if g_has(its, ("any", "class")):
        if not path.isascii():
            return False
        def cls_ascii(items):
            for t in items:
                if t[0] == "class" and not all(lo.isascii() and hi.isascii() for lo, hi in t[2]):
                    return False
                if t[0] == "alt" and not all(cls_ascii(b) for b in t[1]):
                    return False
            return True
        if not cls_ascii(its):
            return False
    return True


def g_instance(its, r):
    """a text the pattern is meant to match: every item instantiated"""
    out = []
    for t in its:
        k = t[0]
        if k == "lit":
            out.append(t[1])
        elif k == "any":
            out.append(r.choice(["a", "x", ".", "/", "0", "é"] if r.random() < 0.15 else ["a", "x", ".", "q"]))
        elif k == "star":
            out.append(r.choice(["", "", "x", "ab", "a/b", "/", ".txt", "é", "d/e/f"]))
        elif k == "class":
            neg, rs = t[1], t[2]
            if not neg:
                lo, hi = r.choice(rs)
                out.append(lo if r.random() < 0.6 or not (lo.isascii() and hi.isascii()) else chr(r.randint(ord(lo), ord(hi))))
            else:
                cands = [c for c in "aqx0.-/Z]" if not any(lo <= c <= hi for lo, hi in rs)]
                out.append(r.choice(cands) if cands else "q")
        elif k == "pre":
            out.append(r.choice(["", "", "d/", "d/e/", "/"]))
        elif k == "suf":
            out.append("/" + r.choice(["", "x", "x/y", "é"]))
        elif k == "mid":
            out.append(r.choice(["/", "/", "/m/", "/m/n/"]))
        elif k == "alt":
            out.append(g_instance(r.choice(t[1]), r))
    return "".join(out)


def g_mutate(p, r):
    k = r.random()
    if k < 0.28 and p:
        i = r.randrange(len(p))
        return p[:i] + r.choice(G_PATH_ALPHA) + p[i + 1:]
    if k < 0.48 and p:
        i = r.randrange(len(p))
        return p[:i] + p[i + 1:]
    if k < 0.62:
        return r.choice(["q/", "d/", "/", "x"]) + p
    if k < 0.76:
        return p + r.choice(["/q", "x", "/", ".bak"])
    if k < 0.88 and p:
        i = r.randrange(len(p) + 1)
        return p[:i] + r.choice(G_PATH_ALPHA) + p[i:]
    return "".join(r.choice(G_PATH_ALPHA) for _ in range(r.randint(0, 6)))


G_RAW = ["a", "b", "/", "*", "*", "?", "[", "]", "!", "^", "-", "{", "}", ",", "\\", ".", "é", "z", "**", "/**", "**/", "/**/", "[a-b]", "{a,b}",
         "ÿ", "☃", "x"]
# malformed patterns by construction, with the error the documentation names ("}" without "{" is documented as an error,
# `ErrorKind::UnopenedAlternates`, but globset 0.4.14 accepts it: counted, see glob_library)
G_BAD_TAILS = [("[", "unclosed-class"), ("[!", "unclosed-class"), ("[]", "unclosed-class"), ("[!]", "unclosed-class"), ("[a-", "unclosed-class"),
               ("[ab", "unclosed-class"), ("[^]a", "unclosed-class"), ("[z-a]", "invalid-range"), ("[b-a]x", "invalid-range"),
               ("[c-d-a]", "invalid-range"), ("[9-0]", "invalid-range"), ("[z--]", "invalid-range"), ("[é-a]", "invalid-range"),
               ("[ÿ-é]", "invalid-range"), ("{a", "unclosed-alternates"), ("{a,b", "unclosed-alternates"), ("{", "unclosed-alternates"),
               ("{a,", "unclosed-alternates"), ("{a{b}}", "nested-alternates"), ("{{a}", "nested-alternates"), ("{a,{b,c}}", "nested-alternates"),
               ("\\", "dangling-escape"), ("a\\", "dangling-escape"), ("{a\\", "dangling-escape"), ("}", "unopened-brace"),
               ("a}b", "unopened-brace"), ("{a}}", "unopened-brace")]

# hand-written patterns: every construct, every position of `**` (legal and not), every error kind, the spellings of `]` `-`
# `!` `^` in classes, escapes, groups with empty / single / recursive branches, non-ASCII. Each also runs end to end.
G_CORPUS = ["a", "a/b", "*.txt", "*", "**", "**/", "/**", "**/*", "**/**", "**/**/*", "a/**", "a/**/**", "a/**/b", "a/**/**/b", "**/b",
            "**/b/c", "/**/b", "a**", "**a", "a**b", "***", "a/**b", "a**/b", "/a**", "**/a/**", "*/*", "*/*/*", "?", "??", "a?b", "?.txt",
            "*.t?t", "[ab]", "[a-c]", "[!a-c]", "[^a-c]", "[]]", "[]a]", "[!]]", "[-]", "[a-]", "[-a]", "[--z]", "[ --]", "[a-b-c]", "[!!]", "[!^]",
            "[a^]", "[*]", "[?]", "[[]", "[\\]", "[\\]]", "[/]", "a[/]b", "[é]", "[é]?", "[a-é]", "[é-ÿ]", "é", "☃", "*é", "?é", "\\*", "\\?", "\\[",
            "\\\\", "\\a", "\\é", "a\\/b", "\\{a\\}", "{a,b}", "{a}", "{}", "{,}", "{,a}", "a{}b", "{a,b}c", "x{a,b}y", "{a,b}{c,d}", "{*.txt,*.rs}",
            "{**/src/**,b}", "{a/**,b}", "{**/a,b}", "x{**/a}", "{a,b/**/c}", "{a\\,b}", "{a\\,**}", "{[}],b}", "{a,b},c", "a,b", ",", "}", "a}",
            "}a", "{a}}", "!a", "!*", "!", "!!a", "a!b", "-a", "--", " ", "a b", ".*", ".*/**", "**/.*", "*.tar.gz", "src/**/*.rs", "**/test_*",
            "[0-9][0-9]", "[a-z]*", "*[0-9]", "Thumbs.db", "**/Thumbs.db", "[", "[a", "[!", "[]", "[z-a]", "{a", "{a,b", "{a{b}}", "\\", "a\\",
            "a/", "/a", "//", "a//b", "./a", "../a", "a/./b", "*/", "/*", "?/?", "*?*", "?*?", "**?", "?**", "[a-c]**", "**[a-c]", "**{a,b}",
            "{a,b}**", "{a,b}/**", "**/{a,b}", "a/**/{b,c}", "{a/**/b}", "{**}", "{**,a}", "{a,**}", "{/**}", "{**/}", "a{/**}", "{**/}a"]


def gen_glob_pairs(ctx):
    """-> list of dict(text, its or None, paths: [(path, kind)], stream)"""
    r = ctx.rng
    out = []
    # --- structured patterns (the documented language), paths derived from the pattern
    n_struct = ctx.n(2600, 40000)
    tries = 0
    while len(out) < n_struct and tries < n_struct * 20:
        tries += 1
        its = g_pattern(r)
        if not g_well_formed(its):
            continue
        text = g_text(its, r)
        if text is None:
            continue
        paths = []
        for _ in range(3):
            paths.append((g_instance(its, r), "instance"))
        inst = g_instance(its, r)
        for _ in range(3):
            paths.append((g_mutate(inst, r), "mutant"))
        paths.append(("".join(r.choice(G_PATH_ALPHA) for _ in range(r.randint(0, 6))), "random"))
        out.append({"text": text, "its": its, "paths": paths, "stream": "structured"})
    # --- raw text over a metacharacter-heavy alphabet: `**` everywhere, stray brackets and braces, escapes
    for _ in range(ctx.n(900, 15000)):
        text = "".join(r.choice(G_RAW) for _ in range(r.randint(0, 7)))
        paths = []
        for _ in range(3):
            paths.append(("".join(c if c not in "*?[]{}\\!^" else r.choice(["", "a", "/", "a/b", c]) for c in text), "derived"))
        for _ in range(2):
            paths.append(("".join(r.choice(G_PATH_ALPHA) for _ in range(r.randint(0, 6))), "random"))
        out.append({"text": text, "its": None, "paths": paths, "stream": "raw"})
    # --- malformed by construction
    for _ in range(ctx.n(300, 5000)):
        its = g_pattern(r)
        head = (g_text(its, r) or "a") if g_well_formed(its) and not g_has(its, ("alt",)) else r.choice(["", "a", "a/", "*.", "x?"])
        tail, kind = r.choice(G_BAD_TAILS)
        # an unclosed class or a dangling backslash is only certain at the very end of the text
        text = head + tail if r.random() < 0.7 or kind in ("unclosed-class", "dangling-escape") else tail + head
        out.append({"text": text, "its": None, "paths": [("a", "random"), (head, "derived")], "stream": "malformed", "doc_error": kind})
    # --- the corpus
    for text in G_CORPUS:
        plain = "".join(c for c in text if c not in "*?[]{}\\")
        paths = [(plain, "derived"), ("a", "random"), ("a/b", "random"), ("a/x/b", "random"), ("b", "random"), ("", "random"), ("é", "random"),
                 ("x.txt", "random"), ("d/x.txt", "random"), ("src/a/b.rs", "random"), ("/", "random"), ("a/", "random"), ("]", "random"),
                 ("*", "random"), ("\\", "random"), ("a,b", "random"), ("-", "random"), ("^", "random"), ("!", "random"), ("c", "random")]
        out.append({"text": text, "its": None, "paths": paths, "stream": "corpus"})
    return out


def glob_library(ctx):
    """the tie between Model/Glob.v and globset as imdl calls it; returns True when they agreed everywhere"""
    r = ctx.rng
    cases = gen_glob_pairs(ctx)
    # token kinds / error kinds as the model parses them (distribution only)
    for c, rep in zip(cases, ctx.model(["gparse %s" % lib.hexs(c["text"]) for c in cases])):
        c["parse"] = rep
        if rep.startswith("ERR "):
            ctx.count("glob_model_error_" + rep[4:])
        elif rep.startswith("OK "):
            ctx.count("glob_patterns_parsed")
            for tok in re.findall(r"[LQSPXMCA]", re.sub(r"[0-9a-f]+", "", rep[3:])):
                ctx.count("glob_token_" + {"L": "literal", "Q": "any", "S": "zero_or_more", "P": "recursive_prefix", "X": "recursive_suffix",
                                           "M": "recursive_zero_or_more", "C": "class", "A": "alternates"}[tok])
        else:
            ctx.violation("model-impl-disagreement", "the glob model did not answer on %r: %s" % (c["text"], rep), {"pattern": c["text"], "model": rep})
    items = []            # (case, path, kind, negated?)
    for c in cases:
        for path, kind in c["paths"]:
            items.append((c, path, kind, False))
            if r.random() < 0.3:
                items.append((c, path, kind, True))
    hl = ["globf %s %s" % (lib.hexlist([("!" if neg else "") + c["text"]]), lib.hexs(p)) for c, p, _, neg in items]
    ml = ["gfilter %s %s" % (lib.hexlist([("!" if neg else "") + c["text"]]), lib.hexs(p)) for c, p, _, neg in items]
    ok = True
    nshown = ndoc = 0
    pairs_seen = set()
    for (c, path, kind, neg), hr, mr, hline in zip(items, ctx.harness(hl), ctx.model(ml), hl):
        ctx.cov["evaluations"] += 1
        ctx.cov["traces_validated_against_impl"] += 1
        h = "ERR" if hr.startswith("ERR ") else hr
        first = (c["text"], path) not in pairs_seen
        pairs_seen.add((c["text"], path))
        if first:
            ctx.count("glob_pairs")
            ctx.count("glob_pairs_" + c["stream"])
            ctx.count("glob_path_" + kind)
        banged = c["text"].startswith("!")            # the argument's own first `!` is the polarity mark
        excluding = neg or banged
        if h in ("OK 0", "OK 1"):
            matched = (h == "OK 1") != excluding if not (neg and banged) else None
            if first and matched is not None:
                ctx.count("glob_pair_match" if matched else "glob_pair_no_match")
        elif first and h == "ERR":
            ctx.count("glob_pair_error")
        ctx.distinct(("globlib", c["stream"], h, kind, neg, (c["parse"] or "")[:3], len(c["text"]) // 3))
        rec = {"glob_argument": ("!" if neg else "") + c["text"], "path": path, "hook": hr if not hr.startswith("ERR ") else "ERR " + lib.unhex(hr[4:]).decode("utf-8", "replace"),
               "model": mr, "model_tokens": c["parse"], "stream": c["stream"], "reproduce": "printf '%s\\n' | imdl-verif-harness" % hline}
        if h != mr:
            ok = False
            ctx.cov["disagreements_checked"] += 1
            if nshown < 5:
                nshown += 1
                ctx.violation("model-impl-disagreement",
                              "Glob.glob_filter and globset (through Walker::pattern_filter) differ on --glob %r, path %r: hook %s, model %s"
                              % (rec["glob_argument"], path, rec["hook"], mr), rec)
            continue
        # --- the documented error kinds (malformed stream)
        if c["stream"] == "malformed" and not neg and first and path == "a":
            if c["doc_error"] == "unopened-brace":
                ctx.count("doc_says_error_library_accepts_unopened_brace" if h != "ERR" else "unopened_brace_refused")
            elif h != "ERR":
                ok = False
                ctx.violation("assumption-broken", "globset accepts %r, which its documentation calls an error (%s)" % (c["text"], c["doc_error"]),
                              dict(rec, documented_error=c["doc_error"]))
            else:
                ctx.count("doc_error_" + c["doc_error"])
        # --- the documentation as third judge
        if c["its"] is not None and h != "ERR":
            want_match = bool(doc_regex(c["its"]).fullmatch(path))
            if doc_judges(c["its"], c["text"], path):
                ctx.count("glob_doc_oracle_judged")
                want = "OK %d" % (1 if want_match != neg else 0)
                if h != want:
                    ok = False
                    ndoc += 1
                    ctx.count("glob_doc_oracle_disagreements")
                    if ndoc <= 5:
                        ctx.violation("assumption-broken",
                                      "globset disagrees with its documented meaning on --glob %r, path %r: hook %s, documentation %s"
                                      % (rec["glob_argument"], path, h, want), dict(rec, documentation=want, regex=doc_regex(c["its"]).pattern))
            elif not c["text"].startswith("!"):
                got_match = (h == "OK 1") != neg
                ctx.count("doc_char_vs_library_byte_same" if got_match == want_match else "doc_char_vs_library_byte_differs")
        elif c["its"] is not None and h == "ERR":
            ok = False
            ctx.violation("assumption-broken", "globset refuses %r, a pattern of the documented language" % c["text"], rec)
    for c in cases[:3] + [x for x in cases if x["stream"] == "raw"][:2]:
        ctx.sample({"glob": c["text"], "tokens_as_parsed_by_the_model": c["parse"], "paths": [p for p, _ in c["paths"]][:4]})
    return ok


def glob_e2e(ctx):
    """every corpus pattern (and a sample of generated ones) end to end: `imdl torrent create --glob=G` on a tiny tree whose
    paths are derived from the pattern, against the extracted Walk.walk with the concrete matcher (`walkg`), and against the
    documented meaning where it decides"""
    r = ctx.rng
    pats = [(t, None) for t in G_CORPUS]
    want = ctx.n(320, 3000)
    tries = 0
    while len(pats) < want and tries < want * 30:
        tries += 1
        its = g_pattern(r)
        if g_well_formed(its):
            t = g_text(its, r)
            if t is not None:
                pats.append((t, its))
        if r.random() < 0.25:
            pats.append(("".join(r.choice(G_RAW) for _ in range(r.randint(1, 6))), None))
    fixed = ["a", "b", "a/b", "a/x/b", "x.txt", "d/x.txt", "src/a/b.rs", "src/lib.rs", "é", "d/é", "a,b", "]", "-", "c/Thumbs.db", ".h/x"]

    def usable(p, have):
        comps = p.split("/")
        if not p or len(p.encode()) > 120 or "\x00" in p or any(c in ("", ".", "..") for c in comps):
            return False
        for q in have:                                         # no path may be a directory of another
            qc = q.split("/")
            if qc[:len(comps)] == comps or comps[:len(qc)] == qc:
                return False
        return True

    cases = []
    for text, its in pats:
        cand = []
        plain = "".join(c for c in text if c not in "*?[]{}\\")
        if its is not None:
            inst = [g_instance(its, r) for _ in range(4)]
            cand += inst + [g_mutate(inst[0], r) for _ in range(3)]
        else:
            cand += [plain, plain + "/q", "q/" + plain, plain.replace("/", "")]
        files = []
        for p in cand + r.sample(fixed, 6):
            if usable(p, files):
                files.append(p)
        if not files:
            files = ["a"]
        neg = r.random() < 0.35
        cases.append({"glob": ("!" if neg else "") + text, "its": its, "neg": neg, "files": sorted(files)})
    tmp = tempfile.mkdtemp(prefix="c06g-")

    def one(c):
        top = tempfile.mkdtemp(prefix="g-", dir=tmp)
        try:
            for i, p in enumerate(c["files"]):
                full = os.path.join(os.fsencode(top), b"root", p.encode())
                os.makedirs(os.path.dirname(full), exist_ok=True)
                with open(full, "wb") as f:
                    f.write(b"x" * (1 + i % 3))
            argv = ["torrent", "create", "--input", "root", "--output", "-", "--include-hidden", "--include-junk", "--glob=" + c["glob"]]
            rc, out, err = ctx.imdl(argv, cwd=top, timeout=60)
            return impl_canon(rc, out), argv
        finally:
            shutil.rmtree(top, ignore_errors=True)

    def tree_of(files):
        root = {}
        for i, p in enumerate(files):
            d = root
            comps = p.split("/")
            for cpt in comps[:-1]:
                d = d.setdefault(cpt, {})
            d[comps[-1]] = 1 + i % 3
        def enc(d):
            return "D(" + ";".join("%s:%s" % (k.encode().hex(), ("F%d" % v) if isinstance(v, int) else enc(v)) for k, v in d.items()) + ")"
        return enc(root)

    try:
        impl = lib.pmap(one, cases)
        model = [model_canon(x.replace("OK GLOBERR", "OK FAILED")) for x in
                 ctx.model(["walkg 110 %s ~ %s" % (lib.hexlist([c["glob"]]), tree_of(c["files"])) for c in cases])]
        for c, (a, argv), m in zip(cases, impl, model):
            ctx.cov["evaluations"] += 1
            ctx.cov["traces_validated_against_impl"] += 1
            ctx.count("glob_e2e")
            ctx.count("glob_e2e_" + ("error" if a == "ERR" else "empty" if a == "LIST ~" else "all" if a.count(",") + 1 == len(c["files"]) else "some"))
            ctx.distinct(("globe2e", c["glob"][:2], a.split(" ")[0], len(c["files"])))
            rec = {"glob": c["glob"], "files": c["files"], "impl": a, "model": m,
                   "reproduce": "create the files under ./root (any content), then: imdl " + " ".join(shlex.quote(x) for x in argv)}
            if c["its"] is not None and a != "ERR":
                rx = doc_regex(c["its"])
                judged = [p for p in c["files"] if doc_judges(c["its"], c["glob"][1:] if c["neg"] else c["glob"], p)]
                if len(judged) == len(c["files"]):
                    keep = [(tuple(x.encode() for x in p.split("/")), 1 + c["files"].index(p) % 3) for p in c["files"]
                            if bool(rx.fullmatch(p)) != c["neg"]]
                    keep.sort()
                    wantl = canon_list(keep)
                    ctx.count("glob_e2e_doc_oracle_judged")
                    if a != wantl:
                        ctx.violation("oracle-failure", "`imdl torrent create --glob=%s` on files %r lists %s; by the documented meaning of the glob it is %s"
                                      % (c["glob"], c["files"], a, wantl), dict(rec, documentation=wantl))
                        continue
            if a != m:
                ctx.cov["disagreements_checked"] += 1
                ctx.violation("model-impl-disagreement", "Walk.walk over Glob.glob_match and `imdl torrent create --glob=%s` differ on files %r: impl %s, model %s"
                              % (c["glob"], c["files"], a, m), rec)
    finally:
        shutil.rmtree(tmp, ignore_errors=True)


# ------------------------------------------------------------------ the run

def run(ctx):
    ctx.need_coq()
    if not ctx.need_rust() or not ctx.need_runner():
        return finish(ctx)
    r = ctx.rng
    glob_assumption_ok = validate_globs(ctx)
    glob_assumption_ok = glob_library(ctx) and glob_assumption_ok
    e2e(ctx, glob_assumption_ok)      # first: its failures replay on the real binary
    glob_e2e(ctx)
    undecodable_names(ctx)
    hooks_at_volume(ctx)
    malformed(ctx)
    return finish(ctx)


def undecodable_names(ctx):
    """A file whose name is not valid UTF-8 cannot be listed in a torrent; it must only matter when it would be listed. When
    the documented filters leave it out (a glob that excludes it, a hidden name, a junk name is not possible here), the other
    files are listed as if it were not there. Oracle only - the model's names are UTF-8. (Added after seeded change C06-8:
    the path was decoded before the glob filter, so an excluded file aborted the whole run.)"""
    bad = b"r\xe9sum\xe9"
    layouts = [
        ("undecodable file excluded by an including glob", {b"a.txt": 3, b"b.txt": 1, b"sub/c.txt": 2, bad + b".bak": 4}, ["--glob", "*.txt"],
         [[b"a.txt"], [b"b.txt"], [b"sub", b"c.txt"]]),
        ("undecodable file excluded by a negated glob", {b"a.txt": 3, b"sub/c.txt": 2, b"sub/" + bad + b".bak": 4}, ["--glob", "!*.bak"],
         [[b"a.txt"], [b"sub", b"c.txt"]]),
        ("undecodable hidden file", {b"a.txt": 3, b"." + bad: 4, b"sub/.h" + bad: 1, b"sub/c.txt": 2}, [],
         [[b"a.txt"], [b"sub", b"c.txt"]]),
        ("file in an undecodable directory excluded by a glob", {b"a.txt": 3, bad + b"/x.bak": 4, b"b.txt": 2}, ["--glob", "!*.bak"],
         [[b"a.txt"], [b"b.txt"]]),
        ("undecodable hidden directory", {b"a.txt": 3, b"." + bad + b"/x": 4}, [], [[b"a.txt"]]),
    ]
    for label, files, extra, want in layouts:
        top = tempfile.mkdtemp(prefix="c06u-")
        try:
            for rel, size in files.items():
                p = os.path.join(os.fsencode(top), b"root", rel)
                os.makedirs(os.path.dirname(p), exist_ok=True)
                with open(p, "wb") as f:
                    f.write(b"x" * size)
            rc, out, err = ctx.imdl(["torrent", "create", "--input", "root", "--output", "-"] + extra, cwd=top, timeout=60)
            ctx.cov["evaluations"] += 1
            ctx.count("e2e_undecodable_names")
            ctx.distinct(("undecodable", label))
            got = None
            if rc == 0:
                try:
                    v, _ = lib.bdecode_strict(out)
                    got = [lib.dget(f, "path") for f in lib.dget(lib.dget(v, "info"), "files")]
                except Exception:
                    got = None
            if got != want:
                ctx.violation("oracle-failure",
                              "%s: `imdl torrent create --input root --output - %s` exited %d listing %r; the files that pass the filters are %r"
                              % (label, " ".join(extra), rc, got, want),
                              {"kind": "undecodable-names", "label": label, "files": {k.hex(): v for k, v in files.items()},
                               "argv": ["imdl", "torrent", "create", "--input", "root", "--output", "-"] + extra, "rc": rc,
                               "stderr": err.decode("utf-8", "replace")[-300:], "listed": repr(got), "expected": repr(want),
                               "reproduce": "create the files (names are hex of the bytes, sizes in bytes) under ./root, then run argv"})
        finally:
            shutil.rmtree(top, ignore_errors=True)


def corpus_cases():
    """hand-written edge cases; run before any generated case in every tier"""
    F = lambda n: ("F", n)
    D = lambda *es: ("D", list(es))
    base = D(("a", D(("x", F(2)), (".y", F(1)), ("Thumbs.db", F(3)))), ("a b", F(2)), ("a.b", F(2)), ("a-b", F(2)),
             ("b", F(1)), (".h", D(("x", F(1)), ("sub", D(("deep", F(4)))))), ("Desktop.ini", D(("q", F(7)))),
             ("thumbs.db", F(1)), ("l", ("L", F(5), None)), ("ld", ("L", D(("o", F(9)), (".p", F(1))), None)),
             ("s", D((".hd", D(("c", F(2)))), ("Desktop.ini", F(1)), ("t", F(2)))), ("in", ("L", F(1), "b")))
    out = []
    for flags in [(h, j, f) for h in (False, True) for j in (False, True) for f in (False, True)]:
        out.append({"tree": base, "flags": flags, "globs": [], "specs": [], "spec_text": [], "root_name": "root", "order_seed": 1})
    star_txt = (True, [("star",), ("lit", "b")])
    for globs, specs, st in [
        ([(True, [("lit", "a"), ("suf",)])], [("size", True)], ["size:descending"]),
        ([(False, [("pre",), ("lit", "x")])], [("size", False), ("path", True)], ["size", "path:descending"]),
        ([star_txt, (False, [("lit", "a"), ("star",)]), (True, [("lit", "a.b")])], [("path", True)], ["path:descending"]),
        ([(False, [("star",)]), (True, [("lit", "s"), ("mid",), ("lit", "c")])], [], []),
        ([], [("size", False), ("size", True)], ["size:ascending", "size:descending"]),
    ]:
        out.append({"tree": base, "flags": (True, False, True), "globs": globs, "specs": specs, "spec_text": st,
                    "root_name": ".root", "order_seed": 2})
    for t in [("L", base, None), ("L", F(3), None), F(4), ("B",), D(), D((".only", F(1))),
              D(("d", ("B",)), ("f", F(1))), D((".d", ("B",)), ("f", F(1))), D((".hd", D(("d", ("B",)))), ("f", F(1)))]:
        for follow in (False, True):
            out.append({"tree": t, "flags": (False, False, follow), "globs": [], "specs": [], "spec_text": [],
                        "root_name": "root", "order_seed": 3})
    return out


def e2e(ctx, glob_ok):
    r = ctx.rng
    cases = corpus_cases()
    ncorpus = len(cases)
    ntrees = ctx.n(400, 5000)
    per_tree = 4
    for _ in range(ntrees):
        t = gen_root(r)
        for _ in range(per_tree):
            cases.append(gen_case(r, t))
    if not glob_ok:
        for c in cases:
            c["globs"] = []
    tmp = tempfile.mkdtemp(prefix="c06run-")
    try:
        for c in cases:
            c["tmp"] = tmp
        impl = lib.pmap(lambda c: run_impl(ctx, c), cases)
        model = [model_canon(x) for x in ctx.model([model_line(c) for c in cases])]
        # the same walk with the concrete glob matcher of Model/Glob.v: the model reads the --glob texts itself
        model_g = [model_canon(x.replace("OK GLOBERR", "OK FAILED")) for x in ctx.model([model_line_globs(c) for c in cases])]
        nshrunk = 0
        for i, (c, (outs, script), m, mg) in enumerate(zip(cases, impl, model, model_g)):
            ctx.cov["evaluations"] += 1
            ctx.cov["traces_validated_against_impl"] += 1
            want = oracle(c)
            a, b = outs[0], outs[1]
            rec = dict(describe(c), impl=a, impl_other_creation_order=b, model=m, model_with_concrete_globs=mg, oracle=sorted(want),
                       reproduce=script)
            kind = ("corpus" if i < ncorpus else "generated")
            ctx.count("e2e_" + kind)
            ctx.count("flags_h%dj%df%d" % c["flags"])
            ctx.count("globs_%d" % len(c["globs"]))
            ctx.count("sort_keys_%d" % len(c["specs"]))
            ctx.count("root_" + {"D": "dir", "F": "file", "L": "symlink", "B": "dangling"}[c["tree"][0]])
            if has_special(c["tree"]):
                ctx.count("trees_with_fifo_or_socket")
            ctx.count("outcome_" + a.split(" ")[0])
            if a.startswith("LIST"):
                n = 0 if a == "LIST ~" else a.count(",") + 1
                ctx.count("listed_files_%s" % ("0" if n == 0 else "1-3" if n <= 3 else "4-9" if n <= 9 else "10+"))
            ctx.distinct((c["flags"], len(c["globs"]), tuple(c["specs"]), a))
            if i in (0, ncorpus, ncorpus + 5):
                ctx.sample({k: rec[k] for k in ("tree_readable", "flags", "globs", "sort_by", "impl", "model")})
            bad = None
            if a != b:
                bad = "the listing depends on the order in which the directory entries were created"
            elif a not in want:
                bad = "imdl's outcome differs from the documented one"
            if bad and nshrunk >= 3:
                ctx.violation("oracle-failure", "%s: %s flags %s globs %s sort-by %s -> %s, documented %s (not shrunk)" % (
                    bad, json.dumps(rec["tree_readable"], ensure_ascii=False), rec["flags"], rec["globs"], rec["sort_by"],
                    a if a == b else "%s / %s" % (a, b), " or ".join(rec["oracle"])), rec)
            elif bad:
                nshrunk += 1

                def still(v):
                    v = dict(v, tmp=tmp)
                    o, _ = run_impl(ctx, v)
                    return o[0] != o[1] or o[0] not in oracle(v)
                small = shrink(ctx, c, still, budget=ctx.n(60, 200))
                small = dict(small, tmp=tmp)
                o, sc = run_impl(ctx, small)
                rec = dict(describe(small), impl=o[0], impl_other_creation_order=o[1], oracle=sorted(oracle(small)),
                           model=model_canon(ctx.model([model_line(small)])[0]), reproduce=sc, before_shrinking=describe(c))
                ctx.violation("oracle-failure", "%s: root %s flags %s globs %s sort-by %s -> %s, documented %s" % (
                    bad, json.dumps(rec["tree_readable"], ensure_ascii=False), rec["flags"], rec["globs"], rec["sort_by"],
                    o[0] if o[0] == o[1] else "%s / %s" % (o[0], o[1]), " or ".join(rec["oracle"])), rec)
            elif a != m:
                ctx.cov["disagreements_checked"] += 1
                ctx.violation("model-impl-disagreement",
                              "Walk.walk and Walker::files differ (impl %s, model %s); the documented rules are satisfied" % (a, m), rec)
            elif a != mg:
                ctx.cov["disagreements_checked"] += 1
                ctx.violation("model-impl-disagreement",
                              "Walk.walk over the concrete matcher Glob.glob_match and Walker::files differ (impl %s, model %s); the "
                              "documented rules are satisfied" % (a, mg), rec)
    finally:
        shutil.rmtree(tmp, ignore_errors=True)


def validate_globs(ctx):
    """the glob sub-language: globset (through Walker::pattern_filter with ONE include glob) must agree with
    glob_regex on every (glob, path) pair; otherwise the Section hypothesis about gmatch is not what we think"""
    r = ctx.rng
    pairs = []
    for _ in range(ctx.n(400, 6000)):
        t = gen_dir(r, 3, False, lo=1, hi=5)
        paths = [[c.decode() for c in comps] for comps, _, _ in reachable_files(t, True)]
        if not paths:
            continue
        for _ in range(3):
            g = gen_glob(r, paths)
            for p in r.sample(paths, min(4, len(paths))) + [[r.choice(PLAIN)]]:
                pairs.append((g[1], "/".join(p)))
    # a pattern that itself begins with `!` can only be given as an excluding glob (`!!name`): then a match means "left out"
    banged = lambda g: glob_text(g).startswith("!")
    lines = ["globf %s %s" % (lib.hexlist([("!" if banged(g) else "") + glob_text(g)]), lib.hexs(p)) for g, p in pairs]
    ok = True
    nmatch = 0
    for (g, p), rep in zip(pairs, ctx.harness(lines)):
        ctx.cov["evaluations"] += 1
        hit = bool(glob_regex(g).fullmatch(p.encode()))
        want = "OK %d" % (1 if hit != banged(g) else 0)
        nmatch += hit
        if rep != want:
            ok = False
            ctx.violation("assumption-broken",
                          "globset disagrees with the documented meaning of glob %r on path %r (hook %s, expected %s)"
                          % (glob_text(g), p, rep, want),
                          {"hypothesis": "gmatch = globset GlobMatcher::is_match restricted to the validated sub-language",
                           "glob": glob_text(g), "path": p, "hook": rep, "expected": want,
                           "reproduce": "printf 'globf %s %s\\n' | imdl-verif-harness" % (lib.hexlist([glob_text(g)]), lib.hexs(p))})
            break
    ctx.count("glob_validation_pairs", len(pairs))
    ctx.count("glob_validation_matching", nmatch)
    return ok


def hooks_at_volume(ctx):
    r = ctx.rng
    # --- SortSpec::compare
    names = PLAIN + HIDDEN + JUNKISH
    items = []
    for _ in range(ctx.n(4000, 150000)):
        specs = [(r.choice(["path", "size"]), r.random() < 0.5) for _ in range(r.choice([0, 0, 1, 1, 2, 3, 4]))]
        a = [r.choice(names) for _ in range(r.randint(1, 4))]
        k = r.random()
        if k < 0.25:
            b = list(a)                                   # same path
        elif k < 0.5:
            b = a[:r.randint(1, len(a))] + [r.choice(names) for _ in range(r.randint(0, 2))]   # shared prefix
        elif k < 0.65:
            b = ["/".join(a).replace("/", r.choice([" ", ".", "-", "0"]))] if len(a) > 1 else a + ["x"]  # string-order trap
        else:
            b = [r.choice(names) for _ in range(r.randint(1, 4))]
        la = r.choice(SIZES + [2 ** 32, 2 ** 63, 2 ** 64 - 1])
        lb = la if r.random() < 0.5 else r.choice(SIZES + [2 ** 32 + 1, 2 ** 64 - 1])
        items.append((specs, a, la, b, lb))
    hl = ["sortcmp %s %s %d %s %d" % (lib.hexlist([r.choice(SPEC_TEXT[s]) for s in specs]), lib.hexlist(a), la, lib.hexlist(b), lb)
          for specs, a, la, b, lb in items]
    ml = ["wsortcmp %s %s %d %s %d" % (",".join(("p" if k == "path" else "s") + ("-" if d else "+") for k, d in specs) or "~",
                                        "/".join(x.encode().hex() for x in a), la, "/".join(x.encode().hex() for x in b), lb)
          for specs, a, la, b, lb in items]
    for it, hr, mr, hline in zip(items, ctx.harness(hl), ctx.model(ml), hl):
        specs, a, la, b, lb = it
        ctx.cov["evaluations"] += 1
        ctx.cov["traces_validated_against_impl"] += 1
        want = "OK %d" % oracle_cmp(specs, (tuple(x.encode() for x in a), la), (tuple(x.encode() for x in b), lb))
        ctx.distinct(("cmp", tuple(specs), want, a == b, la == lb))
        case = {"specs": specs, "a": [a, la], "b": [b, lb], "impl": hr, "model": mr, "oracle": want,
                "reproduce": "printf '%s\\n' | imdl-verif-harness" % hline}
        if hr != want:
            ctx.violation("oracle-failure", "SortSpec::compare(%s) on %s (%d bytes) vs %s (%d bytes) gives %s, documented order gives %s"
                          % (specs, "/".join(a), la, "/".join(b), lb, hr, want), case)
        elif hr != mr:
            ctx.cov["disagreements_checked"] += 1
            ctx.violation("model-impl-disagreement", "Walk.sort_compare differs from SortSpec::compare (%s vs %s)" % (mr, hr), case)
    ctx.count("sortcmp_cases", len(items))
    # --- Walker::pattern_filter, glob lists
    items = []
    for _ in range(ctx.n(1200, 40000)):
        t = gen_dir(r, 3, False, lo=1, hi=5)
        paths = [[c.decode() for c in comps] for comps, _, _ in reachable_files(t, True)]
        if not paths:
            continue
        globs = [gen_glob(r, paths) for _ in range(r.choice([0, 1, 1, 2, 2, 3, 4]))]
        for p in r.sample(paths, min(3, len(paths))):
            items.append((globs, "/".join(p)))
    hl = ["globf %s %s" % (lib.hexlist([glob_arg(g) for g in globs]), lib.hexs(p)) for globs, p in items]
    ml = ["wpfilter %s" % (",".join(("+" if inc else "-") + ("1" if glob_regex(tk).fullmatch(p.encode()) else "0")
                                    for inc, tk in globs) or "~") for globs, p in items]
    mg = ctx.model(["gfilter %s %s" % (lib.hexlist([glob_arg(g) for g in globs]), lib.hexs(p)) for globs, p in items])
    for (globs, p), hr, mr, mgr, hline in zip(items, ctx.harness(hl), ctx.model(ml), mg, hl):
        ctx.cov["evaluations"] += 1
        ctx.cov["traces_validated_against_impl"] += 1
        want = "OK %d" % (1 if glob_decides(globs, p.encode()) else 0)
        ctx.distinct(("glob", len(globs), tuple(g[0] for g in globs), want))
        case = {"globs": [glob_arg(g) for g in globs], "path": p, "impl": hr, "model": mr, "oracle": want,
                "reproduce": "printf '%s\\n' | imdl-verif-harness" % hline}
        if hr != want:
            ctx.violation("oracle-failure", "globs %s on path %r: pattern_filter gives %s, the documented precedence gives %s"
                          % ([glob_arg(g) for g in globs], p, hr, want), case)
        elif hr != mr:
            ctx.cov["disagreements_checked"] += 1
            ctx.violation("model-impl-disagreement", "Walk.pattern_filter differs from Walker::pattern_filter (%s vs %s)" % (mr, hr), case)
        elif hr != mgr:
            ctx.cov["disagreements_checked"] += 1
            ctx.violation("model-impl-disagreement", "Glob.glob_filter (Walker::globs + pattern_filter over the concrete matcher) differs from "
                          "the glob_filter hook (%s vs %s)" % (mgr, hr), dict(case, model_with_concrete_globs=mgr))
    ctx.count("globf_cases", len(items))


def malformed(ctx):
    """malformed stream: sort specs outside the documented KEY[:ORDER] language and unparsable globs must be
    refused (non-zero exit, nothing on stdout) - they have no meaning in the model"""
    tmp = tempfile.mkdtemp(prefix="c06bad-")
    try:
        os.mkdir(os.path.join(tmp, "root"))
        open(os.path.join(tmp, "root", "f"), "wb").write(b"x")
        bad = [["--sort-by", s] for s in ["", "Path", "path:", ":ascending", "size:up", "path:ascending:descending", "length",
                                           "size;path", " size", "SIZE:descending", "path:Ascending"]]
        bad += [["--glob", g] for g in ["[", "a[!", "{a", "a/**b/[", "[z-a]"]]
        bad += [["--sort-by"], ["--glob"]]

        def one(extra):
            rc, out, err = ctx.imdl(["torrent", "create", "--input", "root", "--output", "-"] + extra, cwd=tmp)
            return extra, rc, out
        for extra, rc, out in lib.pmap(one, bad):
            ctx.cov["evaluations"] += 1
            ctx.count("malformed_" + extra[0].strip("-"))
            if rc == 0 or out:
                ctx.violation("model-impl-disagreement",
                              "imdl accepted %r, which is outside the documented sort/glob language the model covers (rc %d, %d bytes on stdout)"
                              % (extra, rc, len(out)), {"argv": ["imdl", "torrent", "create", "--input", "root", "--output", "-"] + extra,
                                                        "rc": rc, "reproduce": "mkdir root; echo -n x > root/f; imdl torrent create --input root --output - "
                                                        + " ".join(shlex.quote(x) for x in extra)})
        # a root that does not exist
        rc, out, err = ctx.imdl(["torrent", "create", "--input", "nonexistent", "--output", "-"], cwd=tmp)
        ctx.cov["evaluations"] += 1
        ctx.count("malformed_missing_root")
        if rc == 0 or out:
            ctx.violation("oracle-failure", "create on a root that does not exist did not fail", {"rc": rc})
    finally:
        shutil.rmtree(tmp, ignore_errors=True)


def finish(ctx):
    ctx.assumptions += [
        "globset 0.4.14 is modelled, not assumed (Model/Glob.v): Glob::new is glob_parse, compile_matcher().is_match is "
        "glob_match, for every pattern that is valid UTF-8 (a Rust &str) and every path (bytes). What stays assumed about it: the "
        "regex crate matches the regex text globset writes according to the usual meaning of its fragments (literal bytes, `.`, "
        "`.*`, byte classes, `(?:a|b)`, `^..$` with (?-u) and dot-matches-newline) - the model has one matcher arm per fragment; "
        "validated by the glob_filter hook on every generated (pattern, path) pair of this run",
        "the precedence theorems over an arbitrary matcher (Section variable gmatch) remain; the instance is glob_path_match",
        "the `ignore` crate's walker (hidden(!include_hidden), follow_links(follow_symlinks), standard_filters(false)) yields "
        "every entry whose path has no hidden component below the root exactly once, descends through links only when "
        "following, and reports a dangling link as an error when following: Walk.yield / Walk.walk_error",
        "sibling names in a directory are distinct (wf_tree) - hypothesis of the uniqueness / order-independence theorems",
        "out of scope: --ignore, platform hidden attributes, non-UTF-8 names, symlink loops, files changing during the walk",
    ]
    return ctx.finish(
        rule="trees of depth <= 4 (hidden names, junk names incl. near misses and as directory names, names ordered differently "
             "component-wise and as strings, equal sizes, file/dir/dangling/sibling symlinks, symlink/file/dangling roots, "
             "hidden/junk-named roots), each built twice in different creation orders, x 4 random configurations (3 flags, 0-3 "
             "globs, 0-3 sort keys) + a fixed corpus over all 8 flag combinations; hooks: sort comparisons on related path pairs "
             "and glob lists on tree paths; globset itself: patterns built from the grammar (documented language), raw "
             "metacharacter text, malformed patterns, a fixed corpus, each with paths instantiated from the pattern, mutated, and "
             "random, through the hook with the single glob g and !g, and end to end on tiny trees; a case is distinct by (flags, #globs, sort keys, outcome) resp. (keys, result, "
             "same-path, same-size) resp. (glob polarities, result)",
        trusted_base=["Coq 8.16.1 kernel (coqc), vm_compute for closed instances", "tools/rs2v_walker.py (GenWalker)",
                      "extraction with ExtrOcamlBasic + runner/driver.d/walk.ml, runner/driver.d/glob.ml",
                      "Rust hooks sort_compare / glob_filter + harness line protocol; the real imdl binary",
                      "Python oracle, glob generators, doc_regex (the documented meaning of a glob) and tree builder in tools/props/c06.py; "
                      "lib.bdecode_strict",
                      "the regex crate behind globset implements the meaning of the regex fragments (see assumptions)"],
    )


def replay(ctx, path):
    rec = json.load(open(path))
    case = rec["case"]
    ctx.need_rust(); ctx.need_runner()
    if "_raw" not in case:
        print(json.dumps(case, indent=1, ensure_ascii=False)[:4000])
        if "reproduce" in case and "imdl-verif-harness" in case["reproduce"]:
            m = re.search(r"printf '(.*)\\n'", case["reproduce"])
            if m:
                print("impl :", ctx.harness([m.group(1)])[0])
        return 0
    c = case_from_json(case["_raw"])
    outs, script = run_impl(ctx, c)
    print("input :", json.dumps(describe(c)["tree_readable"], ensure_ascii=False), describe(c)["flags"],
          describe(c)["globs"], describe(c)["sort_by"])
    print("impl  :", outs[0])
    print("impl' :", outs[1], "(other creation order)")
    print("model :", model_canon(ctx.model([model_line(c)])[0]))
    print("oracle:", " or ".join(sorted(oracle(c))))
    print("shell :", script)
    return 0
