"""C03 — verify's verdict on any torrent equals an independent recomputation.

Obligations: coq/Properties/C03.v (verdict <=> declarative spec for every loaded torrent, tree,
read schedule; never success with piece length zero; content-root rule).
Correspondence: the real binary `imdl torrent verify` on torrents written by this generator (never
by `create`) x sandbox trees, against the extracted model (Verify.verify_cmd with SHA-1/MD5
instantiated in the driver) and against an independent Python reference verifier."""
import copy, os, shutil, tempfile
import lib
from props import vfy

MANIFEST = dict(
    text="Machine-checked proof over a model of the loader, the content-root rule, Verifier::new/hash/finish and FileError::verify: "
         "for every loaded torrent, every tree and every schedule of short reads the verdict is success exactly when the declarative "
         "statement holds (regular files of the listed length and MD5, whole piece list equal), and never with piece length zero. Tied "
         "to the code by running the extracted model and an independent reference verifier against the real binary on hostile torrents "
         "x trees. Right level: the claim is a biconditional over all torrents x all trees, which no finite test set settles.",
    ref="DESIGN.md section 5, C03",
    technique="Coq proof over a Gallina model + model/implementation correspondence run on the real binary + independent oracle",
    note="Assumed: SHA-1/MD5 are functions (Section variables); bendy's reader as modelled in Model/Bencode.v. Not modelled: symlinks, "
         "permissions, FIFOs; piece lengths >= 2^32 are treated as unsupported input. The command model loads through the one typed "
         "loader Summary.from_input (X4: every top-level and info key type-checked, i64 for skipped/buffered integers, nesting <= 2048, "
         "content size < 2^64); url::Host::parse / Url::parse are Section variables answered per case by the hooks host_parse / magnet_print. Trusted: Coq kernel, extraction, OCaml driver (SHA-1 checked against "
         "hashlib every run), Python oracle.")

MODES = ["content", "base", "default", "stdin", "stdin-content", "stdin-base"]


def _dir_st_size():
    d = tempfile.mkdtemp(prefix="c03-dirsize-")
    try:
        return os.stat(d).st_size
    finally:
        os.rmdir(d)


DIR_ST_SIZE = _dir_st_size()


def witness_zero_piece_length():
    """DESIGN section 6: {length 5, piece length 0, pieces ""} against a 5-byte file"""
    info = {b"name": b"f", b"piece length": 0, b"pieces": b"", b"length": 5}
    return {"tag": "corpus: piece length 0, nothing hashed", "tree": {b"f": b"hello"}, "torrent": {b"info": info},
            "mode": "content", "arg": b"f", "input": b"t.torrent"}


def perturbations(r, w, mode):
    """yield (tag, world', where_ok, torrent-override) — one thing changed in a consistent pair"""
    def clone():
        return copy.deepcopy(w)

    yield "consistent", clone(), True, None
    yield "content where another rule would look", clone(), False, None

    # --- md5sum
    x = clone()
    tgt = x.info[b"files"][r.randrange(len(x.info[b"files"]))] if x.multi else x.info
    tgt[b"md5sum"] = vfy.md5hex(b"something else")
    yield "wrong md5sum, right pieces", x, True, None
    # the digest of an entry with nothing in it is still a listed MD5 (added after seeded change C03-10: "an empty file has no
    # contents left to check" returned before the md5sum comparison)
    x = clone()
    empties = [e for e in (x.info[b"files"] if x.multi else [x.info]) if e.get(b"length") == 0]
    if empties:
        empties[r.randrange(len(empties))][b"md5sum"] = vfy.md5hex(b"something else")
        yield "wrong md5sum on a zero-length entry, right pieces", x, True, None
    # some entries list an MD5 and others do not: every listed one is checked (added after seeded change C03-17: the digests were
    # computed only when ALL entries list one)
    if w.multi and len(w.info[b"files"]) >= 2:
        x = clone()
        for e, (c, d) in zip(x.info[b"files"], x.files):
            e[b"md5sum"] = vfy.md5hex(d)
        order = list(range(len(x.info[b"files"]))); r.shuffle(order)
        x.info[b"files"][order[0]].pop(b"md5sum", None)
        x.info[b"files"][order[1]][b"md5sum"] = vfy.md5hex(b"something else")
        yield "md5sum on some entries only, one of them wrong, right pieces", x, True, None
        x = clone()
        for e, (c, d) in zip(x.info[b"files"], x.files):
            e[b"md5sum"] = vfy.md5hex(d)
        x.info[b"files"][order[0]].pop(b"md5sum", None)
        yield "md5sum on some entries only, all right", x, True, None
    x = clone()
    for e in (x.info[b"files"] if x.multi else [x.info]):
        if b"md5sum" in e:
            e[b"md5sum"] = e[b"md5sum"].upper() if r.random() < 0.5 else e[b"md5sum"]
        else:
            pass
    yield "md5sum in upper case", x, True, None
    x = clone()
    for e in (x.info[b"files"] if x.multi else [x.info]):
        e.pop(b"md5sum", None)
    yield "md5sum absent", x, True, None
    x = clone()
    if x.multi:
        for e, (c, d) in zip(x.info[b"files"], x.files):
            e[b"md5sum"] = vfy.md5hex(d)
    else:
        x.info[b"md5sum"] = vfy.md5hex(x.files[0][1])
    yield "md5sum present", x, True, None

    # --- piece list
    x = clone(); x.info[b"pieces"] += bytes(r.randrange(256) for _ in range(20))
    yield "one surplus piece hash", x, True, None
    x = clone(); x.info[b"pieces"] += x.info[b"pieces"][-20:]
    yield "last piece hash repeated", x, True, None
    if w.info[b"pieces"]:
        x = clone(); x.info[b"pieces"] = x.info[b"pieces"][:-20]
        yield "last piece hash missing", x, True, None
        x = clone(); x.info[b"pieces"] = x.info[b"pieces"][20:]
        yield "first piece hash missing", x, True, None
        x = clone()
        k = r.randrange(len(x.info[b"pieces"]))
        ps = bytearray(x.info[b"pieces"]); ps[k] ^= 1 << r.randrange(8); x.info[b"pieces"] = bytes(ps)
        yield "one piece hash altered", x, True, None
        if len(w.info[b"pieces"]) >= 40:
            x = clone(); ps = x.info[b"pieces"]; x.info[b"pieces"] = ps[20:40] + ps[:20] + ps[40:]
            yield "first two piece hashes swapped", x, True, None

    # --- foreign piece length (piece list untouched)
    for q, tag in ((w.p + 1, "p+1"), (max(w.p - 1, 0), "p-1"), (2 * w.p, "2p"), (1, "1"), (0, "0"),
                   ((1 << 32) - 1, "2^32-1"), (1 << 32, "2^32"), ((1 << 63) - 1, "2^63-1")):
        x = clone(); x.info[b"piece length"] = q
        yield "piece length " + tag, x, True, None
    x = clone(); x.info[b"piece length"] = 0; x.info[b"pieces"] = b""
    yield "piece length 0 and no pieces", x, True, None
    x = clone(); x.info[b"piece length"] = (1 << 32) - 1; x.repiece()
    yield "piece length 2^32-1, pieces recomputed", x, True, None
    x = clone(); x.info[b"piece length"] = 1 << 32; x.repiece()
    yield "piece length 2^32, pieces recomputed", x, True, None

    # --- the tree
    def set_file(x, i, node):
        if x.multi:
            vfy.tree_set(x.content, list(x.files[i][0]), node)
        else:
            x.content = node

    i = r.randrange(len(w.files))
    data = w.files[i][1]
    x = clone(); set_file(x, i, data + b"\0")
    yield "file one byte longer", x, True, None
    x = clone(); set_file(x, i, data + b"\0"); x.repiece()
    yield "file longer and pieces recomputed over it", x, True, None
    if data:
        x = clone(); set_file(x, i, data[:-1])
        yield "file one byte shorter", x, True, None
        x = clone(); set_file(x, i, data[:-1]); x.repiece()
        yield "file shorter and pieces recomputed over it", x, True, None
        x = clone()
        k = r.choice([0, len(data) - 1, min(len(data) - 1, w.p), max(0, min(len(data) - 1, w.p - 1)), r.randrange(len(data))])
        d2 = bytearray(data); d2[k] ^= 0x20
        set_file(x, i, bytes(d2))
        yield "one byte flipped, same length", x, True, None
        x = clone(); set_file(x, i, bytes(d2))
        for e in (x.info[b"files"] if x.multi else [x.info]):
            e.pop(b"md5sum", None)
        yield "one byte flipped, md5sum absent", x, True, None
        x = clone(); set_file(x, i, bytes(d2)); x.repiece()
        yield "one byte flipped and pieces recomputed (md5sum decides)", x, True, None
    x = clone(); set_file(x, i, {})
    yield "directory in place of file", x, True, None
    x = clone(); set_file(x, i, {}); x.repiece()
    yield "directory in place of file, pieces recomputed", x, True, None
    # a directory has a size of its own (st_size): listing exactly that length, without md5sum, must not make it pass as the
    # file (added after seeded change C03-9: type and length taken from one open handle)
    x = clone(); set_file(x, i, {})
    tgt = x.info[b"files"][i] if x.multi else x.info
    tgt[b"length"] = DIR_ST_SIZE
    tgt.pop(b"md5sum", None)
    x.repiece()
    yield "directory in place of file, listed length = the directory's own st_size, no md5sum", x, True, None
    x = clone()
    if x.multi:
        vfy.tree_del(x.content, list(x.files[i][0]))
        yield "file missing", x, True, None
        x = copy.deepcopy(x); x.repiece()
        yield "file missing, pieces recomputed", x, True, None
        x = clone(); vfy.tree_set(x.content, [b"unlisted"], b"extra bytes")
        yield "unlisted extra file", x, True, None
    else:
        x.content = None
        yield "file missing", x, True, None

    # --- the listing
    x = clone()
    tgt = x.info[b"files"][i] if x.multi else x.info
    tgt[b"length"] += 1
    yield "listed length one too large", x, True, None
    if data:
        x = clone()
        tgt = x.info[b"files"][i] if x.multi else x.info
        tgt[b"length"] -= 1
        yield "listed length one too small", x, True, None
    if w.multi:
        x = clone(); x.info[b"files"].append(copy.deepcopy(x.info[b"files"][i]))
        yield "duplicate path, pieces not updated", x, True, None
        x = clone(); x.info[b"files"].append(copy.deepcopy(x.info[b"files"][i])); x.repiece()
        yield "duplicate path, pieces over the duplicated concatenation", x, True, None
        # the same path twice in a row, the second listing lying about the length or the checksum (added after seeded change
        # C03-7: per-file results de-duplicated by path)
        x = clone(); e = copy.deepcopy(x.info[b"files"][i]); e[b"length"] += 1; x.info[b"files"].insert(i + 1, e); x.repiece()
        yield "path listed twice in a row, second listing one byte too long, pieces over what is read", x, True, None
        x = clone(); e = copy.deepcopy(x.info[b"files"][i]); e[b"md5sum"] = b"0" * 32; x.info[b"files"].insert(i + 1, e); x.repiece()
        yield "path listed twice in a row, second listing with a wrong md5sum, pieces over what is read", x, True, None
        x = clone(); e = copy.deepcopy(x.info[b"files"][i]); e[b"length"] += 1; x.info[b"files"].insert(i, e); x.repiece()
        yield "path listed twice in a row, first listing one byte too long, pieces over what is read", x, True, None
        if len(w.files) > 1:
            x = clone(); x.info[b"files"].reverse()
            yield "listing reversed, pieces not updated", x, True, None
            x = clone(); x.info[b"files"].reverse(); x.repiece()
            yield "listing reversed, pieces recomputed", x, True, None
        x = clone(); x.info[b"files"].append({b"length": 0, b"path": [b"ghost"]})
        yield "listed empty file that does not exist", x, True, None
        x = clone(); x.info[b"files"].append({b"length": 0, b"path": [b"ghost"]}); vfy.tree_set(x.content, [b"ghost"], {})
        yield "listed empty file is a directory", x, True, None
        x = clone(); x.info[b"files"].append({b"length": 0, b"path": [b"ghost"]}); vfy.tree_set(x.content, [b"ghost"], b"")
        yield "listed empty file exists", x, True, None
        x = clone(); x.info[b"files"].append({b"length": 0, b"path": []})
        yield "listed entry with an empty path (the root itself)", x, True, None
        x = clone(); x.info[b"length"] = sum(len(d) for _, d in x.files)
        yield "both length and files present (serde takes the single-file reading)", x, True, None
    # --- names
    for nm, tag in ((b"sub dir/inner", "name with a separator"), (b"./dotted", "name starting with ./"),
                    (b"up/../" + w.name, "name with an inner ..")):
        x = clone(); x.info[b"name"] = nm; x.name = nm
        yield tag, x, True, None


def malformed(r, w):
    """torrents the loader must refuse: (tag, torrent override)"""
    def info(**kw):
        i = copy.deepcopy(w.info)
        return i
    i = info(); del i[b"name"]
    yield "no name", {b"info": i}
    i = info(); i[b"name"] = b"\xff\xfe"
    yield "name not UTF-8", {b"info": i}
    i = info(); i[b"name"] = b"\xed\xa0\x80"
    yield "name is an encoded surrogate", {b"info": i}
    i = info(); i[b"pieces"] = i[b"pieces"] + b"x"
    yield "pieces not a multiple of 20", {b"info": i}
    i = info(); i[b"piece length"] = -1
    yield "negative piece length", {b"info": i}
    i = info(); i[b"piece length"] = b"16"
    yield "piece length is a string", {b"info": i}
    i = info(); i.pop(b"length", None); i.pop(b"files", None)
    yield "neither length nor files", {b"info": i}
    yield "info is a list", {b"info": [1, 2]}
    yield "no info", {b"announce": b"http://x/"}
    raw = lib.bencode({b"info": w.info})
    yield "truncated", {"raw": raw[:-2]}
    yield "empty input", {"raw": b""}
    yield "unsorted keys", {"raw": b"d4:infod" + b"".join(lib.bencode(k) + lib.bencode(v) for k, v in sorted(w.info.items(), reverse=True)) + b"ee"}
    yield "trailing bytes after the dictionary (ignored by the reader)", {"raw": raw + b"junk"}
    yield "leading zero in an integer", {"raw": raw.replace(b"12:piece lengthi", b"12:piece lengthi0", 1)}
    if w.multi:
        i = info(); i[b"files"][0][b"path"] = [7]
        yield "path component is an integer", {b"info": i}
        i = info(); i[b"files"][0][b"path"] = b"f0"
        yield "path is a string", {b"info": i}
        i = info(); i[b"files"][0][b"length"] = -5
        yield "negative file length", {b"info": i}
        i = info(); i[b"files"][0][b"path"] = [b"\xc0\xaf"]
        yield "path component is overlong UTF-8", {b"info": i}
        i = info(); i[b"files"][0][b"md5sum"] = b"z" * 32
        yield "md5sum is not hexadecimal", {b"info": i}
    else:
        i = info(); i[b"length"] = -5; i[b"files"] = [{b"length": len(w.files[0][1]), b"path": [b"f"]}]
        yield "negative length with a files list (serde falls through to multi-file)", {b"info": i}
        i = info(); i[b"md5sum"] = b"z" * 32
        yield "md5sum is not hexadecimal", {b"info": i}


def typed_perturbations(r, w):
    """X4 - perturbations OUTSIDE the four info fields the verifier reads, each applied to an otherwise consistent
    (torrent, tree) pair: (tag, torrent override). `imdl torrent verify` loads through Metainfo::from_input, which
    type-checks every key; the content matches, so the exit status tells whether the loader accepted."""
    def top(**_):
        return {b"info": copy.deepcopy(w.info)}
    raw0 = lib.bencode({b"info": w.info})
    iraw = lib.bencode(w.info)

    def with_top(k, v):
        t = top(); t[k] = v
        return t

    def with_info(k, v):
        t = top(); t[b"info"][k] = v
        return t

    B63, B64 = 1 << 63, 1 << 64
    # --- a fully populated, well-typed metainfo (no host / URL: the oracle can expect success)
    full = top()
    full.update({b"announce": b"http://tracker.example/announce", b"announce-list": [[b"http://a/", b"udp://b:1"], [], [b"x"]],
                 b"comment": "c\u00f6mment".encode(), b"created by": b"somebody", b"creation date": 1600000000, b"encoding": b"UTF-8"})
    full[b"info"].update({b"private": r.choice([0, 1]), b"source": b"src"})
    yield "typed: every optional text key present and well typed", full
    t = copy.deepcopy(full); t[b"nodes"] = [[b"router.example.com", 6881], [b"1.2.3.4", 0], [b"::1", 65535], [b"EXAMPLE.com", 1]]
    t[b"info"][b"update-url"] = b"https://example.com/update?x=1"
    yield "typed: well-typed nodes and update-url", t
    # --- every string key ill-typed
    for k in (b"announce", b"comment", b"created by", b"encoding"):
        for v, what in ((5, "integer"), ([b"x"], "list"), ({b"a": b"b"}, "dict"), (-1, "negative integer"), (B63, "2^63"), (B64, "2^64"),
                        (b"\xff\xfe", "not UTF-8"), (b"\xed\xa0\x80", "encoded surrogate")):
            yield "typed: `%s` is %s" % (k.decode(), what), with_top(k, v)
        yield "typed: `%s` is empty text (fine)" % k.decode(), with_top(k, b"")
    for v, what in ((5, "integer"), ([b"x"], "list"), ({b"a": b"b"}, "dict"), (b"\xc0\xaf", "overlong UTF-8"), (B64, "2^64")):
        yield "typed: info `source` is %s" % what, with_info(b"source", v)
    # --- announce-list
    for v, what in (([b"http://a/"], "a list of strings"), (b"http://a/", "a string"), ([[1]], "a list of lists of integers"),
                    ([[b"\xff"]], "not UTF-8 inside"), ([[[b"a"]]], "nested one level too deep"), ({b"a": [[b"x"]]}, "a dict"), (7, "an integer"),
                    ([[b"a"], b"b"], "mixed")):
        yield "typed: `announce-list` is %s" % what, with_top(b"announce-list", v)
    for v, what in (([], "empty"), ([[]], "one empty tier"), ([[b""]], "an empty URL text")):
        yield "typed: `announce-list` %s (fine)" % what, with_top(b"announce-list", v)
    # --- creation date
    for v in (0, 1, B63 - 1, B63, B64 - 1):
        yield "typed: `creation date` %d (fine)" % v, with_top(b"creation date", v)
    for v, what in ((-1, "-1"), (B64, "2^64"), (-B63, "-2^63"), (b"1600000000", "a string"), ([1], "a list")):
        yield "typed: `creation date` is %s" % what, with_top(b"creation date", v)
    # --- private
    for v in (0, 1):
        yield "typed: `private` %d (fine)" % v, with_info(b"private", v)
    for v, what in ((2, "2"), (-1, "-1"), (b"1", 'the string "1"'), ([1], "a list"), (B63, "2^63"), (B64, "2^64")):
        yield "typed: `private` is %s" % what, with_info(b"private", v)
    yield "typed: `private` 7 at the top level (an unknown key there)", with_top(b"private", 7)
    # --- nodes
    for v, what in (([[b"1.2.3.4", 65536]], "port 65536"), ([[b"1.2.3.4", -1]], "port -1"), ([[b"1.2.3.4"]], "arity 1"),
                    ([[b"1.2.3.4", 80, 1]], "arity 3"), ([[b"a b", 80]], "host with a space"), ([[b"", 80]], "empty host"),
                    ([b"x:1"], "a list of strings"), ([{b"host": b"h", b"port": 1}], "a list of dicts"), (b"h:1", "a string"),
                    ([[80, b"h"]], "port and host swapped"), ([[b"[::1]", 80]], "bracketed IPv6"), ([[b"\xff", 80]], "host not UTF-8"),
                    ([[b"h", B64]], "port 2^64"), ([[b"h", b"80"]], "port a string"), ([[b"exa mple.com", 1], [b"ok", 1]], "first host invalid"),
                    ([[b"ok", 1], [b"%zz", 1]], "second host odd"), ([[b"xn--", 1]], "host xn--"), ([[b"a..b", 1]], "host a..b")):
        yield "typed: `nodes` %s" % what, with_top(b"nodes", v)
    for v, what in (([], "empty"), ([[b"::1", 80]], "bare IPv6"), ([[b"EXAMPLE.com", 80]], "upper-case host"), ([[b"1.2.3.4", 0]], "port 0"),
                    ([[b"0x7f.1", 1]], "hex IPv4 spelling"), ([["b\u00fccher.example".encode(), 1]], "IDN host")):
        yield "typed: `nodes` %s (the url crate decides)" % what, with_top(b"nodes", v)
    yield "typed: `nodes` 7 inside info (an unknown key there)", with_info(b"nodes", 7)
    # --- update-url
    for v, what in ((b"x", "no scheme"), (b"", "empty"), (b"http://", "no host"), (5, "an integer"), ([b"http://a/"], "a list"),
                    (b"\xff", "not UTF-8"), (b"http://[::1", "unclosed bracket"), (b"//example.com/", "scheme-relative"),
                    (b"http://exa mple.com/", "space in host"), (b"http://a:99999/", "port 99999")):
        yield "typed: `update-url` %s" % what, with_info(b"update-url", v)
    for v, what in ((b"http://x/", "http"), (b"mailto:a", "mailto"), (b"a:b", "a:b"), (b"HTTP://EXAMPLE.com", "upper case"),
                    (b"http://example.com", "no trailing slash")):
        yield "typed: `update-url` %s (the url crate decides)" % what, with_info(b"update-url", v)
    yield "typed: `update-url` 7 at the top level (an unknown key there)", with_top(b"update-url", 7)
    # --- integers outside i64 where serde skips or buffers
    for v, what in ((B63 - 1, "2^63-1 (fine)"), (-B63, "-2^63 (fine)"), (B63, "2^63"), (-B63 - 1, "-2^63-1"), (B64, "2^64"), ([[B63]], "2^63 nested in lists"),
                    ({b"k": B63}, "2^63 nested in a dict")):
        yield "typed: unknown top-level key holds %s" % what, with_top(b"zzz", v)
        yield "typed: unknown info key holds %s" % what, with_info(b"zzz", v)
    yield "typed: unknown top-level key before `info`", with_top(b"a unknown", [1, b"x", {b"y": []}])
    yield "typed: unknown key with an empty name", with_top(b"", 7)
    # --- keys that are not UTF-8
    yield "typed: top-level key not UTF-8", with_top(b"\xff", 1)
    yield "typed: info key not UTF-8", with_info(b"\xff", 1)
    yield "typed: top-level key is an encoded surrogate", with_top(b"\xed\xa0\x80", 1)
    # --- nesting in an unknown key
    for n in (2046, 2047, 2048, 2049):
        nest = b"l" * n + b"e" * n
        yield "typed: top-level unknown key nested %d deep (lists)" % n, {"raw": raw0[:-1] + b"3:zzz" + nest + b"e"}
        yield "typed: info unknown key nested %d deep (lists)" % n, {"raw": b"d4:info" + iraw[:-1] + b"3:zzz" + nest + b"ee"}
    for n in (2047, 2048):
        yield "typed: top-level unknown key nested %d deep (dicts, integer inside)" % n, \
            {"raw": raw0[:-1] + b"3:zzz" + b"d1:a" * n + b"i1e" + b"e" * n + b"e"}
        yield "typed: top-level unknown key nested %d deep (lists, string inside)" % n, \
            {"raw": raw0[:-1] + b"3:zzz" + b"l" * n + b"1:x" + b"e" * n + b"e"}
    # --- framing
    yield "typed: trailing bytes after a fully typed metainfo", {"raw": lib.bencode(full) + b"i1e"}
    yield "typed: duplicate top-level key", {"raw": raw0[:-1] + b"3:zzzi1e3:zzzi1e" + b"e"}
    yield "typed: duplicate `info`", {"raw": b"d4:info" + iraw + b"4:info" + iraw + b"e"}
    yield "typed: unsorted top-level keys", {"raw": raw0[:-1] + b"3:zzzi1e3:yyyi1e" + b"e"}
    yield "typed: `comment` after `info` out of order", {"raw": raw0[:-1] + b"7:comment1:x" + b"e"}
    yield "typed: top level is a list holding the metainfo", {"raw": b"l" + raw0 + b"e"}
    yield "typed: top level is the fields in declaration order", {"raw": lib.bencode([b"http://a/", [[b"x"]], b"c", b"cb", 1, b"e", w.info, []])}
    # --- the file list
    if w.multi:
        def files(fn):
            t = top(); fn(t[b"info"][b"files"], t[b"info"])
            return t
        yield "typed: unknown key inside a file entry", files(lambda fl, i: fl[0].update({b"zzz": [1, {b"a": b"b"}]}))
        yield "typed: file entry key not UTF-8 (buffered: fine)", files(lambda fl, i: fl[0].update({b"\xff": 1}))
        yield "typed: integer 2^63 under an unknown key of a file entry", files(lambda fl, i: fl[0].update({b"zzz": B63}))
        def seq(fl, i, md5=False, extra=None, short=False):
            for k, e in enumerate(fl):
                x = [e[b"length"]] if short else [e[b"length"], e[b"path"]]
                if md5 and b"md5sum" in e:
                    x.append(e[b"md5sum"])
                if extra is not None:
                    x.append(extra)
                fl[k] = x
        yield "typed: file entries in serde's sequence form [length, path]", files(lambda fl, i: seq(fl, i))
        yield "typed: file entries in sequence form with md5sum", files(lambda fl, i: seq(fl, i, md5=True))
        yield "typed: file entry sequence with a wrong third element", files(lambda fl, i: seq(fl, i, extra=b"0" * 31))
        yield "typed: file entry sequence of one element", files(lambda fl, i: seq(fl, i, short=True))
        def four(fl, i):
            fl[0] = [fl[0][b"length"], fl[0][b"path"], vfy.md5hex(w.files[0][1]), 1]
        yield "typed: file entry sequence of four elements", files(four)
        for m, what in ((b"0" * 31, "31 digits"), (b"0" * 33, "33 digits"), (b"", "empty"), (b"g" * 32, "not hexadecimal"), (5, "an integer"),
                        (b"\xc3\xa9" * 16, "32 bytes of non-ASCII")):
            yield "typed: file md5sum %s" % what, files(lambda fl, i, m=m: fl[-1].update({b"md5sum": m}))
        yield "typed: file md5sum in upper case (fine)", files(lambda fl, i: fl[0].update({b"md5sum": vfy.md5hex(w.files[0][1]).upper()}))
        # listed lengths whose sum is 2^64 - 1 (loads, cannot match), 2^64, more
        for tot, what in ((B64 - 1, "2^64-1"), (B64, "2^64"), (B64 + B63 - 2, "well past 2^64")):
            def big(fl, i, tot=tot):
                rest = tot - sum(e[b"length"] for e in fl)
                k = 0
                while rest > 0:
                    n = min(rest, B63 - 1)
                    fl.append({b"length": n, b"path": [b"big%d" % k]}); rest -= n; k += 1
            yield "typed: listed lengths sum to %s" % what, files(big)
        yield "typed: a listed length of 2^63", files(lambda fl, i: fl.append({b"length": B63, b"path": [b"big"]}))
        yield "typed: `length` 2^63 next to a good files list", files(lambda fl, i: i.update({b"length": B63}))
        yield "typed: `length` a string next to a good files list (falls through)", files(lambda fl, i: i.update({b"length": b"5"}))
        yield "typed: info md5sum malformed next to a good files list (ignored)", files(lambda fl, i: i.update({b"md5sum": b"zz"}))
    else:
        for m, what in ((b"0" * 31, "31 digits"), (b"0" * 33, "33 digits"), (b"", "empty"), (b"g" * 32, "not hexadecimal"), (5, "an integer")):
            yield "typed: md5sum %s" % what, with_info(b"md5sum", m)
        yield "typed: md5sum in upper case (fine)", with_info(b"md5sum", vfy.md5hex(w.files[0][1]).upper())
        yield "typed: `length` 2^63", with_info(b"length", B63)
        yield "typed: `files` 7 next to a good length (ignored)", with_info(b"files", 7)
    yield "typed: `piece length` 2^63 (read as u64, then unsupported)", with_info(b"piece length", B63)
    yield "typed: `piece length` 2^64", with_info(b"piece length", B64)


def generate(ctx):
    r = ctx.rng
    cases = [witness_zero_piece_length()]
    from props import c13                      # two hostile listings (the C13 witnesses) also run here
    for k in (0, 4):
        cases.append(c13.hostile_case(r, c13.kinds(b"root")[k], 0, "content"))
    want = ctx.n(800, 12000)
    seen_typed = {}
    # every perturbation at least once per (single|multi), modes cycling
    k = 0
    while len(cases) < want:
        w = vfy.random_world(r, multi=(k % 2 == 1) if k < 2 else (r.random() < 0.67))
        base_mode = MODES[k % len(MODES)]
        k += 1
        for j, (tag, x, where_ok, tor) in enumerate(perturbations(r, w, base_mode)):
            mode = base_mode if j % 5 else r.choice(MODES)
            tree, arg, inp = vfy.place(x, mode, r, where_ok)
            cases.append(vfy.mk_case(tag, x, mode, tree, arg, inp, tor))
        for tag, tor in malformed(r, w):
            mode = r.choice(MODES)
            tree, arg, inp = vfy.place(w, mode, r, True)
            cases.append(vfy.mk_case("malformed: " + tag, w, mode, tree, arg, inp, tor))
        # X4: the metainfo outside the verified fields - every class with the first single-file and the first
        # multi-file world, a random third of them afterwards
        typed = list(typed_perturbations(r, w))
        first = not seen_typed.get(w.multi)
        seen_typed[w.multi] = True
        for tag, tor in typed:
            if first or r.random() < 0.3:
                mode = r.choice(MODES)
                tree, arg, inp = vfy.place(w, mode, r, True)
                cases.append(vfy.mk_case(tag, w, mode, tree, arg, inp, tor))
    cases = cases[:max(want, 1)]
    for c in cases:
        c["seed"] = r.randrange(1 << 30)
    return cases


def prune_none(tree):
    if isinstance(tree, dict):
        return {k: prune_none(v) for k, v in tree.items() if v is not None}
    return tree


def hash_selftest(ctx):
    """the driver's SHA-1 / MD5 (which instantiate the model's Section variables) against hashlib"""
    import hashlib
    r = ctx.rng
    msgs = [b"", b"abc", b"a" * 55, b"a" * 56, b"a" * 63, b"a" * 64, b"a" * 119, b"a" * 120] + \
           [r.randbytes(r.randrange(0, 700)) for _ in range(24)]
    got = ctx.model(["sha1 " + lib.hexs(m) for m in msgs] + ["md5 " + lib.hexs(m) for m in msgs])
    want = ["OK " + hashlib.sha1(m).hexdigest() for m in msgs] + ["OK " + hashlib.md5(m).hexdigest() for m in msgs]
    for m, g, wv in zip(msgs + msgs, got, want):
        if g != wv:
            ctx.violation("assumption-broken", "the driver's SHA-1/MD5 differs from hashlib on %r" % m[:40],
                          {"message": m, "driver": g, "hashlib": wv})
            return


def run(ctx, pid="C03"):
    ctx.need_coq()
    if not ctx.need_rust() or not ctx.need_runner():
        return finish(ctx)
    hash_selftest(ctx)
    if pid == "C03":
        vfy.big_piece_cases(ctx)
        vfy.platform_limit_cases(ctx)
    cases = generate(ctx)
    tmp = tempfile.mkdtemp(prefix="c03-")
    try:
        recs = lib.pmap(lambda c: vfy.run_case(ctx, c, tmp), cases)
    finally:
        shutil.rmtree(tmp, ignore_errors=True)
    lines = vfy.model_lines(ctx, recs)
    replies = ctx.model(lines + [rec["vload_line"] for rec in recs])
    models, loads = replies[:len(lines)], replies[len(lines):]
    for rec, m, l in zip(recs, models, loads):
        rec["model_loader"] = vfy.loader_verdict(l)
        judge(ctx, rec, m)
    return finish(ctx)


def judge(ctx, rec, m):
    c, orc, rc = rec["case"], rec["oracle"], rec["rc"]
    ctx.cov["evaluations"] += 1
    ctx.cov["traces_validated_against_impl"] += 1
    ctx.count("tag: " + c["tag"])
    ctx.count("root rule: " + c["mode"])
    ctx.count("oracle: " + (orc["expect"] or ("open (%s)" % orc["why"])))
    ctx.count("exit status %d" % rc)
    ctx.distinct((c["tag"], c["mode"], orc["expect"], rc, m))
    if c["tag"] in ("consistent", "wrong md5sum, right pieces", "wrong md5sum on a zero-length entry, right pieces", "piece length 0", "one surplus piece hash"):
        ctx.sample({"tag": c["tag"], "argv": rec["argv"], "torrent": rec["torrent"][:160].decode("latin-1"),
                    "exit_status": rc, "model": m, "oracle": orc["expect"]}, cap=8)
    d = lambda: vfy.describe(rec, m)
    bad = False
    if not rec["unchanged"]:
        ctx.violation("oracle-failure", "verify changed the sandbox (%s)" % c["tag"], d()); bad = True
    if orc["expect"] == "success" and rc != 0:
        ctx.violation("oracle-failure", "%s: content matches the torrent (%s) but verify exited %d" % (c["tag"], orc["why"], rc), d()); bad = True
    if orc["expect"] == "not-success" and rc == 0:
        ctx.violation("oracle-failure", "%s: verify exited 0 although %s" % (c["tag"], orc["why"]), d()); bad = True
    if orc["wellformed"] and orc["expect"] is not None and vfy.crashed(rc):
        ctx.violation("oracle-failure", "%s: verify neither succeeded nor failed cleanly on a well-formed torrent (exit %d)" % (c["tag"], rc), d()); bad = True
    q = rec.get("quiet")
    if q is not None:
        ctx.count("also run with %s" % q["flag"])
        if q["rc"] != rc or (q["rc"] == 0 and q["stderr_len"]) or q["stdout_len"]:
            ctx.violation("oracle-failure", "%s: `imdl %s torrent verify ...` exits %d with %d bytes on standard error, without the flag the exit "
                          "status is %d (%s)" % (c["tag"], q["flag"], q["rc"], q["stderr_len"], rc, orc["why"]), dict(d(), quiet_run=q)); bad = True
    # X4: the loader's verdict itself - the binary prints its second step line exactly when Metainfo::from_input accepted
    ml = rec.get("model_loader")
    if ml is None:
        ctx.violation("model-impl-disagreement", "the model's loader gave no verdict on %s" % c["tag"], d())
    else:
        ctx.count("loader: projection %s, typed %s, binary %s" % tuple("accepts" if x else "refuses" for x in (ml[0], ml[1], rec["began"])))
        if ml[1] and not ml[0]:
            ctx.violation("model-impl-disagreement", "%s: the typed loader accepts what the projection refuses (contradicts typed_rejects_more)" % c["tag"], d())
        if rec["began"] and orc.get("typed"):
            ctx.violation("oracle-failure", "%s: verify loaded the torrent and began verifying although %s" % (c["tag"], orc["why"]), d()); bad = True
        elif ml[1] != rec["began"] and not bad:
            ctx.cov["disagreements_checked"] += 1
            ctx.violation("model-impl-disagreement",
                          "%s: the model's typed loader %s the torrent, `imdl torrent verify` %s (exit %d); the reference reader: %s"
                          % (c["tag"], "accepts" if ml[1] else "refuses", "began verifying" if rec["began"] else "did not get past loading", rc,
                             orc["expect"] or orc["why"]), d()); bad = True
    if vfy.crashed(rc) and not bad:
        ctx.violation("oracle-failure", "%s: verify ended with exit status %d - neither success nor a reported failure" % (c["tag"], rc), d()); bad = True
    if not m.startswith("OK ") or m == "OK fuel":
        ctx.violation("model-impl-disagreement", "the model did not produce a verdict (%s) on %s" % (m, c["tag"]), d())
    elif (m == "OK success") != (rc == 0) and not bad:
        ctx.cov["disagreements_checked"] += 1
        ctx.violation("model-impl-disagreement",
                      "%s: model says %s, `imdl torrent verify` exited %d; the reference verifier finds nothing wrong (%s)"
                      % (c["tag"], m[3:], rc, orc["expect"] or orc["why"]), d())


def finish(ctx):
    ctx.assumptions += [
        "SHA-1 and MD5 are functions of the bytes (Section variables H, MD5); the driver's instances are compared with hashlib each run",
        "a read on a regular file returns 0 only at end of file or for an empty window, otherwise between 1 and min(window, rest) bytes (legal)",
        "no symlinks, FIFOs or permission failures among the listed paths; piece lengths >= 2^32 are outside the supported input (rejected)",
        "host_disp / url_norm (Section variables of the typed loader) are url::Host::parse and Url::parse: instantiated per case with the answers "
        "of the hooks host_parse and magnet_print for the node hosts and the update-url of that torrent",
    ]
    return ctx.finish(
        rule="a consistent (torrent, tree) pair from the seeded generator (1-4 files, sizes around the piece length incl. 0 and files "
             "larger than the BufReader, md5sum on/off, four content-root rules) with exactly one thing perturbed (md5sum, piece list, "
             "piece length, tree, listing, name), plus a malformed stream, plus (X4) a stream of metainfo perturbed OUTSIDE the verified "
             "fields on a consistent pair (every modelled key ill-typed, nodes / update-url / announce-list shapes, private and creation "
             "date extremes, integers around 2^63 / 2^64 under skipped and buffered keys, content size around 2^64, md5sum shapes, "
             "duplicate / unsorted keys, nesting 2046..2049, trailing bytes, unknown keys at every level, serde's sequence form of file "
             "entries); the zero-piece-length witness runs first; a case is "
             "distinct/non-trivial by (perturbation, root rule, oracle verdict, exit status, model verdict)",
        trusted_base=["Coq 8.16.1 kernel (coqc)", "extraction with ExtrOcamlBasic + runner/driver.d/verify.ml (SHA-1 in OCaml, Digest for MD5)",
                      "Model/Bencode.v as the reader", "Python reference verifier in tools/props/vfy.py (hashlib, os.path, lib.bdecode_strict)"],
    )


def replay(ctx, path):
    return vfy.replay(ctx, path, "C03")
