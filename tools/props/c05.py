"""C05 — created metainfo states exactly what was requested, canonically and reproducibly.

Obligations: coq/Properties/C05.v (schema regenerated from the serde attributes; serialisation never
fails; canonical; one lookup theorem per field; absent when not given; no other keys; single/multi shape;
reproducible).
Correspondence: the real binary `imdl torrent create` on option subsets x small trees; the bytes of the
written file (or stdout) vs `encode (build ..)` of the extracted model (piece hashes and md5 digests computed
here with hashlib - hashing itself is C01's business).
Direct oracle: lib.bdecode_strict + field-by-field comparison with the command line; creation date inside the
run's wall-clock window; byte-identical output with --no-creation-date on a second tree with the same content
populated in a different creation order.
X10: the url crate's normal form (`Url::parse` + `to_string`) is a concrete model inside a stated fragment
(coq/Model/UrlNorm.v, theorems at the end of Properties/C05.v); tools/props/urlnorm.py compares it with the `url_norm`
hook on >= 20 000 generated texts per quick run (called from `run`, counted in the evidence)."""
import zlib
import hashlib, json, os, re, shlex, shutil, tempfile, time
import lib

MANIFEST = dict(
    text="Machine-checked proof over a Gallina model of Create::run's metainfo assembly and bendy's struct serializer "
         "(keys taken from the serde attributes as regenerated from the source on every run): the output is canonical "
         "bencode that the strict reader returns unchanged, every requested field is found under its BEP key with the "
         "requested value, keys of options not given are absent, nothing else is written, single/multi-file shape, "
         "independence of the clock under --no-creation-date; tied to the code by the schema translator and by a "
         "byte-for-byte correspondence run against the real binary over option subsets x small trees. Right level: the "
         "property quantifies over all subsets and values of a dozen options and their interaction in two sorted "
         "dictionaries, which example tests cannot enumerate.",
    ref="DESIGN.md section 5, C05",
    technique="Coq proof over a Gallina model + translator-generated serde schema + model/implementation correspondence run",
    note="The url crate's normal form of --announce/--update-url is modelled concretely for tracker-style URLs (Model/UrlNorm.v: "
         "ASCII, scheme://authority, special schemes except file: and non-special ones) and proved to fix every URL written in "
         "normal form, to return only such URLs and to be idempotent; it is compared with the `url_norm` hook on every run. "
         "Since X14 the three url-crate variables of the model have concrete instances (Model/UrlConcrete.v: c_norm, c_url_ok, "
         "c_host_canon over the X9 / X10 models) and the headline statements are proved at them (c05_concrete_*: create stores exactly "
         "the normal form of every URL and host given; storing what was stored changes nothing), with boolean premises that place the "
         "command line inside the modelled fragments; every URL / host of the run is compared with the hooks and with the written bytes. "
         "Assumed (Section variables, exercised by the run): the url crate outside those fragments (IDNA / non-ASCII, `%` escapes and "
         "xn-- labels in hosts, file:, the serialisation of URLs without `//`, relative references), the build-time git suffix of `created by`. Hashing (C01), the walker's "
         "file selection and order (C06) and HOST:PORT splitting (C17) are inputs of the model. Trusted: Coq kernel, "
         "tools/rs2v_schema.py, extraction (ExtrOcamlBasic), runner/driver.d/metainfo.ml, Python oracle.")

KIB = 1 << 10

# URLs already in url-crate (WHATWG) normal form: norm is the identity on them
URLS = ["http://example.com/announce", "https://tracker.example.org:8443/announce", "udp://tracker.example:1337/announce",
        "udp://tracker.example:1337", "http://[2001:db8::1]:6969/announce", "http://192.0.2.7:8080/a?x=1&y=2",
        "wss://t.example/", "http://example.com/", "https://example.com/path%20with%20space", "http://user:pw@example.com/",
        "http://xn--bcher-kva.example/a", "https://example.com/feed.xml#frag", "http://a.example/announce?passkey=0123456789abcdef"]
# recorded behaviour of the url crate (Url::parse + to_string) on non-normal input
URL_NORMALISING = {
    "HTTP://EXAMPLE.COM/Announce": "http://example.com/Announce",
    "http://example.com": "http://example.com/",
    "http://example.com:80/announce": "http://example.com/announce",
    "https://example.com:443/a/../b": "https://example.com/b",
    "http://example.com/a b": "http://example.com/a%20b",
    "udp://EXAMPLE.com:80": "udp://EXAMPLE.com:80",
    "http://[2001:DB8:0:0:0:0:0:1]:6969/x": "http://[2001:db8::1]:6969/x",
    "http://example.com/?q=a b#frag": "http://example.com/?q=a%20b#frag",
    "http://bücher.example/a": "http://xn--bcher-kva.example/a",
}
def url_expected_of(u):
    return URL_NORMALISING.get(u, u)


# strings Url::parse refuses (tier members are only validated, never normalised)
BAD_URLS = ["", "notaurl", "http://", "://x", "http://exa mple.com/", "/relative", "http://[::1"]
# node hosts as written on the command line, already in normal form (IPv6 in brackets)
HOSTS = ["router.example.com", "203.0.113.5", "[2001:db8::1]", "[::1]", "[::ffff:192.0.2.1]",
         "[2001:db8:85a3::8a2e:370:7334]", "x_y.example", "dht.example.net", "10.0.0.1", "[fe80::1]"]
# recorded behaviour of Host::parse + Display on non-normal input (after the brackets are removed)
HOST_NORMALISING = {"EXAMPLE.COM": "example.com", "[2001:DB8:0:0:0:0:0:1]": "2001:db8::1", "192.0.2.010": "192.0.2.8",
                    "bücher.example": "xn--bcher-kva.example"}
TEXTS = ["hello", "", "with space", "üñí çødé ✓", "a,b", 'quo"te', "trailing ", "x" * 300,
         "日本語", "line1\nline2", "tab\there", "d3:foo3:bare", "0", "UTF-8"]
# names include valid UTF-8 that is not in Unicode normal form C (decomposed accents as macOS hands them out, OHM SIGN,
# conjoining jamo): what was requested is that byte string (added after seeded change C05-15: the default name composed to NFC)
NAMES = ["my torrent", "näme", "x", "archive.tar.gz", "a,b", "日本", "name with  two spaces", "torrent.torrent", "Cafe\u0301 n", "\u212b"]
FILE_NAMES = ["file.bin", "a b.txt", "ünï.dat", "README", "data.tar.gz", "Cafe\u0301.bin", "\u2126hm", "\u1112\u1161\u11ab.txt"]
DIR_NAMES = ["dir", "my dir", "dïr", "content.d", "Cafe\u0301", "\u212a elvin.d", "\u1112\u1161\u11ab"]
COMPONENTS = ["a", "b", "sub", "x y", "é", "Z", "a.txt", "b.txt", "0", "deep", "aa", "a-b", "B", "e\u0301", "\u2126"]
SIZES = [0, 1, 5, 100, 4096, 16383, 16384, 16385, 32768, 40000]
WORDS = ["alpha", "b", "gamma-delta", "0123456789", "zz", "word"]
OPTION_NAMES = ["announce", "tiers", "comment", "source", "nodes", "private", "update_url", "name", "piece_length", "md5",
                "no_created_by", "no_creation_date"]


def content_of(size, word):
    unit = (word + "\n").encode()
    return (unit * (size // len(unit) + 1))[:size]


# ---------------------------------------------------------------- generators

def gen_tree(r, kind=None):
    kind = kind or r.choice(["file", "dir", "dir", "dir", "stdin"])
    if kind == "file":
        return {"kind": "file", "name": r.choice(FILE_NAMES), "files": [{"path": [], "size": r.choice(SIZES), "word": r.choice(WORDS)}]}
    if kind == "stdin":
        return {"kind": "stdin", "name": None, "files": [{"path": [], "size": r.choice(SIZES), "word": r.choice(WORDS)}]}
    n = r.choice([0, 1, 2, 2, 3, 3, 4, 5, 6])
    paths, tries = [], 0
    while len(paths) < n and tries < 100:
        tries += 1
        p = [r.choice(COMPONENTS) for _ in range(r.choice([1, 1, 2, 2, 3]))]
        # no path may be a prefix of another (a name cannot be both a file and a directory)
        if any(p[:len(q)] == q or q[:len(p)] == p for q in paths):
            continue
        paths.append(p)
    return {"kind": "dir", "name": r.choice(DIR_NAMES),
            "files": [{"path": p, "size": r.choice(SIZES), "word": r.choice(WORDS)} for p in paths]}


def gen_url(r, normalising_ok=True):
    if normalising_ok and r.random() < 0.15:
        return r.choice(sorted(URL_NORMALISING))
    return r.choice(URLS)


def gen_case(r, given=None, tree_kind=None):
    """given: set of option names to use (None: each with probability 1/2)"""
    if given is None:
        given = {o for o in OPTION_NAMES if r.random() < 0.5}
    tree = gen_tree(r, tree_kind)
    if tree["kind"] in ("file", "dir") and r.random() < 0.12:
        # the input is a symbolic link (`current -> payload-2024-03-01`) followed with --follow-symlinks: the name requested by
        # default is the name the input was GIVEN by (added after seeded change C05-14: the name was taken from the link target)
        tree["link_target"] = "payload-2024-03-01" + ("" if tree["kind"] == "dir" else ".bin")
    c = {"announce": None, "tiers": [], "comment": None, "source": None, "nodes": [], "private": False, "update_url": None,
         "name": None, "piece_length": None, "md5": False, "no_created_by": False, "no_creation_date": False,
         "allow": [], "tree": tree, "output": r.choice(["stdout", "path", "default"]), "style": r.getrandbits(30),
         "expect_reject": None}
    if "announce" in given:
        c["announce"] = gen_url(r)
    if "tiers" in given:
        # tier members are stored as written (validated only), so non-normal spellings must come back unchanged
        c["tiers"] = [",".join(gen_url(r) for _ in range(r.choice([1, 1, 2, 3]))) for _ in range(r.choice([1, 2, 3]))]
    if "comment" in given:
        c["comment"] = r.choice(TEXTS)
    if "source" in given:
        c["source"] = r.choice(TEXTS)
    if "nodes" in given:
        for _ in range(r.choice([1, 2, 3, 4])):
            h = r.choice(sorted(HOST_NORMALISING)) if r.random() < 0.15 else r.choice(HOSTS)
            c["nodes"].append([h, r.choice([0, 1, 80, 6881, 51413, 65535])])
    if "private" in given:
        c["private"] = True
        if c["announce"] is None:
            c["allow"].append("private-trackerless")
    if "update_url" in given:
        c["update_url"] = gen_url(r)
    if "name" in given or tree["kind"] == "stdin":
        c["name"] = r.choice(NAMES)
    if "piece_length" in given:
        k = r.random()
        if k < 0.6:
            # also above the largest piece length the automatic choice ever makes (16 MiB): an explicit request is recorded as given
            v = r.choice([16 * KIB, 32 * KIB, 64 * KIB, 1 << 20, 1 << 25, 1 << 26, 1 << 31])
            text = r.choice([str(v), "%dKiB" % (v // KIB), "%dkib" % (v // KIB)])
        elif k < 0.8:
            v = r.choice([1, 2, 256, 1024, 8192])
            text = str(v); c["allow"].append("small-piece-length")
        else:
            v = r.choice([3, 1000, 20000, 16385, 100000])
            text = str(v); c["allow"] += ["small-piece-length", "uneven-piece-length"]
        c["piece_length"] = [text, v]
        # keep the piece list short (the extracted encoder is not tail recursive): at most ~600 pieces
        cap = max(1, v * 600 // max(1, len(tree["files"])))
        for f in tree["files"]:
            f["size"] = min(f["size"], cap)
    # values that COINCIDE across options (added after seeded change C05-12, a "redundant announce-list" clean-up that dropped
    # the tier when it only repeated --announce): the tier list repeats the primary tracker, exactly or in another spelling
    if c["announce"] is not None and c["tiers"] and r.random() < 0.4:
        same = c["announce"]
        alt = next((u for u, n in sorted(URL_NORMALISING.items()) if n == url_expected_of(same) and u != same), same)
        k = r.randrange(5)
        if k == 0:
            c["tiers"] = [same]
        elif k == 1:
            c["tiers"] = [alt]
        elif k == 2:
            c["tiers"] = [same + "," + c["tiers"][0]] + c["tiers"][1:]
        elif k == 3:
            c["tiers"] = [same, same]
        else:
            c["tiers"] = [same + "," + same]
        if c["update_url"] is not None and r.random() < 0.5:
            c["update_url"] = same
    if tree["kind"] == "dir" and r.random() < 0.3:
        # the file order is part of what was requested (added after seeded change C05-10: --sort-by size lost its path
        # tie-breaker); SIZES is small, so equal sizes are common
        c["sort_by"] = r.choice([["size"], ["size:descending"], ["path:descending"], ["size", "path:descending"],
                                 ["size:ascending"], ["path"]])
    c["md5"] = "md5" in given
    c["no_created_by"] = "no_created_by" in given
    c["no_creation_date"] = "no_creation_date" in given
    if tree["kind"] == "stdin":
        c["output"] = r.choice(["stdout", "path"])
    if c["output"] == "default" and c["name"] is not None and ("/" in c["name"] or c["name"] == ""):
        c["output"] = "path"
    return c


def gen_malformed(r):
    """requests create must refuse before writing anything"""
    c = gen_case(r)
    kind = r.choice(["bad-tier-url", "bad-tier-url", "empty-tier-member", "private-trackerless", "piece-length-zero",
                     "piece-length-small", "piece-length-uneven", "piece-length-too-large", "stdin-without-name"])
    if kind == "bad-tier-url":
        members = [gen_url(r, False) for _ in range(r.choice([0, 1, 2]))]
        members.insert(r.randrange(len(members) + 1), r.choice(BAD_URLS))
        c["tiers"].insert(r.randrange(len(c["tiers"]) + 1), ",".join(members))
    elif kind == "empty-tier-member":
        c["tiers"].append(r.choice([URLS[0] + ",", "," + URLS[1], URLS[0] + ",," + URLS[2]]))
    elif kind == "private-trackerless":
        c["private"], c["announce"] = True, None
        c["allow"] = [a for a in c["allow"] if a != "private-trackerless"]
    elif kind == "piece-length-zero":
        c["piece_length"] = ["0", 0]; c["allow"] = list(set(c["allow"]) | {"small-piece-length", "uneven-piece-length"})
    elif kind == "piece-length-small":
        c["piece_length"] = ["8192", 8192]; c["allow"] = [a for a in c["allow"] if a != "small-piece-length"]
    elif kind == "piece-length-uneven":
        c["piece_length"] = ["24576", 24576]; c["allow"] = [a for a in c["allow"] if a != "uneven-piece-length"]
    elif kind == "piece-length-too-large":
        v = r.choice([1 << 32, 1 << 33])
        c["piece_length"] = [str(v), v]
    elif kind == "stdin-without-name":
        c["tree"] = gen_tree(r, "stdin"); c["name"] = None; c["output"] = "stdout"
    c["expect_reject"] = kind
    return c


# ---------------------------------------------------------------- running the real binary

def tree_paths(tree, sort_by=None):
    """files in the walker's order: the --sort-by keys in turn (`size`, `path`, each optionally `:descending`), remaining
    ties in ascending path order (component lists compared bytewise) - the documented order; without --sort-by that is
    ascending by path"""
    files = sorted(tree["files"], key=lambda f: [x.encode() for x in f["path"]])
    for spec in reversed(sort_by or []):          # stable sorts, least significant key first
        key, _, direction = spec.partition(":")
        kf = (lambda f: f["size"]) if key == "size" else (lambda f: [x.encode() for x in f["path"]])
        files.sort(key=kf, reverse=(direction == "descending"))
    return files


def make_tree(root, tree, order):
    """populate root/<name>; `order` permutes the creation order of the directory entries"""
    if tree["kind"] == "stdin":
        return None
    top = os.path.join(root, tree.get("link_target") or tree["name"])
    if tree.get("link_target"):
        os.symlink(tree["link_target"], os.path.join(root, tree["name"]))
    if tree["kind"] == "file":
        f = tree["files"][0]
        with open(top, "wb") as fh:
            fh.write(content_of(f["size"], f["word"]))
        return top
    os.mkdir(top)
    files = list(tree["files"])
    if order == "reversed":
        files.reverse()
    elif order == "sorted-desc":
        files.sort(key=lambda f: f["path"], reverse=True)
    elif order == "sorted":
        files.sort(key=lambda f: f["path"])
    if order != "given":
        # also create all directories first, deepest last -> different directory-entry order
        for f in sorted(files, key=lambda f: -len(f["path"])):
            os.makedirs(os.path.join(top, *f["path"][:-1]), exist_ok=True)
    for f in files:
        os.makedirs(os.path.join(top, *f["path"][:-1]), exist_ok=True)
        with open(os.path.join(top, *f["path"]), "wb") as fh:
            fh.write(content_of(f["size"], f["word"]))
    return top


def argv_of(c, extra_no_date=False):
    """command line of the case (without the binary); option spelling and order vary with c['style']"""
    import random
    r = random.Random(c["style"])
    tree = c["tree"]
    pick = lambda *xs: r.choice(xs)
    groups = []
    if c["announce"] is not None:
        groups.append(("o", [pick("--announce", "-a"), c["announce"]]))
    for t in c["tiers"]:
        groups.append(("tier", [pick("--announce-tier", "-t"), t]))
    if c["comment"] is not None:
        groups.append(("o", ["--comment=" + c["comment"]] if c["comment"].startswith("-") else [pick("--comment", "-c"), c["comment"]]))
    if c["source"] is not None:
        groups.append(("o", [pick("--source", "-s"), c["source"]]))
    for h, p in c["nodes"]:
        groups.append(("node", ["--node", "%s:%d" % (h, p)]))
    if c["private"]:
        groups.append(("o", [pick("--private", "-P")]))
    if c["update_url"] is not None:
        groups.append(("o", ["--update-url", c["update_url"]]))
    if c["name"] is not None:
        groups.append(("o", [pick("--name", "-N"), c["name"]]))
    if c["piece_length"] is not None:
        groups.append(("o", [pick("--piece-length", "-p"), c["piece_length"][0]]))
    if c["md5"]:
        groups.append(("o", [pick("--md5", "-M")]))
    for spec in c.get("sort_by") or []:
        groups.append(("sort", ["--sort-by", spec]))
    if c["no_created_by"]:
        groups.append(("o", ["--no-created-by"]))
    if c["no_creation_date"] or extra_no_date:
        groups.append(("o", ["--no-creation-date"]))
    for a in c["allow"]:
        groups.append(("o", [pick("--allow", "-A"), a]))
    if c["output"] == "stdout":
        groups.append(("o", [pick("--output", "-o"), "-"]))
    elif c["output"] == "path":
        groups.append(("o", [pick("--output", "-o"), "out.torrent"]))
    inp = "-" if tree["kind"] == "stdin" else tree["name"]
    groups.append(("o", [pick("--input", "-i"), inp]))
    if tree.get("link_target"):
        groups.append(("o", [pick("--follow-symlinks", "-F")]))
    # shuffle, keeping tiers and nodes in their relative order
    kinds = [g[0] for g in groups]
    r.shuffle(kinds)
    it = {k: iter([g for g in groups if g[0] == k]) for k in ("o", "tier", "node", "sort")}
    others = [g for g in groups if g[0] == "o"]
    r.shuffle(others)
    it["o"] = iter(others)
    out = ["torrent", "create"]
    for k in kinds:
        out += next(it[k])[1]
    return out


def output_path(c, root):
    if c["output"] == "path":
        return os.path.join(root, "out.torrent")
    if c["output"] == "default":
        name = c["name"] if c["name"] is not None else c["tree"]["name"]
        return os.path.join(root, name + ".torrent")
    return None


TIME_ZONES = [None, "UTC", "XXX-5", "YYY8", "ZZZ-5:30", "AAA-14", "BBB12", None]


_OTHER = []


def other_base(base):
    """a directory on a file system whose readdir order follows the creation order (tmpfs: newest first), so that the
    're-created in another order' run really presents another enumeration order; ext4 hashes names, which hides the
    order (added after seeded change C05-10). Falls back to `base`."""
    if not _OTHER:
        d = None
        try:
            if os.path.isdir("/dev/shm") and os.access("/dev/shm", os.W_OK):
                d = tempfile.mkdtemp(prefix="c05-verif-", dir="/dev/shm")
                import atexit
                atexit.register(shutil.rmtree, d, True)
        except OSError:
            d = None
        _OTHER.append(d)
    return _OTHER[0] or base


def run_once(ctx, c, order, no_date=False, base=None, force_over=None):
    """one run of the real binary in a fresh directory; returns an observation dict.
    force_over: bytes placed at the output path beforehand; the run then passes --force (a forced re-creation over an
    older, longer file must leave exactly the new metainfo - added after seeded change C05-1, a lost truncate)"""
    root = tempfile.mkdtemp(prefix="c05-", dir=base)
    try:
        make_tree(root, c["tree"], order)
        argv = argv_of(c, extra_no_date=no_date)
        if force_over is not None and output_path(c, root) is not None:
            with open(output_path(c, root), "wb") as f:
                f.write(force_over)
            argv = argv[:2] + ["--force"] + argv[2:]
        before = sorted(os.listdir(root))
        stdin = b""
        if c["tree"]["kind"] == "stdin":
            f = c["tree"]["files"][0]
            stdin = content_of(f["size"], f["word"])
        # the process environment is part of "every input": the time zone must not move the creation date (POSIX TZ strings,
        # no tzdata needed), chosen from the command line so that a case replays with the same zone
        env = {"NO_COLOR": "1", "TERM": "dumb"}
        tz = TIME_ZONES[zlib.crc32(" ".join(argv).encode()) % len(TIME_ZONES)]
        if tz is not None:
            env["TZ"] = tz
        t0 = int(time.time())
        rc, out, err = ctx.imdl(argv, cwd=root, stdin=stdin, env=env, timeout=120)
        t1 = int(time.time())
        new = sorted(set(os.listdir(root)) - set(before))
        op = output_path(c, root)
        data = None
        if op is None:
            data = out if rc == 0 else None
        elif os.path.isfile(op):
            data = open(op, "rb").read()
        return {"argv": argv, "rc": rc, "bytes": data, "stdout_len": len(out), "new_entries": new,
                "stderr": err.decode("utf-8", "replace")[-400:], "t0": t0, "t1": t1, "order": order, "TZ": tz}
    finally:
        shutil.rmtree(root, ignore_errors=True)


# ---------------------------------------------------------------- the direct oracle

def host_expected(h):
    if h in HOST_NORMALISING:
        return HOST_NORMALISING[h]
    return h[1:-1] if h.startswith("[") and h.endswith("]") else h


def url_expected(u):
    return URL_NORMALISING.get(u, u)


def hashes(c, piece_length):
    files = tree_paths(c["tree"], c.get("sort_by"))
    datas = [content_of(f["size"], f["word"]) for f in files]
    whole = b"".join(datas)
    pieces = b"".join(hashlib.sha1(whole[i:i + piece_length]).digest() for i in range(0, len(whole), piece_length)) if piece_length > 0 else b""
    return files, datas, pieces


def expected_piece_length(c):
    if c["piece_length"] is not None:
        return c["piece_length"][1]
    if c["tree"]["kind"] == "stdin":
        return 256 * KIB
    # the documented automatic choice: 16 KiB for content up to 2 MiB (all generated trees are far smaller)
    return 16 * KIB


def expected_fields(c, version):
    """(top, info) as dicts key -> expected value, written from the command line alone.
    Special values: ('date',) and ('created-by', regex)."""
    pl = expected_piece_length(c)
    files, datas, pieces = hashes(c, pl)
    tree = c["tree"]
    info = {b"name": (c["name"] if c["name"] is not None else tree["name"]).encode(), b"piece length": pl, b"pieces": pieces}
    if c["private"]:
        info[b"private"] = 1
    if c["source"] is not None:
        info[b"source"] = c["source"].encode()
    if c["update_url"] is not None:
        info[b"update-url"] = url_expected(c["update_url"]).encode()
    if tree["kind"] in ("file", "stdin"):
        info[b"length"] = len(datas[0])
        if c["md5"]:
            info[b"md5sum"] = hashlib.md5(datas[0]).hexdigest().encode()
    else:
        fl = []
        for f, d in zip(files, datas):
            e = {b"length": len(d), b"path": [x.encode() for x in f["path"]]}
            if c["md5"]:
                e[b"md5sum"] = hashlib.md5(d).hexdigest().encode()
            fl.append(e)
        info[b"files"] = fl
    top = {b"encoding": b"UTF-8", b"info": info}
    if c["announce"] is not None:
        top[b"announce"] = url_expected(c["announce"]).encode()
    if c["tiers"]:
        top[b"announce-list"] = [[u.encode() for u in t.split(",")] for t in c["tiers"]]
    if c["comment"] is not None:
        top[b"comment"] = c["comment"].encode()
    if c["nodes"]:
        top[b"nodes"] = [[host_expected(h).encode(), p] for h, p in c["nodes"]]
    if not c["no_created_by"]:
        top[b"created by"] = ("created-by", r"imdl/%s( \([0-9a-f]{12}\))?" % re.escape(version))
    return top


def show(v):
    if isinstance(v, bytes):
        return repr(v if len(v) <= 60 else v[:57] + b"...")
    if isinstance(v, tuple) and v and v[0] == "d":
        return "{" + ", ".join("%s: %s" % (show(k), show(x)) for k, x in v[1][:6]) + "}"
    if isinstance(v, list):
        return "[" + ", ".join(show(x) for x in v[:6]) + (", ..." if len(v) > 6 else "") + "]"
    return repr(v)


def compare(path, got, want, problems):
    """got: decoded value (lib.bdecode_strict form); want: python expectation"""
    if isinstance(want, dict):
        if not (isinstance(got, tuple) and got[0] == "d"):
            problems.append("%s: expected a dictionary, found %s" % (path, show(got))); return
        gk = [k for k, _ in got[1]]
        for k in sorted(want):
            if k not in gk:
                problems.append("%s: key %r missing (expected %s)" % (path, k.decode(), show(want[k]) if not isinstance(want[k], (dict, tuple)) else "a value"))
        for k, x in got[1]:
            if k not in want:
                problems.append("%s: key %r present with %s although nothing requested it" % (path, k.decode("utf-8", "replace"), show(x)))
            else:
                compare("%s/%s" % (path, k.decode()), x, want[k], problems)
    elif isinstance(want, list):
        if not isinstance(got, list) or len(got) != len(want):
            problems.append("%s: expected %s, found %s" % (path, show([w for w in want if not isinstance(w, dict)] or "%d entries" % len(want)), show(got))); return
        for i, (g, w) in enumerate(zip(got, want)):
            compare("%s[%d]" % (path, i), g, w, problems)
    elif isinstance(want, tuple) and want[0] == "created-by":
        if not (isinstance(got, bytes) and re.fullmatch(want[1].encode(), got)):
            problems.append("%s: expected imdl/<version>[ (<12 hex>)], found %s" % (path, show(got)))
    else:
        if isinstance(got, bool) or type(got) is not type(want) or got != want:
            problems.append("%s: expected %s, found %s" % (path, show(want), show(got)))


def oracle(c, obs, version, dated):
    """the property, stated on one run's output. dated: whether this run may carry a creation date"""
    problems = []
    b = obs["bytes"]
    if obs["rc"] != 0:
        return ["create failed (rc %s) on a valid request: %s" % (obs["rc"], obs["stderr"][-200:])], None
    if b is None:
        return ["create exited 0 but wrote nothing where the command line says (new directory entries: %r)" % (obs["new_entries"],)], None
    try:
        v, end = lib.bdecode_strict(b)
    except Exception as e:
        return ["output is not canonical bencode: %r" % (e,)], None
    if end != len(b):
        problems.append("%d trailing byte(s) after the top-level value" % (len(b) - end))
    if lib.bencode(v) != b[:end]:
        problems.append("re-encoding the decoded value does not give back the bytes")
    want = expected_fields(c, version)
    date = lib.dget(v, "creation date")
    if dated:
        if isinstance(date, bool) or not isinstance(date, int):
            problems.append("/creation date: missing or not an integer (%s) although --no-creation-date was not given" % show(date))
        elif not (obs["t0"] <= date <= obs["t1"]):
            problems.append("/creation date: %d outside the run's wall-clock window [%d, %d]" % (date, obs["t0"], obs["t1"]))
        if date is not None:
            want[b"creation date"] = date       # already judged above
    compare("", v, want, problems)
    return problems, v


# ---------------------------------------------------------------- the model side

def opt_hex(s):
    return "~" if s is None else lib.hexs(s.encode())


def model_line(c, now, git_suffix):
    pl = expected_piece_length(c)
    files, datas, pieces = hashes(c, pl)
    tree = c["tree"]
    normtab = sorted({u for u in [c["announce"], c["update_url"]] if u in URL_NORMALISING})
    hosttab = sorted({h for h, _ in c["nodes"] if h in HOST_NORMALISING})
    unbr = lambda h: h[1:-1] if h.startswith("[") and h.endswith("]") else h
    bad = sorted({u for t in c["tiers"] for u in t.split(",") if u in BAD_URLS})
    md5 = lambda d: lib.hexs(hashlib.md5(d).hexdigest().encode())
    if tree["kind"] == "file":
        inp = "F:%s:%d:%s" % (lib.hexs(tree["name"].encode()), len(datas[0]), md5(datas[0]))
    elif tree["kind"] == "stdin":
        inp = "S:%d:%s" % (len(datas[0]), md5(datas[0]))
    else:
        # entries in generation order (not sorted): the model's walk_order has to put them where the walker does
        fs = ";".join("%s:%d:%s" % ("/".join(lib.hexs(x.encode()) for x in f["path"]), f["size"], md5(content_of(f["size"], f["word"])))
                      for f in tree["files"])
        inp = "D:%s:%s" % (lib.hexs(tree["name"].encode()), fs or "~")
        if c.get("sort_by"):
            # with --sort-by the order is the documented one (C06's model proves the walker's sort); the model takes it as given
            fs = ";".join("%s:%d:%s" % ("/".join(lib.hexs(x.encode()) for x in f["path"]), f["size"], md5(content_of(f["size"], f["word"])))
                          for f in files)
            inp = "O:%s:%s" % (lib.hexs(tree["name"].encode()), fs or "~")
    b = lambda x: "1" if x else "0"
    fields = ["mi",
              ",".join("%s:%s" % (lib.hexs(u.encode()), lib.hexs(URL_NORMALISING[u].encode())) for u in normtab) or "~",
              ",".join("%s:%s" % (lib.hexs(unbr(h).encode()), lib.hexs(HOST_NORMALISING[h].encode())) for h in hosttab) or "~",
              lib.hexlist([u.encode() for u in bad]),
              lib.hexs(git_suffix),
              opt_hex(c["announce"]), lib.hexlist([t.encode() for t in c["tiers"]]), opt_hex(c["comment"]), opt_hex(c["source"]),
              ",".join("%s:%d" % (lib.hexs(h.encode()), p) for h, p in c["nodes"]) or "~",
              b(c["private"]), opt_hex(c["update_url"]), opt_hex(c["name"]),
              "~" if c["piece_length"] is None else str(c["piece_length"][1]),
              b(c["md5"]), b(c["no_created_by"]), b(c["no_creation_date"]),
              b("small-piece-length" in c["allow"]), b("uneven-piece-length" in c["allow"]), b("private-trackerless" in c["allow"]),
              str(now), inp, lib.hexs(pieces)]
    return " ".join(fields)


# ---------------------------------------------------------------- case bookkeeping

def shell_repro(c, no_date=False):
    tree = c["tree"]
    cmds = ["cd $(mktemp -d)"]
    if tree["kind"] == "file":
        f = tree["files"][0]
        cmds.append("yes %s | head -c %d > %s" % (shlex.quote(f["word"]), f["size"], shlex.quote(tree["name"])))
    elif tree["kind"] == "dir":
        cmds.append("mkdir %s" % shlex.quote(tree["name"]))
        for f in tree["files"]:
            p = os.path.join(tree["name"], *f["path"])
            cmds.append("mkdir -p %s && yes %s | head -c %d > %s" % (shlex.quote(os.path.dirname(p)), shlex.quote(f["word"]), f["size"], shlex.quote(p)))
    if tree.get("link_target"):
        cmds.append("mv %s %s && ln -s %s %s" % (shlex.quote(tree["name"]), shlex.quote(tree["link_target"]), shlex.quote(tree["link_target"]), shlex.quote(tree["name"])))
    pre = ""
    if tree["kind"] == "stdin":
        f = tree["files"][0]
        pre = "yes %s | head -c %d | " % (shlex.quote(f["word"]), f["size"])
    cmds.append(pre + "imdl " + " ".join(shlex.quote(a) for a in argv_of(c, extra_no_date=no_date)))
    return " && ".join(cmds)


def given_options(c):
    g = [o for o in OPTION_NAMES if c[o] not in (None, [], False)]
    return tuple(g)


def case_record(c, obs=None, problems=None, **kw):
    rec = {"options": {k: c[k] for k in OPTION_NAMES + ["allow", "output"]}, "tree": c["tree"], "style": c["style"],
           "expect_reject": c["expect_reject"], "argv": ["imdl"] + argv_of(c), "reproduce": shell_repro(c),
           "reproduce_rerun_with_no_creation_date": shell_repro(c, no_date=True)}
    if obs is not None:
        rec["impl"] = {"rc": obs["rc"], "bytes": obs["bytes"], "stderr": obs["stderr"], "window": [obs["t0"], obs["t1"]],
                       "creation_order": obs["order"], "environment": {"TZ": obs.get("TZ")}}
    if problems is not None:
        rec["oracle"] = problems
    rec.update(kw)
    return rec


def shrink(ctx, c, version, still_fails, budget=60):
    """greedy: drop options, shorten lists, simplify the tree while `still_fails(case)` holds"""
    cur = json.loads(json.dumps(c))

    def fix_allow(t):
        need = set()
        if t["private"] and t["announce"] is None:
            need.add("private-trackerless")
        if t["piece_length"] is not None:
            v = t["piece_length"][1]
            if v < 16 * KIB:
                need.add("small-piece-length")
            if v & (v - 1):
                need.add("uneven-piece-length")
        t["allow"] = sorted(need)
        return t

    def candidates(t):
        for o in OPTION_NAMES:
            if t[o] in (None, [], False) or (o == "name" and t["tree"]["kind"] == "stdin"):
                continue
            u = json.loads(json.dumps(t))
            u[o] = [] if o in ("tiers", "nodes") else (False if isinstance(u[o], bool) else None)
            yield fix_allow(u)
        for o in ("tiers", "nodes"):
            for i in range(len(t[o])):
                if len(t[o]) > 1:
                    u = json.loads(json.dumps(t)); del u[o][i]; yield u
        for i, tier in enumerate(t["tiers"]):
            ms = tier.split(",")
            for j in range(len(ms)):
                if len(ms) > 1:
                    u = json.loads(json.dumps(t)); u["tiers"][i] = ",".join(ms[:j] + ms[j + 1:]); yield u
        if t["tree"]["kind"] == "dir":
            for i in range(len(t["tree"]["files"])):
                u = json.loads(json.dumps(t)); del u["tree"]["files"][i]; yield u
        for i, f in enumerate(t["tree"]["files"]):
            if f["size"] > 1:
                u = json.loads(json.dumps(t)); u["tree"]["files"][i]["size"] = 1; yield u
        if t["output"] != "stdout":
            u = json.loads(json.dumps(t)); u["output"] = "stdout"; yield u

    progress = True
    while progress and budget > 0:
        progress = False
        for t in candidates(cur):
            if budget <= 0:
                break
            budget -= 1
            try:
                if still_fails(t):
                    cur, progress = t, True
                    break
            except Exception:
                pass
    return cur


# ---------------------------------------------------------------- run

def repo_version():
    m = re.search(r'^version\s*=\s*"([^"]+)"', open(os.path.join(lib.REPO, "Cargo.toml")).read(), re.M)
    return m.group(1) if m else "?"


def evaluate(ctx, c, version, base):
    """all runs of one case on the real binary + the oracle's verdicts"""
    res = {"case": c}
    if c["expect_reject"]:
        res["obs"] = run_once(ctx, c, "given", base=base)
        return res
    dated = not c["no_creation_date"]
    obs = run_once(ctx, c, "given", base=base)
    res["obs"] = obs
    res["problems"], res["decoded"] = oracle(c, obs, version, dated)
    # reproducibility: --no-creation-date on the same content populated in another creation order
    order2 = ["reversed", "sorted-desc", "sorted"][c["style"] % 3]
    a = obs if not dated else run_once(ctx, c, "given", no_date=True, base=base)
    forced = c["output"] != "stdout" and a["bytes"] is not None and c["style"] % 2 == 0
    b = run_once(ctx, c, order2, no_date=True, base=other_base(base),
                 force_over=(a["bytes"] + b"l" + b"4:junk" * 120 + b"e") if forced else None)
    res["rerun"] = (a, b)
    rp = []
    if forced and a["rc"] == 0 and b["rc"] == 0 and b["bytes"] is not None and a["bytes"] != b["bytes"] \
            and b["bytes"][:len(a["bytes"])] == a["bytes"]:
        rp.append("--force over an older, longer file at the output path left %d bytes of it after the new metainfo "
                  "(the written file is not the canonical metainfo of this run)" % (len(b["bytes"]) - len(a["bytes"])))
    if a["rc"] != 0 or b["rc"] != 0 or a["bytes"] is None or b["bytes"] is None:
        rp.append("re-run with --no-creation-date failed (rc %s / %s)" % (a["rc"], b["rc"]))
    elif a["bytes"] != b["bytes"]:
        rp.append("--no-creation-date output differs between two trees with the same content created in order "
                  "'given' and '%s' (%d vs %d bytes, first difference at offset %d)" %
                  (order2, len(a["bytes"]), len(b["bytes"]),
                   next((i for i, (x, y) in enumerate(zip(a["bytes"], b["bytes"])) if x != y), min(len(a["bytes"]), len(b["bytes"])))))
    elif dated:
        p2, _ = oracle(c, a, version, False)
        rp += ["with --no-creation-date: " + p for p in p2]
    res["problems"] = res["problems"] + rp
    return res


def fixed_cases(ctx):
    """hand-written edge cases, run first in every tier"""
    import random
    r = random.Random(5)
    out = [gen_case(r, set(), "file"), gen_case(r, set(), "dir"), gen_case(r, set(OPTION_NAMES), "dir"),
           gen_case(r, set(OPTION_NAMES), "file"), gen_case(r, set(OPTION_NAMES), "stdin"), gen_case(r, {"name"}, "stdin")]
    for o in OPTION_NAMES:
        out.append(gen_case(r, {o}))
        out.append(gen_case(r, set(OPTION_NAMES) - {o}))
    # IPv6 next to domains, every normalising URL / host, three tiers of three, empty comment, empty directory
    c = gen_case(r, set(), "dir")
    c["nodes"] = [["[2001:db8::1]", 6881], ["router.example.com", 6881], ["[::1]", 0], ["203.0.113.5", 65535], ["[2001:DB8:0:0:0:0:0:1]", 2]]
    c["tiers"] = [",".join(URLS[0:3]), ",".join(URLS[3:6]), ",".join(URLS[6:9])]
    c["comment"] = ""; c["source"] = ""
    out.append(c)
    for u in sorted(URL_NORMALISING):
        c = gen_case(r, set(), "file"); c["announce"] = u; c["update_url"] = u; out.append(c)
    for h in sorted(HOST_NORMALISING):
        c = gen_case(r, set(), "file"); c["nodes"] = [[h, 6881]]; out.append(c)
    c = gen_case(r, {"md5"}, "dir"); c["tree"]["files"] = []; out.append(c)
    # component-wise order differs from the order of the joined path text ('-' and '.' sort before '/')
    c = gen_case(r, {"md5", "no_creation_date"}, "dir")
    c["tree"]["files"] = [{"path": ["a.txt"], "size": 3, "word": "b"}, {"path": ["a-b"], "size": 2, "word": "zz"},
                          {"path": ["a", "b"], "size": 1, "word": "word"}, {"path": ["Z"], "size": 5, "word": "b"},
                          {"path": ["é"], "size": 4, "word": "b"}, {"path": ["a", "B"], "size": 6, "word": "b"}]
    out.append(c)
    # keys that sort around each other inside info: everything optional on, multi-file, md5
    c = gen_case(r, {"private", "source", "update_url", "md5", "name", "piece_length"}, "dir"); out.append(c)
    for c in out:
        c["fixed"] = True
    return out


def run(ctx):
    ctx.need_coq()
    if not ctx.need_rust() or not ctx.need_runner():
        return finish(ctx)
    version = repo_version()
    r = ctx.rng
    cases = fixed_cases(ctx)
    cases += [gen_case(r) for _ in range(ctx.n(700, 5000))]
    if ctx.thorough:
        # every subset of the twelve options, once
        for m in range(1 << len(OPTION_NAMES)):
            cases.append(gen_case(r, {o for i, o in enumerate(OPTION_NAMES) if m >> i & 1}))
    cases += [gen_malformed(r) for _ in range(ctx.n(120, 800))]
    base = tempfile.mkdtemp(prefix="c05-run-")
    try:
        results = lib.pmap(lambda c: evaluate(ctx, c, version, base), cases)
        judge(ctx, results, version, base)
        x14_tie(ctx, results)
    finally:
        shutil.rmtree(base, ignore_errors=True)
    # X10: the concrete model of the url crate's normal form (Model/UrlNorm.v) against the `url_norm` hook
    from props import urlnorm
    urlnorm.run_urlnorm(ctx)
    # X14: a fresh draw of the same URL generators through the concrete instances c_url_norm / c_norm / c_url_ok (the acceptance test
    # also decides texts with a non-special scheme and no `//`, which u_norm leaves outside its fragment)
    from props import urlconcrete
    tie = urlconcrete.Tie(ctx, "c05-urlgen")
    for t, cls in urlnorm.generate(ctx).items():
        tie.url(t, "url generator/" + cls)
    tie.run()
    return finish(ctx)


def x14_tie(ctx, results):
    """X14: the url crate's Section variables of Model/Metainfo.v at their concrete instances (Model/UrlConcrete.v: c_norm,
    c_url_ok, c_host_canon), on every URL / node host / HOST:PORT text that occurs in this run: against the hooks (urlconcrete.Tie)
    and against the bytes the real binary wrote (announce, update-url, the host of every node)."""
    from props import urlconcrete
    tie = urlconcrete.Tie(ctx, "c05")
    for res in results:
        c = res["case"]
        w = "create, refused request (%s)" % c["expect_reject"] if c["expect_reject"] else "create command line"
        tie.url(c["announce"], w + ", --announce"); tie.url(c["update_url"], w + ", --update-url")
        for t in c["tiers"]:
            for u in t.split(","):
                tie.url(u, w + ", --announce-tier member")
        for h, p in c["nodes"]:
            tie.host(urlconcrete.unbracket(h.encode()), w + ", --node host")
            tie.hostport(("%s:%d" % (h, p)).encode(), w + ", --node")
        v = res.get("decoded")
        nodes = lib.dget(v, "nodes") if v is not None else None
        for nd in nodes if isinstance(nodes, list) else []:
            tie.node(lib.bencode(nd), "node of a written metainfo")
            if isinstance(nd, list) and nd and isinstance(nd[0], bytes):
                tie.host(nd[0], "node host of a written metainfo")
    for u in list(URLS) + sorted(URL_NORMALISING) + list(URL_NORMALISING.values()) + list(BAD_URLS):
        tie.url(u, "c05 recorded URL tables")
    for h in list(HOSTS) + sorted(HOST_NORMALISING) + list(HOST_NORMALISING.values()):
        tie.host(urlconcrete.unbracket(h.encode()), "c05 recorded host tables")
    tie.run()
    for res in results:
        c, v = res["case"], res.get("decoded")
        if c["expect_reject"] or v is None or res.get("problems"):
            continue
        a = lib.dget(v, "announce")
        if c["announce"] is not None and isinstance(a, bytes):
            tie.observed_url(c["announce"], a, "`announce` of the metainfo the binary wrote")
        uu = lib.dget(lib.dget(v, "info"), "update-url")
        if c["update_url"] is not None and isinstance(uu, bytes):
            tie.observed_url(c["update_url"], uu, "`info.update-url` of the metainfo the binary wrote")
        nodes = lib.dget(v, "nodes")
        if isinstance(nodes, list) and len(nodes) == len(c["nodes"]):
            for (h, p), nd in zip(c["nodes"], nodes):
                if isinstance(nd, list) and len(nd) == 2 and isinstance(nd[0], bytes):
                    tie.observed_host(urlconcrete.unbracket(h.encode()), nd[0], "`nodes` of the metainfo the binary wrote")
                    # stored again: the stored host is a fixed point of c_host_canon (c05_concrete_create_again_changes_nothing)
                    tie.observed_host(nd[0], nd[0], "stored node host given again", what="would store")


def observed_env(res, version):
    """the clock value and git suffix the model is to be run with, read off the implementation's output"""
    c, obs = res["case"], res["obs"]
    now, suffix = obs["t0"], b""
    v = res.get("decoded")
    if v is not None:
        d = lib.dget(v, "creation date")
        if isinstance(d, int) and not isinstance(d, bool) and d >= 0:
            now = d
        cb = lib.dget(v, "created by")
        pre = ("imdl/" + version).encode()
        if isinstance(cb, bytes) and cb.startswith(pre) and re.fullmatch(rb"( \([0-9a-f]{12}\))?", cb[len(pre):]):
            suffix = cb[len(pre):]
    return now, suffix


def judge(ctx, results, version, base):
    lines = []
    for res in results:
        now, suffix = observed_env(res, version)
        res["env"] = (now, suffix)
        lines.append(model_line(res["case"], now, suffix))
    replies = ctx.model(lines)
    sampled = 0
    for res, line, m in zip(results, lines, replies):
        c, obs = res["case"], res["obs"]
        ctx.cov["evaluations"] += 1
        ctx.cov["traces_validated_against_impl"] += 1
        tree = c["tree"]
        ctx.count("tree_" + tree["kind"])
        ctx.count("output_" + c["output"])
        if not (m.startswith("OK ") or m == "NONE"):
            ctx.violation("infrastructure", "model runner replied %r" % m[:200], {"line": line, "reply": m})
            continue
        if c["expect_reject"]:
            ctx.count("malformed_" + c["expect_reject"])
            ctx.distinct(("reject", c["expect_reject"], given_options(c)))
            wrote = obs["bytes"] is not None or obs["new_entries"] or (obs["rc"] != 0 and obs["stdout_len"] > 0)
            rec = case_record(c, obs, model=m)
            if m != "NONE":
                ctx.violation("infrastructure", "generator/model mismatch: the model accepts a request generated as '%s'" % c["expect_reject"], rec)
            elif obs["rc"] == 0 or wrote:
                ctx.cov["disagreements_checked"] += 1
                ctx.violation("model-impl-disagreement",
                              "request that Create::run refuses in the model (%s) was not refused cleanly by the binary: rc=%s, "
                              "files written=%s, stdout bytes=%d" % (c["expect_reject"], obs["rc"], obs["new_entries"], obs["stdout_len"]), rec)
            continue
        for o in given_options(c):
            ctx.count("opt_" + o)
        ctx.count("options_given_%02d" % len(given_options(c)))
        ctx.count("files_%d" % len(tree["files"]))
        if any(h.startswith("[") for h, _ in c["nodes"]) and any(not h.startswith("[") for h, _ in c["nodes"]):
            ctx.count("nodes_ipv6_next_to_other")
        if len(c["tiers"]) > 1:
            ctx.count("multi_tier")
        if any(u in URL_NORMALISING for u in (c["announce"], c["update_url"])) or any(h in HOST_NORMALISING for h, _ in c["nodes"]):
            ctx.count("normalising_input")
        ctx.distinct((given_options(c), tree["kind"], len(tree["files"]), c["output"]))
        problems = res["problems"]
        if problems:
            # property failure on the implementation: shrink, then report
            def still_fails(t):
                rr = evaluate(ctx, t, version, base)
                return bool(rr["problems"])
            small = shrink(ctx, c, version, still_fails)
            rr = evaluate(ctx, small, version, base)
            if not rr["problems"]:
                small, rr = c, res
            now, suffix = observed_env(rr, version)
            mm = ctx.model([model_line(small, now, suffix)])[0]
            ctx.violation("oracle-failure", "; ".join(rr["problems"][:4]),
                          case_record(small, rr["obs"], rr["problems"], model=mm[:2000],
                                      rerun_no_creation_date=[{"order": x["order"], "rc": x["rc"], "bytes": x["bytes"]} for x in rr.get("rerun", ())],
                                      unshrunk_argv=["imdl"] + argv_of(c)))
            continue
        got = "OK " + lib.hexs(obs["bytes"])
        if m != got:
            ctx.cov["disagreements_checked"] += 1
            mb = lib.unhex(m[3:]) if m.startswith("OK ") else None
            at = None if mb is None else next((i for i, (x, y) in enumerate(zip(mb, obs["bytes"])) if x != y), min(len(mb), len(obs["bytes"])))
            ctx.violation("model-impl-disagreement",
                          "Metainfo.create_bytes and the binary write different bytes (first difference at offset %s) although "
                          "the oracle finds every requested field in place" % at,
                          case_record(c, obs, [], model=m[:4000], env={"now": res["env"][0], "git_suffix": res["env"][1]}))
            continue
        if sampled < 4 and (c.get("fixed") is None) and len(given_options(c)) >= 5:
            sampled += 1
            ctx.sample({"argv": ["imdl"] + obs["argv"], "tree": tree, "bytes_len": len(obs["bytes"]),
                        "sha1_of_output": hashlib.sha1(obs["bytes"]).hexdigest(), "model_equal": True,
                        "rerun_orders": [x["order"] for x in res["rerun"]]})


def finish(ctx):
    ctx.assumptions += [
        "url crate: Url::parse(x).to_string() is the identity on the generated normal-form URLs and maps the recorded "
        "non-normal inputs as listed in URL_NORMALISING (Section variable norm; every use is compared with the binary; inside the "
        "fragment of Model/UrlNorm.v this is a theorem about the model, c05_url_norm_fixed / c05_url_norm_rows, and the model is "
        "compared with the url_norm hook)",
        "url crate: Url::parse refuses exactly the BAD_URLS members among the generated tier members (Section variable url_ok)",
        "url crate Host: parse+Display is the identity on the generated hosts apart from the IPv6 brackets, and maps the recorded "
        "inputs as listed in HOST_NORMALISING (Section variable host_canon); HOST:PORT splitting is C17's",
        "`created by` = imdl/<Cargo.toml version> followed by the build-time git suffix (empty or ' (<12 hex>)')",
        "the walker hands over the regular, non-hidden, non-junk files in ascending path order (C06) and the hasher the piece "
        "hashes / md5 digests of their bytes (C01); here both are recomputed with sorted() and hashlib",
        "all integers written are below 2^63 (file lengths, clock) - hypotheses input_ok / opts_ok of c05_canonical",
    ]
    return ctx.finish(
        rule="cases: hand-written edge cases (no option, all options, each option alone, all but one, every recorded URL/host "
             "normalisation, IPv6 next to domains, 3x3 tiers, empty strings, empty directory) then seeded random option subsets "
             "(each option with probability 1/2; thorough: additionally every one of the 2^12 subsets) x {single file, directory of "
             "0-6 files up to 3 levels deep, stdin} x {--output -, --output PATH, default path}, option spelling (long/short) and "
             "order shuffled; plus a malformed stream (unparseable tier member, empty tier member, private without tracker, piece "
             "length 0 / small / uneven / >= 2^32, stdin without --name). Every valid case: 2-3 runs of the real binary (as given; "
             "with --no-creation-date; with --no-creation-date on a second tree of the same content populated in another creation "
             "order). A case is distinct/non-trivial by (set of options given, tree kind, number of files, output mode). "
             "URL texts for the url_norm tie (tools/props/urlnorm.py): the URLs of the C05/C10/C12 checks; systematic edits of five base "
             "URLs (letter case, default / non-default / zero-padded / empty / overflowing ports, userinfo with @ and :, empty host, "
             "dot segments incl. %2e spellings in every position and next to Windows-drive-letter segments, // and backslash runs, "
             "every ASCII byte in scheme / userinfo / host / port / path / query / fragment / leading / trailing position, tab, LF, CR "
             "and space at every offset, missing //, scheme only, 11 scheme swaps); IPv4 / IPv6 host spellings from C17's generators; "
             "seeded random trackers (C10's generator), compositions of odd components and 1-2 byte edits of them. A URL text is "
             "distinct by (generator, outcome, first bytes, length class). X14 (counts x14_*): every URL, node host, HOST:PORT text and "
             "encoded node that occurs in the create cases above and in the recorded tables, through the concrete instances of "
             "Model/UrlConcrete.v and through the hooks, plus the announce / update-url / node hosts of every written metainfo against "
             "c_norm / c_host_canon; distinct by (kind, outcome, first bytes, length class).",
        trusted_base=["Coq 8.16.1 kernel (coqc)", "tools/rs2v_schema.py (GenSchema, GenCreate)",
                      "extraction with ExtrOcamlBasic + runner/driver.d/metainfo.ml (Metainfo.create_bytes, MetainfoOrder.walk_order)",
                      "runner/driver.d/urlnorm.ml (UrlNorm.u_norm, is_normal_url), hook url_norm + harness/src/handlers/urlnorm.rs",
                      "runner/driver.d/urlconcrete.ml (UrlConcrete.c_url_norm, c_norm, c_url_ok, c_host_disp, c_host_canon, c_hp_norm, c_node_ok "
                      "and their fragment predicates), hooks url_norm / host_parse / hostport_parse / hostport_from_bencode",
                      "Python oracle in tools/props/c05.py + lib.bdecode_strict, hashlib"],
    )


def replay(ctx, path):
    rec = json.load(open(path))
    case = rec["case"]
    if "url_text_hex" in case:
        from props import urlnorm
        return urlnorm.replay_url(ctx, case)
    if "x14_kind" in case:
        from props import urlconcrete
        return urlconcrete.replay(ctx, case)
    if "options" not in case:
        print(json.dumps(case, indent=1)[:4000]); return 0
    ctx.need_rust(); ctx.need_runner()
    c = dict(case["options"]); c["tree"] = case["tree"]; c["style"] = case["style"]; c["expect_reject"] = case.get("expect_reject")
    version = repo_version()
    base = tempfile.mkdtemp(prefix="c05-replay-")
    try:
        res = evaluate(ctx, c, version, base)
    finally:
        shutil.rmtree(base, ignore_errors=True)
    now, suffix = observed_env(res, version)
    m = ctx.model([model_line(c, now, suffix)])[0]
    obs = res["obs"]
    print("argv  :", " ".join(shlex.quote(a) for a in ["imdl"] + obs["argv"]))
    print("shell :", shell_repro(c))
    print("impl  : rc=%s %s" % (obs["rc"], "OK " + lib.hexs(obs["bytes"]) if obs["bytes"] is not None else "nothing written"))
    print("model :", m)
    print("oracle:", res.get("problems") if not c["expect_reject"] else "request must be refused (%s)" % c["expect_reject"])
    return 0
