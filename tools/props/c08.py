"""C08 - no local input can crash imdl.

Obligations: coq/Properties/C08.v (no_panic theorems over Model/Crash.v for show / link / verify /
dump / stats and the argument stage, one guard lemma per partial operation, and the panic-site
inventory regenerated from the anchored sources by tools/rs2v_panics.py with every site
classified).

Decisive evidence (the property is about the process): structure-aware fuzzing. A bencode mutator
over valid torrents (extreme integers, short / odd / non-hex md5sum, empty and huge path lists,
dates up to 2^64, invalid UTF-8, nesting up to 10^6, truncations, type swaps, byte flips) feeds
`torrent show|link|verify|dump|stats` by path and on standard input; argument strings (magnet
links, byte sizes, host:port, sort specs, globs, URLs; also non-UTF-8 argv on the real binary) feed
`from-link`, `create`, `link`. Volume runs in-process through the `cli` hook (catch_unwind); every
in-process PANIC / DIED is re-run on the real binary, and only the real binary decides.

Direct oracle (independent of the model): the process ends with status 0, or status 1 with an
`error:` diagnostic on standard error; anything else (101, a signal, a timeout) is a failure. For
multi-file torrents shown in terminal layout the file tree is part of the oracle: the lines a
recursive reading of the path lists draws (the number of lines for the very deep corpus entries,
whose output runs to gigabytes and is counted while it streams).
Correspondence: the extracted Crash model's class (ok / err) against the exit status, and the
model's file tree (Crash.directory_rows) against the tree the implementation prints."""
import zlib
import json, os, re, shutil, subprocess, sys, tempfile, time, urllib.parse
from concurrent.futures import ThreadPoolExecutor
import lib

sys.setrecursionlimit(max(sys.getrecursionlimit(), 20000))   # the oracle-side bencode reader recurses per nesting level
MODEL_MAX = 20000    # bytes; the extracted model re-measures the rest of the input at every string token (quadratic)

MANIFEST = dict(
    text="Machine-checked proof that the Gallina model of the input paths of show/link/verify/dump/stats and of the argument "
         "stage never reaches one of its explicit panic primitives (unwrap on None, index out of bounds, u64/usize overflow in the "
         "debug profile, String::truncate off a character boundary, stack budget), with every panic site of the anchored sources "
         "inventoried from the current tree and classified; the loops that build, draw and drop the file tree of the terminal layout are "
         "proved equal to the recursive code they replaced, for trees of any depth; tied to the real binary by structure-aware fuzzing whose "
         "exit status is compared with the model's class and whose file trees are compared with the model's and an independent drawing. "
         "Right level: crash-freedom is universal over an unbounded input space with value-dependent failing points.",
    ref="DESIGN.md section 5, C08",
    technique="Coq proof over a Gallina model + translator-generated panic-site inventory + fuzzing correspondence on the real binary",
    note="Partial: stack exhaustion, allocation failure and panics inside third-party crates are exhibited only by the fuzzing "
         "runs; the inventory covers imdl's own anchored sources. Assumed (Section variables): url crate acceptance, node host "
         "acceptance. Trusted: Coq kernel, tools/rs2v_panics.py, extraction, run_cli hook + harness, Python oracle.")

U64 = (1 << 64) - 1
I64 = (1 << 63) - 1
ANSI = re.compile(rb"\x1b\[[0-9;]*[A-Za-z]")
DEEP = 3000          # nesting above this depth is only ever run on the real binary (a stack overflow kills the harness)


# ------------------------------------------------------------------ encoding of python trees
# ints, bytes, lists, ("d", [(k, v)...]) in file order (not re-sorted: the mutator may unsort), ("raw", bytes)

def enc(v):
    if isinstance(v, tuple) and v[0] == "raw":
        return v[1]
    if isinstance(v, int):
        return b"i%de" % v
    if isinstance(v, bytes):
        return b"%d:%s" % (len(v), v)
    if isinstance(v, list):
        return b"l" + b"".join(enc(x) for x in v) + b"e"
    if isinstance(v, tuple) and v[0] == "d":
        return b"d" + b"".join(enc(k) + enc(x) for k, x in v[1]) + b"e"
    raise TypeError(v)


def D(**kw):
    return ("d", sorted(((k.replace("_", " ").encode(), v) for k, v in kw.items())))


def dsort(pairs):
    return ("d", sorted(pairs, key=lambda kv: kv[0]))


def dset(d, key, val):
    pairs = [(k, v) for k, v in d[1] if k != key]
    if val is not None:
        pairs.append((key, val))
    return dsort(pairs)


MD5 = b"000102030405060708090a0b0c0d0e0f"


def base_single(r):
    info = [(b"length", r.choice([0, 5, 16384, 1 << 40])), (b"name", r.choice([b"NAME", b"n", "n\u00e9".encode()])),
            (b"piece length", r.choice([16384, 1, 1 << 20])), (b"pieces", bytes(r.getrandbits(8) for _ in range(20 * r.randrange(0, 3))))]
    if r.random() < .5:
        info.append((b"md5sum", MD5))
    if r.random() < .3:
        info.append((b"private", r.choice([0, 1])))
    if r.random() < .3:
        info.append((b"source", b"SRC"))
    if r.random() < .3:
        info.append((b"update-url", r.choice([b"https://update.example/x", b"http://u.example"])))
    return top(r, dsort(info))


def base_multi(r):
    files = []
    for i in range(r.choice([0, 1, 2, 3, 5])):
        f = [(b"length", r.choice([0, 1, 7, 1 << 33])), (b"path", [b"d%d" % (i % 2), b"f%d" % i][r.randrange(0, 2):])]
        if r.random() < .4:
            f.append((b"md5sum", MD5))
        files.append(dsort(f))
    info = [(b"files", files), (b"name", b"DIR"), (b"piece length", 32768), (b"pieces", bytes(20 * r.randrange(0, 3)))]
    if r.random() < .2:
        info.append((b"private", 1))
    return top(r, dsort(info))


def top(r, info):
    t = [(b"info", info)]
    if r.random() < .7:
        t.append((b"announce", r.choice([b"udp://announce.example:1337", b"http://t.example/announce"])))
    if r.random() < .5:
        t.append((b"announce-list", [[b"http://a.example:4567/announce", b"https://b.example:77"], [b"udp://c.example:88"]][:r.randrange(0, 3)]))
    if r.random() < .4:
        t.append((b"comment", b"COMMENT"))
    if r.random() < .4:
        t.append((b"created by", b"imdl/0.1.13"))
    if r.random() < .6:
        t.append((b"creation date", r.choice([0, 1, 1600000000, 4102444800])))
    if r.random() < .3:
        t.append((b"encoding", b"UTF-8"))
    if r.random() < .4:
        t.append((b"nodes", [[b"node.example", 12], [b"1.1.1.1", 16], [b"2001:db8:85a3::8a2e:370", 7334]][:r.randrange(0, 4)]))
    return dsort(t)


# ------------------------------------------------------------------ mutators (each returns (label, bytes) )

EXTREME = [0, -1, 1, 255, 65535, 65536, (1 << 31) - 1, 1 << 31, (1 << 32) - 1, 1 << 32, 1 << 53, I64 - 1, I64, I64 + 1,
           U64, U64 + 1, -(1 << 63), -(1 << 63) - 1, 10 ** 30, -10 ** 30]
DATES = [8210298412799, 8210298412800, 8210298412801, 253402300799, 253402300800, 1 << 62, I64 - 1, I64, I64 + 1, U64, U64 + 1,
         1 << 40, 1 << 50, 67767976233532799, 67767976233532800, 9223372036854775, 0, -1]
BADUTF8 = [b"\xff", b"\xc0\xaf", b"\xed\xa0\x80", b"\xf4\x90\x80\x80", b"a\x80b", b"\xe2\x82", b"\xf0\x9f\x92", b"\xc3(", b"\xfe\xfe\xff\xff"]
MD5S = [b"", b"a", b"abc", b"0" * 15, b"0" * 16, b"0" * 17, b"0" * 31, b"g" * 32, b"0" * 33, b"0" * 64, MD5.upper(), b"\xff" * 32, b"0x" + b"0" * 30,
        b" " * 32, "\u00e9".encode() * 16, b"0" * 30 + "\u00e9".encode(), 0, [], b"+" + b"0" * 31]
URLS = [b"", b"::", b"http://[::1", b"not a url", b"http://", b"//x", b"udp://x:99999", b"http://a b/", b"mailto:x", b"http://\xff/", b"x" * 70000,
        b"http://exa mple.com", b"https://%zz/", b"http://[1::2::3]/", b"a:b", b"1:2"]
HOSTS = [b"", b"[::1]", b"::1", b"a:b", b"1.2.3.4", b"1.2.3.4.5", b"\xff", b"exa mple", b"x" * 300, b"xn--", b"%41", b"a" * 64 + b".com", b"[", b"]", b"0x7f.1",
         b"2001:db8::1", b"1::2::3", b"4294967296", "\u00e9.example".encode(), b"a..b"]


def paths(v, at=()):
    """all node paths of a python tree"""
    out = [at]
    if isinstance(v, list):
        for i, x in enumerate(v):
            out += paths(x, at + (i,))
    elif isinstance(v, tuple) and v[0] == "d":
        for i, (k, x) in enumerate(v[1]):
            out += paths(x, at + (i,))
    return out


def getp(v, p):
    for i in p:
        v = v[i] if isinstance(v, list) else v[1][i][1]
    return v


def setp(v, p, new):
    if not p:
        return new
    i = p[0]
    if isinstance(v, list):
        return v[:i] + [setp(v[i], p[1:], new)] + v[i + 1:]
    pairs = list(v[1])
    pairs[i] = (pairs[i][0], setp(pairs[i][1], p[1:], new))
    return ("d", pairs)


def leaves(v, typ):
    return [p for p in paths(v) if isinstance(getp(v, p), typ) and not (typ is tuple and getp(v, p)[0] != "d")]


def nest(open_, depth, r):
    """a raw value nested `depth` deep"""
    if open_ == "l":
        return ("raw", b"l" * depth + b"e" * depth)
    if open_ == "d":
        return ("raw", b"d1:a" * depth + b"i0e" + b"e" * depth)
    return ("raw", (b"l" + b"d1:a") * (depth // 2) + b"le" + (b"e" + b"e") * (depth // 2))


def info_of(t):
    return next((v for k, v in t[1] if k == b"info"), None)


def with_info(t, f):
    i = info_of(t)
    return dset(t, b"info", f(i))


def mutate(r, deep_ok):
    """one structured mutation of a fresh valid torrent: (label, bytes)"""
    t = base_single(r) if r.random() < .45 else base_multi(r)
    kind = r.choice(["valid", "int", "date", "sum", "md5", "paths", "utf8", "nest", "trunc", "swap", "keys", "pieces", "flip",
                     "plen", "nodes", "urls", "trail", "private", "valid", "sum", "md5", "date", "tree", "tree"])
    if kind == "tree":
        # file lists made only of acceptable components, related to each other in every way a tree builder has to cope with:
        # the same path twice (adjacent or not), a path that is a proper prefix of another (file and directory of one name,
        # in both orders), siblings, long shared prefixes, one component, very many files, long and non-ASCII names
        comps = [b"a", b"b", b"c", b"A", "\u00e9".encode(), b"a b", b"x" * 255, b"...", b"-", b"~", b"a.b", b"0"]
        shape = r.randrange(9)
        if shape == 0:
            q = [r.choice(comps) for _ in range(r.choice([1, 2, 3]))]
            plist = [q, q] if r.random() < .5 else [q, [b"other"], q]
        elif shape == 1:
            q = [r.choice(comps) for _ in range(r.choice([1, 2]))]
            plist = [q, q + [r.choice(comps)]]
        elif shape == 2:
            q = [r.choice(comps) for _ in range(r.choice([1, 2]))]
            plist = [q + [r.choice(comps)], q]
        elif shape == 3:
            q = [r.choice(comps) for _ in range(r.choice([1, 3, 20]))]
            plist = [q + [c] for c in comps[:r.choice([2, 5, 12])]]
        elif shape == 4:
            plist = [[r.choice(comps)]]
        elif shape == 5:
            plist = [[b"d%d" % (i % 7), b"f%d" % i] for i in range(r.choice([100, 1000, 3000]))]
        elif shape == 6:
            plist = [[r.choice(comps) for _ in range(r.randrange(1, 5))] for _ in range(r.randrange(2, 9))]
        elif shape == 7:
            q = [r.choice(comps) for _ in range(r.choice([2, 3]))]
            plist = [q, q[:1], q, q[:1] + [b"z"], q[:-1]]
        else:
            q = [b"p%d" % i for i in range(r.choice([30, 200, 900]))]
            plist = [q, q[: len(q) // 2], q + [b"leaf"], q]
        files = [dsort([(b"length", r.choice([0, 1, 7])), (b"path", q)]) for q in plist]
        return kind, enc(with_info(t, lambda i: dset(dset(dset(i, b"length", None), b"md5sum", None), b"files", files)))
    if kind == "valid":
        return kind, enc(t)
    if kind == "int":
        ps = leaves(t, int)
        return kind, enc(setp(t, r.choice(ps), r.choice(EXTREME)))
    if kind == "date":
        return kind, enc(dset(t, b"creation date", r.choice(DATES + [r.getrandbits(r.randrange(1, 65))])))
    if kind == "sum":
        big = r.choice([[I64, I64, I64], [I64, I64, 2], [I64, I64, 1], [I64, I64], [I64, 1], [1 << 62] * 4, [1 << 62] * 3 + [(1 << 62) - 1],
                        [U64, 1], [I64 + 1, I64 + 1], [I64] * 50, [(1 << 64) // 3 + 1] * 3, [(1 << 64) // 3] * 3])
        files = [dsort([(b"length", n), (b"path", [b"f%d" % i])]) for i, n in enumerate(big)]
        return kind, enc(with_info(t, lambda i: dset(dset(dset(i, b"length", None), b"md5sum", None), b"files", files)))
    if kind == "md5":
        m = r.choice(MD5S + [bytes(r.choice(b"0123456789abcdefABCDEFgG ") for _ in range(r.choice([1, 2, 15, 16, 31, 32, 32, 33])))])
        i = info_of(t)
        fl = next((v for k, v in i[1] if k == b"files"), None)
        if fl:
            j = r.randrange(len(fl))
            fl2 = fl[:j] + [dset(fl[j], b"md5sum", m)] + fl[j + 1:]
            return kind, enc(with_info(t, lambda i: dset(i, b"files", fl2)))
        if fl == []:
            return kind, enc(with_info(t, lambda i: dset(i, b"files", [dsort([(b"length", 1), (b"md5sum", m), (b"path", [b"x"])])])))
        return kind, enc(with_info(t, lambda i: dset(i, b"md5sum", m)))
    if kind == "paths":
        c = r.randrange(9)
        p = {0: [], 1: [b""], 2: [b".."], 3: [b"/abs", b"x"], 4: [b"a/b"], 5: [b"x"] * r.choice([300, 1000, 3000]), 6: [b"\xff"], 7: [b"."],
             8: [b"a", b"", b"b"]}[c]
        n = r.choice([1, 1, 2, 3000]) if c != 5 else 1
        files = [dsort([(b"length", 1), (b"path", p if (j % 2 == 0 or n > 10) else [b"ok%d" % j])]) for j in range(n)]
        if r.random() < .2:
            files = []
        return kind, enc(with_info(t, lambda i: dset(dset(dset(i, b"length", None), b"md5sum", None), b"files", files)))
    if kind == "utf8":
        ps = leaves(t, bytes)
        p = r.choice(ps)
        return kind, enc(setp(t, p, r.choice(BADUTF8)))
    if kind == "nest":
        depth = r.choice([3, 50, 500, 1000, 2000, 2040, 2060, 2500] + ([5000, 20000, 200000, 1000000] if deep_ok else []))
        ps = paths(t)
        where = r.choice(ps + [()] * 3)
        v = nest(r.choice("ldm"), depth, r)
        if r.random() < .3:  # an unknown key carrying the nest
            return "nest%d" % depth, enc(dset(t, b"zz", v))
        return "nest%d" % depth, enc(setp(t, where, v))
    if kind == "trunc":
        b = enc(t)
        return kind, b[:r.randrange(0, len(b))]
    if kind == "swap":
        p = r.choice(paths(t))
        new = r.choice([0, b"", b"x", [], [[]], ("d", []), [0], [b"a", 1], ("d", [(b"a", 0)]), -5, [[b"u"]], ("d", [(b"length", 1), (b"path", [b"p"])])])
        return kind, enc(setp(t, p, new))
    if kind == "keys":
        ds = leaves(t, tuple)
        p = r.choice(ds)
        d = getp(t, p)
        pairs = list(d[1])
        c = r.randrange(5)
        if c == 0 and pairs:
            pairs.pop(r.randrange(len(pairs)))
        elif c == 1 and pairs:
            pairs.insert(r.randrange(len(pairs) + 1), r.choice(pairs))
        elif c == 2:
            r.shuffle(pairs)
        elif c == 3:
            pairs.append((r.choice(BADUTF8), 0)); pairs.sort(key=lambda kv: kv[0])
        else:
            pairs.append((r.choice([b"zzz", b"", b"a", b"info ", b"length"]), r.choice([0, b"v", [], ("d", [])]))); pairs.sort(key=lambda kv: kv[0])
        return kind, enc(setp(t, p, ("d", pairs)))
    if kind == "pieces":
        n = r.choice([1, 19, 21, 39, 40, 20 * 5000, 20 * 5000 + 1])
        return kind, enc(with_info(t, lambda i: dset(i, b"pieces", bytes(n))))
    if kind == "flip":
        b = bytearray(enc(t))
        for _ in range(r.choice([1, 1, 2, 5])):
            c = r.randrange(4)
            j = r.randrange(len(b))
            if c == 0:
                b[j] = r.getrandbits(8)
            elif c == 1:
                del b[j]
            elif c == 2:
                b.insert(j, r.choice(b"ilde0123456789:-"))
            else:
                b[j] = r.choice(b"ilde0123456789:-")
        return kind, bytes(b)
    if kind == "plen":
        return kind, enc(with_info(t, lambda i: dset(i, b"piece length", r.choice([0, 1, (1 << 32) - 1, 1 << 32, I64, -1, 3]))))
    if kind == "nodes":
        c = r.randrange(5)
        host = r.choice(HOSTS)
        node = {0: [host, 1], 1: [b"h.example", r.choice([65535, 65536, -1, U64])], 2: [host], 3: [host, 1, 2], 4: r.choice([host, 7, [], ("d", [])])}[c]
        return kind, enc(dset(t, b"nodes", [node] if r.random() < .8 else node))
    if kind == "urls":
        u = r.choice(URLS)
        c = r.randrange(3)
        if c == 0:
            return kind, enc(dset(t, b"announce", u))
        if c == 1:
            return kind, enc(dset(t, b"announce-list", [[b"http://ok.example/a"], [u]]))
        return kind, enc(with_info(t, lambda i: dset(i, b"update-url", u)))
    if kind == "trail":
        return kind, enc(t) + r.choice([b"x", b"e", b"i0e", b"\x00", enc(t)])
    if kind == "private":
        return kind, enc(with_info(t, lambda i: dset(i, b"private", r.choice([0, 1, 2, -1, b"1", b"", [], 256]))))
    raise AssertionError(kind)


LITERALS = [b"", b"x", b"i0e", b"de", b"le", b"0:", b"e", b"d", b"l", b"i", b"i-0e", b"i01e", b"1:", b"d4:infoi0ee", b"d4:infodee", b"d4:infolee",
            b"d4:info0:e", b"d1:ad1:bd1:cdeeee", b"\x00", b"d4:infod6:lengthi5e4:name1:n12:piece lengthi1e6:pieces0:ee", b"99999999999999999999:",
            b"18446744073709551615:a", b"d0:0:e", b"di0ei0ee", b"dlei0ee", b"d1:b0:1:a0:e", b"i9223372036854775808e", b"i-9223372036854775809e"]


def count_tree_nodes(plist):
    """number of nodes of the file tree of a list of paths: the distinct non-empty prefixes (a trie, walked without recursion)"""
    root, n = {}, 0
    for q in plist:
        node = root
        for c in q:
            nxt = node.get(c)
            if nxt is None:
                nxt = node[c] = {}
                n += 1
            node = nxt
    return n


_BIG = []


def big_corpus():
    """corpus entries whose terminal rendering is too large to hold in memory: (label, bytes, expected stdout lines of
    `imdl --terminal torrent show`, last name drawn). The witnesses of the repaired finding deep-path-terminal: one path of 50000 and of
    200000 components, and 3000 files below a common prefix of 2000 components. The table of such a torrent has eight rows
    (Name, Info Hash, Torrent Size, Content Size, Private, Piece Size, Piece Count, File Count) before the Files row, which
    is the root and one line per node of the tree."""
    if _BIG:
        return _BIG
    head = b"d4:infod5:filesl"
    tail = b"e4:name1:n12:piece lengthi16384e6:pieces0:ee"
    for n in (50000, 200000):
        data = head + b"d6:lengthi1e4:pathl" + b"1:x" * n + b"ee" + tail
        _BIG.append(("corpus-deep-path-%d" % n, data, 8 + 1 + count_tree_nodes([[b"x"] * n]), b"x"))
    pre = [b"p%d" % i for i in range(2000)]
    pre_enc = b"".join(b"%d:%s" % (len(c), c) for c in pre)
    leaves = [b"f%04d" % i for i in range(3000)]
    data = head + b"".join(b"d6:lengthi1e4:pathl" + pre_enc + b"%d:%s" % (len(l), l) + b"ee" for l in leaves) + tail
    _BIG.append(("corpus-shared-prefix-2000x3000", data, 8 + 1 + count_tree_nodes([pre + [l] for l in leaves]), leaves[-1]))
    return _BIG


def corpus():
    """regression corpus: the witnesses of the five defects confirmed on the unrepaired tree (DESIGN.md section 6) run first"""
    single = lambda **kw: enc(dsort([(b"info", dsort([(b"length", 5), (b"name", b"n"), (b"piece length", 16384), (b"pieces", bytes(20))] + list(kw.get("info", [])))),
                                     ] + list(kw.get("top", []))))
    multi = lambda lens: enc(dsort([(b"info", dsort([(b"files", [dsort([(b"length", n), (b"path", [b"f%d" % i])]) for i, n in enumerate(lens)]),
                                                     (b"name", b"n"), (b"piece length", 16384), (b"pieces", b"")]))]))
    multi_paths = lambda pl: enc(dsort([(b"info", dsort([(b"files", [dsort([(b"length", 1), (b"path", q)]) for q in pl]),
                                                         (b"name", b"n"), (b"piece length", 16384), (b"pieces", b"")]))]))
    multi_path = lambda path: enc(dsort([(b"info", dsort([(b"files", [dsort([(b"length", 1), (b"path", path)])]),
                                                          (b"name", b"n"), (b"piece length", 16384), (b"pieces", b"")]))]))
    return [
        ("corpus-dump-undecodable", b"x"),
        ("corpus-date-out-of-range", single(top=[(b"creation date", I64)])),
        ("corpus-date-chrono-edge", single(top=[(b"creation date", 8210298412800)])),
        ("corpus-md5-short", single(info=[(b"md5sum", b"abc")])),
        ("corpus-md5-33", single(info=[(b"md5sum", b"0" * 33)])),
        ("corpus-sum-overflow", multi([I64, I64, I64])),
        ("corpus-sum-exact", multi([I64, I64, 1])),
        ("corpus-sum-wrap-to-zero", multi([I64, I64, 2])),
        ("corpus-nest-list-200000", b"l" * 200000 + b"e" * 200000),
        ("corpus-nest-dict-100000", b"d1:a" * 100000 + b"i0e" + b"e" * 100000),
        ("corpus-nest-in-info", b"d4:info" + b"l" * 200000 + b"e" * 200000 + b"e"),
        ("corpus-path-3000-components", multi_path([b"x"] * 3000)),
        ("corpus-valid", single(top=[(b"creation date", 1600000000)])),
        ("corpus-duplicate-path", multi_paths([[b"a", b"b"], [b"a", b"b"]])),
        ("corpus-duplicate-path-apart", multi_paths([[b"a"], [b"b"], [b"a"]])),
        ("corpus-path-prefix-of-path", multi_paths([[b"a"], [b"a", b"b"]])),
        ("corpus-path-extends-path", multi_paths([[b"a", b"b"], [b"a"]])),
        # paths whose lengths (in bytes, characters and columns) differ by more than any 16-bit quantity: a report that lines them up
        # computes with the difference (added after seeded change C08-11: a run-time format width above 65535 panics). A few fixed
        # cases: rendering 70 000-column rows is slow, so they are not part of the generated stream.
        ("corpus-path-widths-1-and-65536", multi_paths([[b"a"], [b"x" * 65536]])),
        ("corpus-path-widths-70000-first", multi_paths([[b"x" * 70000], [b"a"], [b"b", b"c"]])),
        ("corpus-path-widths-17000-components", multi_paths([[b"a"], [b"abc"] * 17000, [b"abc", b"z"]])),
        ("corpus-path-widths-wide-characters", multi_paths([["\u6f22".encode() * 22000], [b"w" * 255]])),
    ]


# ------------------------------------------------------------------ commands

def argv_for(cmd, target):
    return {"show": ["imdl", "torrent", "show", "--input", target],
            "showjson": ["imdl", "torrent", "show", "--json", "--input", target],
            "showterm": ["imdl", "--terminal", "torrent", "show", "--input", target],
            "link": ["imdl", "torrent", "link", "--input", target],
            "verify": ["imdl", "torrent", "verify", "--input", target],
            "dump": ["imdl", "torrent", "dump", "--input", target],
            "stats": ["imdl", "--unstable", "torrent", "stats", "--input", "."]}[cmd]


CMDS = ["show", "showjson", "showterm", "link", "verify", "dump", "stats"]


def pack(data):
    """a byte string as JSON: hex; or, when large, runs of equal bytes, or one periodic stretch (`unit` repeated) between two literal ends"""
    if len(data) <= 4096:
        return {"hex": data.hex()}
    for label, big, _, _ in (_BIG if len(data) > 1000000 else []):
        if big == data:
            return {"corpus": label}      # rebuilt by big_corpus()
    runs = []
    for b in data:
        if runs and runs[-1][0] == b:
            runs[-1][1] += 1
        else:
            runs.append([b, 1])
        if len(runs) > 3000:
            break
    else:
        return {"rle": runs}
    for period in range(2, 9):
        x = (int.from_bytes(data[:-period], "big") ^ int.from_bytes(data[period:], "big")).to_bytes(len(data) - period, "big")
        m = max(re.finditer(rb"\x00+", x), key=lambda m: m.end() - m.start(), default=None)
        if m is None:
            continue
        start, count = m.start(), (m.end() - m.start()) // period + 1
        end = start + count * period
        if len(data) - (end - start) <= 4096:
            p = {"head": data[:start].hex(), "unit": data[start:start + period].hex(), "count": count, "tail": data[end:].hex()}
            if unpack({"repeat": p}) == data:
                return {"repeat": p}
    return {"hex": data.hex()}


def unpack(p):
    if "hex" in p:
        return bytes.fromhex(p["hex"])
    if "corpus" in p:
        return next(d for l, d, _, _ in big_corpus() if l == p["corpus"])
    if "repeat" in p:
        q = p["repeat"]
        return bytes.fromhex(q["head"]) + bytes.fromhex(q["unit"]) * q["count"] + bytes.fromhex(q["tail"])
    return b"".join(bytes([b]) * n for b, n in p["rle"])


def abnormal(rc, err):
    """the direct oracle, in the property's own words. Returns None when the process ended normally."""
    if rc == 0:
        return None
    if rc == 1:
        if b"error:" in ANSI.sub(b"", err):
            return None
        return "exit status 1 without an `error:` diagnostic on standard error"
    if rc == 124:
        return "did not terminate within the time limit"
    if rc < 0:
        return "killed by signal %d" % -rc
    return "exit status %d" % rc


def failure_key(cmd, rc, err, label=""):
    e = ANSI.sub(b"", err).decode("utf-8", "replace")
    if "overflowed its stack" in e or rc == -11 or (rc == -6 and "panicked" not in e):
        return "stack-overflow"
    m = re.search(r"panicked at ([^\s:]+):", e)
    if m:
        loc = m.group(1)
        if "library/std/src/env.rs" in loc or "unexpected invalid UTF-8" in e:
            return "argv-non-utf8"
        loc = re.sub(r"^.*/registry/src/[^/]+/", "", loc)
        loc = re.sub(r"^/rustc/[0-9a-f]+/", "", loc)
        return "panic@" + loc
    return "abnormal-rc%s" % rc


COUNTER = r"""
import json, os, sys
lines = n = 0
head = b""
tail = b""
while True:
    chunk = os.read(0, 1 << 20)
    if not chunk:
        break
    lines += chunk.count(b"\n")
    n += len(chunk)
    if len(head) < 65536:
        head += chunk[:65536 - len(head)]
    tail = chunk[-4096:] if len(chunk) >= 4096 else (tail + chunk)[-4096:]
sys.stdout.write(json.dumps({"lines": lines, "bytes": n, "head": head.hex(), "tail": tail.hex()}))
"""


def run_counting(argv, cwd, stdin, env, timeout):
    """like lib.run_cmd, for output too large to keep: standard output goes through a pipe into a separate counting process
    (a thread of this process would have to take the interpreter lock for every megabyte of 40 GB while the run is busy).
    Returns (rc, first 64 KiB of stdout, stderr, {"lines":, "bytes":, "tail": last 4 KiB})."""
    e = {"PATH": os.environ.get("PATH", ""), "RUST_BACKTRACE": "0"}
    e.update(lib.noise_env())
    e.update(env or {})
    with tempfile.TemporaryFile() as ef, tempfile.TemporaryFile() as inf:
        inf.write(stdin)
        inf.seek(0)
        p = subprocess.Popen(argv, cwd=cwd, stdin=inf, stdout=subprocess.PIPE, stderr=ef, env=e, bufsize=0)
        try:
            import fcntl
            fcntl.fcntl(p.stdout.fileno(), 1031, 1 << 20)      # F_SETPIPE_SZ: fewer context switches for tens of gigabytes
        except Exception:
            pass
        c = subprocess.Popen([sys.executable, "-c", COUNTER], stdin=p.stdout, stdout=subprocess.PIPE, stderr=subprocess.DEVNULL)
        p.stdout.close()
        timed_out = False
        try:
            cout, _ = c.communicate(timeout=timeout)
            rc = p.wait(timeout=30)
        except subprocess.TimeoutExpired:
            timed_out = True
            p.kill()
            c.kill()
            p.wait()
            cout, _ = c.communicate()
        try:
            st = json.loads(cout)
            st["tail"] = bytes.fromhex(st["tail"])
            head = bytes.fromhex(st.pop("head"))
        except Exception:
            st, head = {"lines": 0, "bytes": 0, "tail": b""}, b""
        n_err = ef.seek(0, 2)
        ef.seek(0)
        err = ef.read(1 << 20)
        if n_err > (2 << 20):       # `verify` names every missing file: keep both ends, the `error:` line comes last
            ef.seek(n_err - (1 << 20))
            err += b"\n[...]\n" + ef.read()
        else:
            err += ef.read()
        if timed_out:
            return 124, head, err + b"[timeout]", st
        return p.returncode, head, err, st


def run_real(ctx, tmp, data, cmd, via_stdin, timeout=120, stats=None):
    """the real binary on one input; with `stats` (a dict) standard output is counted instead of kept"""
    d = tempfile.mkdtemp(dir=tmp)
    try:
        if cmd == "stats" or not via_stdin:
            with open(os.path.join(d, "t.torrent"), "wb") as f:
                f.write(data)
        if cmd == "stats":
            # what else lies in the directory `stats` walks is local input too: names that are not UTF-8 (also after the last
            # dot), look-alike extensions, a directory and a dangling link named like a torrent (added after seeded change C08-8)
            for nm in (b"r\xe9sum\xe9.caf\xe9", b"backup.torrent\xe9", b"UPPER.TORRENT", b"noext", b".torrent", b"x.torrent.bak", b"\xff\xfe.torrent"):
                with open(os.path.join(os.fsencode(d), nm), "wb") as f:
                    f.write(data[: len(data) // 2])
            os.makedirs(os.path.join(d, "dir.torrent"), exist_ok=True)
            os.symlink("nowhere", os.path.join(d, "dangling.torrent"))
        target = "-" if (via_stdin and cmd != "stats") else "t.torrent"
        # the logger is part of the process: with RUST_LOG=trace every log statement's arguments are evaluated (added after
        # seeded change C08-7, a trace! line dividing by the piece length); chosen from the input so that a case replays
        env = {"NO_COLOR": "1"}
        if zlib.crc32(data) % 3 == 0:
            env["RUST_LOG"] = "trace"
        if stats is not None:
            rc, out, err, st = run_counting([ctx.bins["imdl"]] + argv_for(cmd, target)[1:], d, data if target == "-" else b"", env, timeout)
            stats.update(st)
            return rc, out, err
        rc, out, err = ctx.imdl(argv_for(cmd, target)[1:], cwd=d, stdin=data if target == "-" else b"", env=env, timeout=timeout)
        return rc, out, err
    finally:
        shutil.rmtree(d, ignore_errors=True)


# ------------------------------------------------------------------ the file tree of the terminal layout (oracle side)

def tree_oracle(data):
    """The lines of the file tree `torrent show` draws in terminal layout for a multi-file torrent, from an independent
    reading of the file: the paths in the derived order of FilePath (component lists compared as byte strings), a child
    per distinct next component in order of first appearance, drawn by recursion on the tree exactly as the code before
    the repair of deep-path-terminal drew it (root; then per child the connectors of its ancestors and its own).
    None when the torrent is not a plain multi-file torrent or a name would break a line."""
    try:
        v, end = lib.bdecode_strict(data)
        if end != len(data):
            return None
        info = lib.dget(v, "info")
        if info is None or lib.dget(info, "length") is not None:
            return None
        files, root = lib.dget(info, "files"), lib.dget(info, "name")
        if not isinstance(files, list) or not isinstance(root, bytes):
            return None
        plist = []
        for f in files:
            q = lib.dget(f, "path") if isinstance(f, tuple) else None
            if not isinstance(q, list) or not all(isinstance(c, bytes) for c in q):
                return None
            plist.append(q)
    except Exception:
        return None
    if any(b"\n" in c for q in plist for c in q) or b"\n" in root:
        return None
    if any(len(q) > 5000 for q in plist):
        return None     # drawn by recursion here: the very deep trees are judged by their line count (big_corpus)
    plist.sort()
    tree = [root, []]

    def insert(node, q):
        if not q:
            return
        for child in node[1]:
            if child[0] == q[0]:
                return insert(child, q[1:])
        child = [q[0], []]
        insert(child, q[1:])
        node[1].append(child)

    for q in plist:
        insert(tree, q)
    lines = [root]
    corner, tee, blank, bar = ("\u2514\u2500".encode(), "\u251c\u2500".encode(), b"  ", "\u2502 ".encode())

    def draw(node, anc):
        # anc: what the lines of this node's children start with (two columns per ancestor below the root: blank under a
        # last child, a bar otherwise); then the connector of the child itself and its name
        for i, child in enumerate(node[1]):
            last = i == len(node[1]) - 1
            lines.append(anc + (corner if last else tee) + child[0])
            draw(child, anc + (blank if last else bar))

    draw(tree, b"")
    return lines


def tree_block(out, n):
    """the last n lines of a terminal-layout table, the label `Files` and the indentation removed; None if they are not the Files row"""
    text = ANSI.sub(b"", out)
    if not text.endswith(b"\n"):
        return None
    ls = text[:-1].split(b"\n")
    if len(ls) < n:
        return None
    ls = ls[len(ls) - n:]
    m = re.match(rb"^( *Files  )", ls[0])
    if not m:
        return None
    w = len(m.group(1))
    if any(l[:w] != b" " * w for l in ls[1:]):
        return None
    return [l[w:] for l in ls]


def ddmin(data, still_fails, budget):
    """plain delta debugging on a byte string"""
    n = 2
    while len(data) >= 2 and budget[0] > 0:
        chunk = max(1, len(data) // n)
        reduced = False
        for i in range(0, len(data), chunk):
            if budget[0] <= 0:
                break
            cand = data[:i] + data[i + chunk:]
            budget[0] -= 1
            if cand and still_fails(cand):
                data, n, reduced = cand, max(n - 1, 2), True
                break
        if not reduced:
            if chunk == 1:
                break
            n = min(len(data), n * 2)
    return data


# ------------------------------------------------------------------ model side (class expected by Model/Crash.v)

def url_positions(data):
    """strings the commands hand to the url crate, nodes they hand to the node deserialiser (own reader)"""
    urls, nodes = set(), set()
    try:
        v, _ = lib.bdecode_strict(data)
    except Exception:
        return urls, nodes
    if not (isinstance(v, tuple) and v[0] == "d"):
        return urls, nodes
    a = lib.dget(v, "announce")
    if isinstance(a, bytes):
        urls.add(a)
    al = lib.dget(v, "announce-list")
    if isinstance(al, list):
        for tier in al:
            if isinstance(tier, list):
                urls.update(x for x in tier if isinstance(x, bytes))
    info = lib.dget(v, "info")
    u = lib.dget(info, "update-url") if info is not None else None
    if isinstance(u, bytes):
        urls.add(u)
    ns = lib.dget(v, "nodes")
    if isinstance(ns, list):
        for n in ns:
            try:
                nodes.add(lib.bencode(n))
            except Exception:
                pass
    return urls, nodes


class Ext:
    """answers of the external libraries (Section variables of the model), asked through existing hooks and cached"""

    def __init__(self, ctx):
        self.ctx, self.url, self.node = ctx, {}, {}

    def fill(self, urls, nodes):
        qs = [u for u in urls if u not in self.url]
        ask = []
        for u in qs:
            try:
                u.decode("utf-8")
                ask.append(u)
            except UnicodeDecodeError:
                self.url[u] = False
        rep = self.ctx.harness(["mprint %s ~ %s ~ ~" % ("00" * 20, lib.hexs(u)) for u in ask])
        for u, r in zip(ask, rep):
            self.url[u] = r.startswith("OK ")
        qn = [n for n in nodes if n not in self.node]
        rep = self.ctx.harness(["hpunben %s" % lib.hexs(n) for n in qn])
        for n, r in zip(qn, rep):
            self.node[n] = r.startswith("OK ")


MODEL_CMD = {"show": "show", "showjson": "show", "showterm": "show", "link": "link", "verify": "verify", "dump": "dump", "stats": "stats"}


def model_lines(cases, ext):
    """one model request per (case, command)"""
    lines, index = [], []
    for ci, (label, data) in enumerate(cases):
        urls, nodes = url_positions(data)
        okurls = [u for u in urls if ext.url.get(u)]
        oknodes = [n for n in nodes if ext.node.get(n)]
        for cmd in ("show", "link", "verify", "dump", "stats"):
            lines.append("crash %s %s %s %s" % (cmd, lib.hexs(data), lib.hexlist(okurls), lib.hexlist(oknodes)))
            index.append((ci, cmd))
    return lines, index


# ------------------------------------------------------------------ argument fuzzing

def arg_strings(r, n):
    seeds = {
        "magnet": ["magnet:?xt=urn:btih:" + "ab" * 20, "magnet:?xt=urn:btih:" + "ab" * 20 + "&dn=n&tr=http://t.example/a&x.pe=1.2.3.4:5",
                   "magnet:?xt=urn:btih:abc", "magnet:?xt=urn:btih:" + "ab" * 21, "magnet:?xt=urn:btih:" + "ab" * 40, "magnet:?xt=urn:btih:" + "ab" * 19,
                   "magnet:?xt=urn:btih:" + "ab" * 20 + "c", "magnet:?xt=urn:btih:" + "zz" * 20, "magnet:?xt=urn:btih:" + "\u00e9" * 20, "magnet:", "magnet:?", "http://x",
                   "magnet:?xt=urn:btih:" + "ab" * 20 + "&x.pe=:", "magnet:?xt=urn:btih:" + "ab" * 20 + "&x.pe=a:99999", "magnet:?xt=urn:btih:" + "%41" * 40,
                   "magnet:?xt=urn:btih:" + "ab" * 20 + "&tr=::", "magnet:?xt=urn:btih:" + "a" * 39 + "%", "magnet:?xt=urn:btih:" + "\u0131" * 40, "", "x", ":",
                   "magnet:?xt=urn:btih:" + "ab" * 20 + "&so=1,2,x", "magnet:?xt=urn:btih:" + "+" * 40, "magnet:?xt=urn:btih:" + "ab" * 19 + "\u00e9"],
        "size": ["1", "0", "16KiB", "1.5MiB", "1EiB", "16EiB", "17EiB", "9" * 400, "9" * 400 + "EiB", ".", "..", "1..2", "1.", ".5", "", "KiB", "-1", "1e3", "NaN", "inf",
                 "1 KiB", "1kib", "1\u212aiB", "0.0000000000000000001", "18446744073709551615", "18446744073709551616", "1.7976931348623157e308", "1" + "0" * 5000,
                 "0x10", "\u0661", "1b", "1byte", "1bytes", "1tib", "1pib", "1.5", "16384"],
        "hostport": ["a:1", "1.2.3.4:80", "[::1]:80", "::1:80", ":", ":1", "a:", "a:65535", "a:65536", "a:99999999999999999999", "a:-1", "a:+1", "a:1:2", "[::1:80", "a b:1",
                     "\u00e9:1", "a:\u0661", "", "a", "x" * 300 + ":1", "%41:1", "[", "xn--:1", "a:01", "a:00000000000000000001", "1.2.3:1", "0x7f.1:1", "a..b:1"],
        "sort": ["path", "size", "path:ascending", "size:descending", "path:", ":", "", "foo", "path:up", "size:ascending:x", "PATH", "path ", "::", "size:descending:",
                 "\u00e9", "path:ascending,size"],
        "glob": ["*", "**", "[", "]", "[!", "[a-", "{", "{a,b", "a{b,c{d,e}}", "\\", "a\\", "!", "!*", "**/*.txt", "[[:alpha:]]", "{" * 50, "{a," * 300, "[z-a]", "***", "a**b",
                 "", "\u00e9*", "[^", "{}", "{,}", "*" * 2000, "(", "+", "?" * 500],
        "url": ["http://a.example/", "udp://x:1", "", "::", "http://[::1", "x", "http://", "//x", "udp://x:99999", "http://a b/", "mailto:x", "x" * 70000, "https://%zz/",
                "http://[1::2::3]/", "a:b", "\u00e9://x", "http://\u00e9.example/", "http://xn--/", "file:///", "http://0x7f.1/", "http://a:b@c:1/?#"],
    }
    junk = ["", "\u0000"[:0], "\u00e9", "\U0001f4a9", "%", "%%", "\\", "'", "\"", " ", "\t", "-", "--", "=", "&", "#", "?", "/", "\u202e", "\ufeff", "0", "9" * 25, "\u0301", "e" * 100]
    out = []
    for fam, ss in seeds.items():
        for s in ss:
            out.append((fam, s))
    fams = list(seeds)
    while len(out) < n:
        fam = r.choice(fams)
        s = r.choice(seeds[fam])
        c = r.randrange(6)
        if c == 0 and s:
            j = r.randrange(len(s)); s = s[:j] + r.choice(junk) + s[j:]
        elif c == 1 and s:
            j = r.randrange(len(s)); s = s[:j] + s[j + 1:]
        elif c == 2 and s:
            j = r.randrange(len(s)); s = s[:j]
        elif c == 3:
            s = s + r.choice(junk) + r.choice(seeds[r.choice(fams)])
        elif c == 4 and s:
            j = r.randrange(len(s)); s = s[:j] + chr(r.choice([r.randrange(1, 128), r.randrange(128, 0x800), r.randrange(0x800, 0xd800), r.randrange(0x10000, 0x10ffff)])) + s[j + 1:]
        else:
            s = s * r.choice([2, 3, 50])
        if "\x00" in s:
            continue
        if fam == "magnet" and "udp" in urllib.parse.unquote(s).lower():
            continue      # a udp tracker makes from-link wait for DNS and UDP timeouts; the network is not part of this property
        out.append((fam, s))
    return out


def arg_argv(fam, s):
    """the command line that hands string s to the parser of its family"""
    if fam == "inputpath":
        return s          # already a full command line
    if fam == "magnet":
        return ["imdl", "torrent", "from-link", "--input", s]
    if fam == "size":
        return ["imdl", "torrent", "create", "--input", "f", "--output", "-", "--piece-length", s]
    if fam == "hostport":
        return ["imdl", "torrent", "create", "--input", "f", "--output", "-", "--node", s]
    if fam == "hostport-peer":
        return ["imdl", "torrent", "link", "--input", "v.torrent", "--peer", s]
    if fam == "sort":
        return ["imdl", "torrent", "create", "--input", "f", "--output", "-", "--sort-by", s]
    if fam == "glob":
        return ["imdl", "torrent", "create", "--input", "f", "--output", "-", "--glob", s]
    if fam == "url":
        return ["imdl", "torrent", "create", "--input", "f", "--output", "-", "--announce", s]
    if fam == "url-update":
        return ["imdl", "torrent", "create", "--input", "f", "--output", "-", "--update-url", s]
    raise AssertionError(fam)


# ------------------------------------------------------------------ the run

def inproc(ctx, lines):
    """run `cli` lines in 16 chunks; a chunk whose process died reports the killer as DIED and the rest is re-queued"""
    res = [None] * len(lines)
    todo = list(range(len(lines)))
    rounds = 0
    while todo and rounds < 12:
        rounds += 1
        k = max(1, min(lib.NCPU, len(todo)))
        chunks = [todo[i::k] for i in range(k)]

        def work(ch):
            return lib.run_lines(ctx.bins["harness"], [lines[i] for i in ch], nproc=1, timeout=600)
        nxt = []
        for ch, rep in zip(chunks, lib.pmap(work, chunks)):
            killed = False
            for i, r in zip(ch, rep):
                if r.startswith("DIED"):
                    if not killed:
                        res[i] = r; killed = True
                    else:
                        nxt.append(i)
                else:
                    res[i] = r
        todo = nxt
    for i in todo:
        res[i] = "DIED unresolved"
    return res


def run(ctx):
    ctx.need_coq()
    lib.log("c08: coq done at %.0fs" % (time.time() - ctx.t0))
    if not ctx.need_rust():
        return finish(ctx)
    have_model = bool(ctx.need_runner())
    lib.log("c08: builds done at %.0fs" % (time.time() - ctx.t0))
    r = ctx.rng
    tmp = tempfile.mkdtemp(prefix="c08-")
    seen_keys = {}
    bigpool = ThreadPoolExecutor(6)
    try:
        # ---------------- the very deep corpus entries start now and are collected in section B: their terminal rendering is
        # quadratic in the depth (2.5 GB and 40 GB of standard output), read and counted while the other sections run
        bigjobs = []
        for label, data, want_lines, last_name in big_corpus():
            if label == "corpus-deep-path-200000" and not ctx.thorough:
                continue      # 40 GB of terminal output: thorough tier only (the 50000 witness overflowed the old code as well)
            small_one = label == "corpus-deep-path-50000"
            for cmd in (["showterm", "show", "showjson"] + (["link", "verify", "dump", "stats"] if small_one or ctx.thorough else [])):
                for via in ([False, True] if (small_one or ctx.thorough) and cmd != "stats" else [False]):
                    bigjobs.append((label, data, cmd, via, want_lines, last_name))
        bigjobs.sort(key=lambda j: (j[2] != "showterm", -len(j[1])))

        def run_big(job):
            st = {}
            rc, out, err = run_real(ctx, tmp, job[1], job[2], job[3], timeout=ctx.n(170, 900), stats=st)
            return rc, out, err, st
        bigfut = [(job, bigpool.submit(run_big, job)) for job in bigjobs]
        # ---------------- cases
        cases = list(corpus()) + [("literal", b) for b in LITERALS]
        n_in = ctx.n(5000, 60000)
        while len(cases) < n_in:
            cases.append(mutate(r, deep_ok=False))
        deep_cases = [c for c in corpus() if c[0].startswith("corpus-nest")]
        if ctx.thorough:
            deep_cases += [("deep-path-%d" % n, enc(dsort([(b"info", dsort([(b"files", [dsort([(b"length", 1), (b"path", [b"x"] * n)])]), (b"name", b"n"),
                                                                            (b"piece length", 16384), (b"pieces", b"")]))]))) for n in (200000, 1000000)]
        for _ in range(ctx.n(14, 300)):
            while True:
                c = mutate(r, deep_ok=True)
                if c[0].startswith("nest") and int(c[0][4:]) > DEEP:
                    deep_cases.append(c); break
        small = [(l, d) for l, d in cases if not (l.startswith(("corpus-nest", "corpus-deep")) or len(d) > 1500000)]

        def report(cmd, via, label, data, rc, out, err, why, argv=None, extra=None):
            key = failure_key(cmd, rc, err, label)
            ctx.count("abnormal:%s:%s" % (cmd, key))
            if (cmd, key) in seen_keys:
                seen_keys[(cmd, key)] += 1
                return
            seen_keys[(cmd, key)] = 1
            # shrink on the real binary, keeping the same failure class
            if data is not None and argv is None and len(data) <= 2000000 and not ctx.known.match(ctx.pid, key):
                budget = [ctx.n(40, 200)]

                def still(b):
                    rc2, _, err2 = run_real(ctx, tmp, b, cmd, via, timeout=20, stats={})
                    return abnormal(rc2, err2) is not None and failure_key(cmd, rc2, err2, label) == key
                small_data = ddmin(data, still, budget) if len(data) > 1 else data
                rc, out, err = run_real(ctx, tmp, small_data, cmd, via, stats={})
                data = small_data
            target = "-" if (via and cmd != "stats") else "t.torrent"
            case = {"command": cmd, "argv": argv or argv_for(cmd, target), "via_stdin": bool(via), "mutation": label,
                    "input": pack(data) if data is not None else None, "input_len": len(data) if data is not None else None,
                    "rc": rc, "stderr": ANSI.sub(b"", err).decode("utf-8", "replace")[-600:], "oracle": why,
                    "reproduce": ("write the bytes of `input` to t.torrent (tools/props/c08.py unpack), then: %s%s" %
                                  (" ".join(argv or argv_for(cmd, target)), " < t.torrent" if target == "-" else ""))
                    if data is not None else "run argv (hex-encoded in argv_hex when not UTF-8) in a directory holding a 5-byte file f"}
            if extra:
                case.update(extra)
            if data is None:
                summary = "imdl %s: %s for argv %r" % (cmd, why, [a[:120] for a in (argv or [])])
            else:
                summary = "imdl %s: %s on %s input (%s, %d bytes): %r" % (cmd, why, label, "stdin" if via else "path", len(data), data[:60])
            ctx.violation("oracle-failure", summary, case, key=key)

        # ---------------- A. in-process volume over torrent bytes
        lines, meta = [], []
        for ci, (label, data) in enumerate(small):
            d = os.path.join(tmp, "c%d" % ci)
            os.mkdir(d)
            with open(os.path.join(d, "t.torrent"), "wb") as f:
                f.write(data)
            for cmd in CMDS:
                lines.append("cli %s %s - 0" % (lib.hexs(d), lib.hexlist(argv_for(cmd, "t.torrent"))))
                meta.append((ci, cmd, False))
            for cmd in r.sample(["show", "link", "verify", "dump"], 2):
                lines.append("cli %s %s %s 0" % (lib.hexs(d), lib.hexlist(argv_for(cmd, "-")), lib.hexs(data)))
                meta.append((ci, cmd, True))
        t0 = time.time()
        replies = inproc(ctx, lines)
        lib.log("c08: %d in-process runs over %d inputs in %.0fs" % (len(lines), len(small), time.time() - t0))
        impl_class = {}
        confirm = []
        term_out = {}
        for (ci, cmd, via), rep in zip(meta, replies):
            label, data = small[ci]
            ctx.cov["evaluations"] += 1
            ctx.count("inproc:%s" % cmd)
            f = rep.split(" ")
            if f[0] == "OK" and f[1] in ("0", "1"):
                rc = int(f[1])
                why = abnormal(rc, lib.unhex(f[3]))
                if why:
                    confirm.append((ci, cmd, via, "in-process: " + why))
                impl_class.setdefault((ci, cmd), set()).add(rc)
                if cmd == "showterm" and rc == 0 and not via:
                    term_out[ci] = lib.unhex(f[2])
                ctx.distinct((label.split("-")[0], cmd, rc))
                ctx.count("class:%s:%s" % (cmd, "ok" if rc == 0 else "err"))
            else:
                confirm.append((ci, cmd, via, "in-process " + " ".join(f[:2])))
                ctx.count("inproc-panic:%s" % cmd)
        for label, _ in small:
            ctx.count("mutation:" + (re.sub(r"\d+$", "", label) if label.startswith("nest") else label))

        # the file tree of every multi-file torrent shown in terminal layout against the recursive drawing of its path lists
        want_tree = {}
        for ci, out in sorted(term_out.items()):
            label, data = small[ci]
            want = tree_oracle(data)
            if want is None:
                continue
            want_tree[ci] = want
            ctx.cov["evaluations"] += 1
            ctx.count("tree-oracle:%s" % ("1" if len(want) == 1 else "2-9" if len(want) < 10 else "10-99" if len(want) < 100 else "100+"))
            ctx.distinct(("tree", label.split("-")[0], min(len(want), 20), max(len(l) for l in want) > 40))
            got = tree_block(out, len(want))
            if got != want:
                k = next((i for i, (a, b) in enumerate(zip(got or [], want)) if a != b), None)
                ctx.violation("oracle-failure", "imdl --terminal torrent show draws a file tree that is not the tree of the torrent's path "
                              "lists (%s input, %d lines expected, first difference at line %s: %r instead of %r)" %
                              (label, len(want), k, (got or [None] * len(want))[k] if k is not None else (None if got is None else len(got)),
                               want[k] if k is not None else len(want)),
                              {"command": "showterm", "argv": argv_for("showterm", "t.torrent"), "mutation": label, "input": pack(data), "input_len": len(data),
                               "expected_tree": [l.decode("utf-8", "replace") for l in want[:60]],
                               "stdout_tail": ANSI.sub(b"", out).decode("utf-8", "replace")[-3000:],
                               "reproduce": "write the bytes of `input` to t.torrent (tools/props/c08.py unpack), then: NO_COLOR=1 imdl --terminal torrent show --input t.torrent"},
                              key="tree-rendering")
        lib.log("c08: %d file trees compared with the oracle" % len(want_tree))

        # every in-process hit is confirmed on the real binary (bounded per command/label so the unrepaired tree stays quick)
        per = {}
        todo = []
        for ci, cmd, via, why in confirm:
            k = (cmd, re.sub(r"^nest\d+$", "nest", small[ci][0]).split("-")[0])
            per[k] = per.get(k, 0) + 1
            if per[k] <= ctx.n(3, 40):
                todo.append((ci, cmd, via, why))
        ctx.count("inproc-hits-confirmed-on-binary", len(todo))
        ctx.count("inproc-hits-not-rerun(same command and mutation kind as a confirmed one)", len(confirm) - len(todo))
        for (ci, cmd, via, why), (rc, out, err) in zip(todo, lib.pmap(lambda t: run_real(ctx, tmp, small[t[0]][1], t[1], t[2]), todo)):
            ctx.cov["evaluations"] += 1
            bad = abnormal(rc, err)
            if bad:
                report(cmd, via, small[ci][0], small[ci][1], rc, out, err, bad)
            else:
                ctx.count("inproc-hit-not-reproduced-on-binary")

        lib.log("c08: in-process hits confirmed at %.0fs" % (time.time() - ctx.t0))
        # ---------------- B. the real binary: corpus, deep nesting, a sample of the generated cases
        procs = []
        for label, data in corpus():
            for cmd in CMDS:
                procs.append((label, data, cmd, False))
            for cmd in ("show", "link", "dump", "verify"):
                procs.append((label, data, cmd, True))
        for label, data in deep_cases:
            # (the terminal layout of a path of 10^6 components would be 10^12 bytes; big_corpus() covers it up to 200000)
            for cmd in ([c for c in CMDS if c != "showterm"] if label.startswith("deep-path") else r.sample(CMDS, 3) + ["link", "dump"]):
                procs.append((label, data, cmd, r.random() < .4))
        sample = r.sample(small, min(len(small), ctx.n(160, 2500)))
        for label, data in sample:
            cmd = r.choice(CMDS)
            procs.append((label, data, cmd, r.random() < .5))
        seenp = set()
        procs = [p for p in procs if (p[0], p[1], p[2], p[3]) not in seenp and not seenp.add((p[0], p[1], p[2], p[3]))]
        for (label, data, cmd, via), (rc, out, err) in zip(procs, lib.pmap(lambda p: run_real(ctx, tmp, p[1], p[2], p[3]), procs)):
            ctx.cov["evaluations"] += 1
            ctx.count("process:%s" % cmd)
            ctx.distinct(("proc", label.split("-")[0], cmd, rc))
            bad = abnormal(rc, err)
            if bad:
                report(cmd, via, label, data, rc, out, err, bad)
            else:
                ci = next((i for i, c in enumerate(small) if c[1] is data), None)
                if ci is not None and (ci, cmd) in impl_class and rc not in impl_class[(ci, cmd)] and cmd != "stats":
                    ctx.violation("model-impl-disagreement", "run_cli hook and real binary end differently for %s on %s" % (cmd, label),
                                  {"command": cmd, "input": pack(data), "binary_rc": rc, "inproc_rc": sorted(impl_class[(ci, cmd)])})
        ctx.sample({"command": "dump", "input": "6c x 200000 65 x 200000", "note": "deep nesting runs only on the real binary"})
        for (label, data, cmd, via, want_lines, last_name), fut in bigfut:
            rc, out, err, st = fut.result()
            ctx.cov["evaluations"] += 1
            ctx.count("process:%s" % cmd)
            ctx.count("big:%s:%s:%s" % (label, cmd, "stdin" if via else "path"))
            ctx.distinct(("big", label, cmd, via, rc))
            bad = abnormal(rc, err)
            if bad:
                report(cmd, via, label, data, rc, out, err, bad)
            elif cmd == "showterm":
                lastline = st["tail"].rstrip(b"\n").split(b"\n")[-1]
                if rc != 0 or st["lines"] != want_lines or not lastline.endswith("\u2500".encode() + last_name):
                    ctx.violation("oracle-failure", "imdl --terminal torrent show on %s (%s): exit status %s, %d lines of standard output ending in %r; "
                                  "the table has %d lines (8 rows, the root and one line per node of the file tree) and ends with the "
                                  "node %r" % (label, "stdin" if via else "path", rc, st["lines"], lastline[-40:], want_lines, last_name),
                                  {"command": cmd, "argv": argv_for(cmd, "-" if via else "t.torrent"), "via_stdin": bool(via), "mutation": label,
                                   "input": pack(data), "input_len": len(data), "rc": rc, "stdout_lines": st["lines"], "stdout_bytes": st["bytes"],
                                   "expected_lines": want_lines, "reproduce": "write the bytes of `input` to t.torrent (tools/props/c08.py unpack), "
                                   "then: NO_COLOR=1 imdl --terminal torrent show --input t.torrent | wc -l"}, key="tree-rendering")
        ctx.sample({"command": "showterm", "input": "info.files[0].path = [x]*200000", "expected stdout lines": 200009,
                    "note": "40 GB of standard output, counted while it streams"})

        lib.log("c08: %d process runs done at %.0fs" % (len(procs), time.time() - ctx.t0))
        # ---------------- C. correspondence with the extracted model
        if have_model:
            ext = Ext(ctx)
            mcases = [c for c in small if len(c[1]) <= MODEL_MAX]
            ctx.count("model-skipped-too-large", len(small) - len(mcases))
            allu, alln = set(), set()
            for _, data in mcases:
                u, n = url_positions(data)
                allu |= u; alln |= n
            ext.fill(allu, alln)
            mlines, mindex = model_lines(mcases, ext)
            mrep = ctx.model(mlines)
            small_index = {id(c[1]): i for i, c in enumerate(small)}
            for (mi, cmd), rep in zip(mindex, mrep):
                label, data = mcases[mi]
                ci = small_index[id(data)]
                ctx.cov["evaluations"] += 1
                if rep == "OK panic":
                    ctx.violation("model-impl-disagreement", "the model reaches a panic primitive for %s on %s (no_panic theorem and "
                                  "extracted model disagree)" % (cmd, label), {"command": cmd, "input": pack(data), "model": rep})
                    continue
                if rep not in ("OK ok", "OK err"):
                    ctx.violation("infrastructure", "model runner: %s" % rep[:200], {"command": cmd, "input": pack(data)})
                    continue
                want = 0 if rep == "OK ok" else 1
                for icmd in ([cmd, "showjson", "showterm"] if cmd == "show" else [cmd]):
                    got = impl_class.get((ci, icmd))
                    if not got:
                        continue
                    ctx.cov["traces_validated_against_impl"] += 1
                    if cmd == "verify" and want == 0:
                        continue      # the model only decides whether verify loads the torrent; the verdict depends on the content
                    if got != {want}:
                        ctx.cov["disagreements_checked"] += 1
                        ctx.violation("model-impl-disagreement",
                                      "Crash.%s_model says %s but imdl %s exits %s on %s input %r" % (cmd, rep[3:], icmd, sorted(got), label, data[:80]),
                                      {"command": icmd, "input": pack(data), "model": rep, "impl_exit": sorted(got), "mutation": label,
                                       "note": "no abnormal end was observed for this input; the model and the code classify it differently"})
            # the model's file tree (Crash.directory_rows: sort, iterative insert, explicit-stack rendering) against the tree the
            # implementation printed and the oracle's
            tcases = [ci for ci in sorted(want_tree) if len(small[ci][1]) <= MODEL_MAX]
            tcases = sorted(r.sample(tcases, min(len(tcases), ctx.n(500, 20000))))
            tlines = []
            for ci in tcases:
                urls, nodes = url_positions(small[ci][1])
                tlines.append("tree %s %s %s" % (lib.hexs(small[ci][1]), lib.hexlist([u for u in urls if ext.url.get(u)]),
                                                 lib.hexlist([n for n in nodes if ext.node.get(n)])))
            for ci, rep in zip(tcases, ctx.model(tlines)):
                label, data = small[ci]
                ctx.cov["evaluations"] += 1
                ctx.cov["traces_validated_against_impl"] += 1
                got = tree_block(term_out[ci], len(want_tree[ci]))
                mt = None if not rep.startswith("OK ") or rep == "OK none" else lib.unhexlist(rep[3:])
                if mt != got:
                    ctx.cov["disagreements_checked"] += 1
                    ctx.violation("model-impl-disagreement", "Crash.directory_rows and imdl --terminal torrent show draw different file trees for %s input %r" %
                                  (label, data[:80]), {"command": "showterm", "input": pack(data), "mutation": label, "model": rep[:2000],
                                                       "impl_tree": None if got is None else [l.decode("utf-8", "replace") for l in got[:60]],
                                                       "oracle_agrees_with": "model" if mt == want_tree[ci] else "implementation" if got == want_tree[ci] else "neither"})
            ctx.count("model-trees-compared", len(tcases))
            # the model's UTF-8 validator against Python's (it stands for core::str::from_utf8)
            us = BADUTF8 + [b"", b"abc", "\u00e9\u20ac\U0001f4a9".encode(), b"\xf4\x8f\xbf\xbf", b"\xf0\x90\x80\x80", b"\xe0\xa0\x80", b"\xed\x9f\xbf", b"\xee\x80\x80",
                            b"\xe0\x9f\xbf", b"\xf0\x8f\xbf\xbf", b"\xc2\x80", b"\xc1\xbf", b"\xdf\xbf", b"\xef\xbf\xbf", b"\xf5\x80\x80\x80"]
            us += [bytes(r.choice([r.getrandbits(8), r.randrange(0x80, 0x100), r.randrange(0, 0x80)]) for _ in range(r.randrange(1, 6))) for _ in range(ctx.n(400, 20000))]
            for u, rep in zip(us, ctx.model(["utf8 %s" % lib.hexs(u) for u in us])):
                try:
                    u.decode("utf-8"); want = "OK 1"
                except UnicodeDecodeError:
                    want = "OK 0"
                ctx.cov["evaluations"] += 1
                if rep != want:
                    ctx.violation("assumption-broken", "Crash.utf8_ok differs from a strict UTF-8 decoder on %r" % u, {"bytes": u.hex(), "model": rep, "python": want})

        lib.log("c08: model correspondence done at %.0fs" % (time.time() - ctx.t0))
        # ---------------- D. argument strings
        adir = os.path.join(tmp, "args")
        os.mkdir(adir)
        with open(os.path.join(adir, "f"), "wb") as f:
            f.write(b"hello")
        with open(os.path.join(adir, "v.torrent"), "wb") as f:
            f.write(corpus()[-1][1])
        args = arg_strings(r, ctx.n(1500, 20000))
        extra = [("hostport-peer", s) for fam, s in args if fam == "hostport"][:ctx.n(60, 2000)] + \
                [("url-update", s) for fam, s in args if fam == "url"][:ctx.n(40, 2000)]
        args = args + extra
        # input targets that cannot be read: missing, a directory, a file used as a directory, a name too long, /dev/null
        for target in ["nonexistent.torrent", ".", "/", "f/x", "/dev/null", "n" * 300, "\u00e9", "..", "v.torrent/", "-"]:
            for cmd in CMDS:
                av = argv_for(cmd, target)
                if cmd == "stats":
                    av = av[:-1] + [target]
                args.append(("inputpath", av))
        alines = ["cli %s %s - 0" % (lib.hexs(adir), lib.hexlist(arg_argv(fam, s))) for fam, s in args]
        hook = {"magnet": "mparse", "size": "bparse", "hostport": "hpparse"}
        hl = [(fam, s) for fam, s in args if fam in hook]
        hlines = ["%s %s" % (hook[fam], lib.hexs(s)) for fam, s in hl]
        areps = inproc(ctx, alines)
        hreps = ctx.harness(hlines)
        aconfirm = []
        for (fam, s), rep in zip(args, areps):
            ctx.cov["evaluations"] += 1
            ctx.count("arg:%s" % fam)
            f = rep.split(" ")
            if f[0] == "OK" and f[1] in ("0", "1"):
                why = abnormal(int(f[1]), lib.unhex(f[3]))
                ctx.distinct(("arg", fam, f[1], len(s) > 100 if isinstance(s, str) else s[2]))
                ctx.count("argclass:%s:%s" % (fam, "ok" if f[1] == "0" else "err"))
                if why:
                    aconfirm.append((fam, s, "in-process: " + why))
            else:
                aconfirm.append((fam, s, "in-process " + " ".join(f[:2])))
        for (fam, s), rep in zip(hl, hreps):
            ctx.cov["evaluations"] += 1
            if not (rep.startswith("OK") or rep.startswith("ERR")):
                aconfirm.append((fam, s, "parser hook " + rep[:40]))
        # real binary: every in-process hit, a sample of all argument strings, and non-UTF-8 argv (cannot be given in-process)
        aprocs = [(fam, arg_argv(fam, s), why) for fam, s, why in aconfirm[:ctx.n(30, 400)] if fam == "inputpath" or len(s.encode()) < 100000]
        for fam, s in r.sample(args, min(len(args), ctx.n(120, 1500))):
            if fam != "inputpath" and len(s.encode()) < 100000:
                aprocs.append((fam, arg_argv(fam, s), None))
        aprocs += [(fam, s, None) for fam, s in args if fam == "inputpath"]
        raw = [b"\xff", b"a\xffb", b"\xc0\xaf", b"magnet:?xt=urn:btih:" + b"ab" * 20 + b"&dn=\xff", b"\xed\xa0\x80", b"1\xffKiB", b"a\xff:1", b"path\xff", b"*\xff"]
        for fam in ("magnet", "size", "hostport", "hostport-peer", "sort", "glob", "url", "url-update"):
            for b in r.sample(raw, ctx.n(2, 9)):
                argv = [x.encode() if isinstance(x, str) else x for x in arg_argv(fam, "@")]
                argv = [b if x == b"@" else x for x in argv]
                aprocs.append((fam + "-nonutf8", argv, None))
        aprocs.append(("path-nonutf8", [b"imdl", b"torrent", b"show", b"--input", b"\xff.torrent"], None))

        def run_arg(p):
            return lib.run_cmd([ctx.bins["imdl"]] + list(p[1][1:]), cwd=adir, env={"NO_COLOR": "1"}, timeout=120)
        for (fam, argv, why0), (rc, out, err) in zip(aprocs, lib.pmap(run_arg, aprocs)):
            ctx.cov["evaluations"] += 1
            ctx.count("process-arg:%s" % fam)
            ctx.distinct(("procarg", fam, rc))
            bad = abnormal(rc, err)
            if bad:
                av = [a if isinstance(a, str) else a.decode("utf-8", "backslashreplace") for a in argv]
                report("args/" + fam, False, fam, None, rc, out, err, bad, argv=av,
                       extra={"argv_hex": [(a.encode() if isinstance(a, str) else a).hex() for a in argv]})
        ctx.sample({"argument family": "size", "examples": ["9" * 20 + "EiB", "1..2", "1\u212aiB"]})
        ctx.sample({"mutations": sorted(set(re.sub(r"^nest\d+$", "nest", l) for l, _ in small))[:40]})
        closed_stdout(ctx, tmp)
        lib.log("c08: argument runs done at %.0fs" % (time.time() - ctx.t0))
    finally:
        bigpool.shutdown(wait=True, cancel_futures=True)
        shutil.rmtree(tmp, ignore_errors=True)
    return finish(ctx)


def closed_stdout(ctx, tmp):
    """The reader of standard output has gone before imdl writes (`imdl torrent show x | head -c0`): the write fails with EPIPE,
    which is an ordinary reported failure (exit 1 with an `error:` line) - not death by SIGPIPE. (Added after seeded change
    C08-9: SIGPIPE restored to its default disposition at start-up.)"""
    import subprocess
    data = corpus()[-5][1] if len(corpus()) >= 5 else None
    valid = next((b for l, b in corpus() if l == "corpus-valid"), data)
    d = tempfile.mkdtemp(dir=tmp)
    try:
        with open(os.path.join(d, "t.torrent"), "wb") as f:
            f.write(valid)
        for cmd in ("show", "showjson", "showterm", "link", "dump"):
            for via in (False, True):
                target = "-" if via else "t.torrent"
                rfd, wfd = os.pipe()
                os.close(rfd)
                e = {"PATH": os.environ.get("PATH", ""), "RUST_BACKTRACE": "0"}
                e.update(lib.noise_env())
                try:
                    p = subprocess.run([ctx.bins["imdl"]] + argv_for(cmd, target)[1:], cwd=d, input=valid if via else b"", stdout=wfd,
                                       stderr=subprocess.PIPE, env=e, timeout=60)
                    rc, err = p.returncode, p.stderr
                except subprocess.TimeoutExpired:
                    rc, err = 124, b""
                finally:
                    os.close(wfd)
                ctx.cov["evaluations"] += 1
                ctx.count("closed_stdout_runs")
                ctx.distinct(("closed-stdout", cmd, via))
                why = abnormal(rc, err)
                if why is not None:
                    ctx.violation("oracle-failure", "imdl %s with standard output closed by its reader: %s" % (cmd, why),
                                  {"kind": "closed-stdout", "argv": argv_for(cmd, target), "via_stdin": via, "rc": rc,
                                   "stderr": err.decode("utf-8", "replace")[-300:],
                                   "reproduce": "%s %s | head -c0; echo ${PIPESTATUS[0]}" % (" ".join(argv_for(cmd, target)), "< t.torrent" if via else "")})
    finally:
        shutil.rmtree(d, ignore_errors=True)


def finish(ctx):
    ctx.assumptions += [
        "url_ok / node_ok (Section variables of Model/Crash.v) stand for the url crate's parser and the node deserialiser's host "
        "parser; the run instantiates them with the answers of the hooks magnet_print / hostport_from_bencode on the strings of each case",
        "Crash.utf8_ok is core::str::from_utf8 (compared with Python's strict decoder in every run)",
        "all runs use the debug profile (integer overflow panics); stack exhaustion, allocation failure and panics inside "
        "third-party crates are exhibited only by the fuzzing runs",
    ]
    return ctx.finish(
        rule="torrent bytes: regression corpus (witnesses of the five repaired defects) + literals + one structured mutation of a fresh "
             "valid single- or multi-file torrent per case (kinds in distribution as mutation:*), each through show, show --json, link, "
             "verify, dump, stats by path and two of them on stdin, in-process; corpus, deep nesting (5000..10^6, real binary only), the "
             "witnesses of the repaired finding deep-path-terminal (one path of 50000 and of 200000 components, 3000 files under a common "
             "prefix of 2000 components: every show layout, terminal output counted while it streams) and a sample on the real binary; "
             "the file tree of every accepted multi-file case in terminal layout against the oracle's and the model's. Argument strings: seeds per family (magnet, size, host:port, sort, glob, url) + one edit each, "
             "in-process through the full command line and the parser hooks; a sample plus non-UTF-8 argv on the real binary. A case is "
             "distinct/non-trivial by (mutation kind, command, exit status).",
        trusted_base=["Coq 8.16.1 kernel (coqc), vm_compute for the site table", "tools/rs2v_panics.py (GenPanicSites)",
                      "extraction with ExtrOcamlBasic + runner/driver.d/crash.ml", "the counting child process of run_counting (python3 -c) for "
                      "terminal renderings too large to keep", "Rust hook run_cli (+ magnet_print, hostport_from_bencode, "
                      "bytes_parse, magnet_parse, hostport_parse) + harness line protocol", "Python generators and oracle in tools/props/c08.py"],
    )


def replay(ctx, path):
    case = json.load(open(path))["case"]
    ctx.need_rust()
    print(json.dumps({k: v for k, v in case.items() if k != "input"}, indent=1)[:3000])
    tmp = tempfile.mkdtemp(prefix="c08r-")
    try:
        if case.get("input") is not None:
            data = unpack(case["input"])
            cmd = case["command"]
            st = {}
            rc, out, err = run_real(ctx, tmp, data, cmd, case.get("via_stdin"), timeout=900, stats=st)
            print("impl  : rc=%s stdout=%d lines, %d bytes stderr=%r" % (rc, st.get("lines", 0), st.get("bytes", 0), err[-300:]))
            if case.get("expected_lines") is not None:
                print("oracle: %d lines expected" % case["expected_lines"])
            want = tree_oracle(data) if len(data) <= 2000000 else None
            if want is not None and cmd == "showterm" and rc == 0 and st.get("bytes", 0) <= 65536:
                print("oracle: file tree %s" % ("as expected" if tree_block(out, len(want)) == want else "DIFFERS from the tree of the path lists: expected %r" % want[:40]))
            print("oracle:", abnormal(rc, err) or "normal end")
            if ctx.need_runner() and len(data) <= MODEL_MAX:
                ext = Ext(ctx)
                u, n = url_positions(data)
                ext.fill(u, n)
                lines, index = model_lines([("replay", data)], ext)
                for (ci, c), rep in zip(index, ctx.model(lines)):
                    if c == MODEL_CMD.get(cmd, cmd):
                        print("model :", rep)
        elif case.get("argv_hex"):
            argv = [bytes.fromhex(a) for a in case["argv_hex"]]
            with open(os.path.join(tmp, "f"), "wb") as f:
                f.write(b"hello")
            with open(os.path.join(tmp, "v.torrent"), "wb") as f:
                f.write(corpus()[-1][1])
            rc, out, err = lib.run_cmd([ctx.bins["imdl"]] + argv[1:], cwd=tmp, env={"NO_COLOR": "1"}, timeout=120)
            print("impl  : rc=%s stderr=%r" % (rc, err[-300:]))
            print("oracle:", abnormal(rc, err) or "normal end")
            print("model : args_model = err for a non-UTF-8 argument, else the parser's class")
    finally:
        shutil.rmtree(tmp, ignore_errors=True)
    return 0
