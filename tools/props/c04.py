"""C04 — the reported infohash is the SHA-1 of the info dictionary exactly as stored.

Obligations: coq/Properties/C04.v (strict decode => re-encoding is the consumed span; infohash = H(span)
for all inputs, depth limits and hash functions; the span is unique; exact acceptance shape; trailing
bytes and other keys irrelevant; lossy path = span on created torrents; translator facts).
Correspondence: hook `infohash_of` at volume vs extracted `Infohash.ih_from_input` + hashlib vs an
independent span finder; the real binary's `torrent show`, `show --json`, `link` on generated files
and `create --link --show` followed by show/link on what create wrote; extracted typed serialiser
`ser_info` vs the span of created files."""
import zlib
import hashlib, json, os, re, shutil, tempfile
import lib

MANIFEST = dict(
    text="Machine-checked proof over a line-by-line model of Infohash::from_input on the strict bencode model: for every input, "
         "depth limit and hash function the reported infohash is H of the unique span that follows `d <items> 4:info` and is one "
         "complete canonical dictionary (unknown keys, nested values included; trailing bytes and other keys irrelevant), and the "
         "lossy path of create agrees with it on the file create wrote; tied to the tree by the translator (lookup key, depth "
         "limit, re-encoding, schema keys) and by a hook/binary correspondence run against an independent span finder + hashlib. "
         "Right level: the property quantifies over all accepted files and a second, lossy code path that fixed vectors cannot separate.",
    ref="DESIGN.md section 5, C04",
    technique="Coq proof over a Gallina model + translator-generated tables + model/implementation correspondence run",
    note="Assumed: nothing about SHA-1 (H is universally quantified). Acceptance by the typed serde layer is not modelled (the "
         "theorem covers every input from_input accepts, a superset). Trusted: Coq kernel, tools/rs2v_infohash.py, extraction "
         "(ExtrOcamlBasic), hook infohash_of + harness, Python span finder and hashlib.")

I64_MIN, I64_MAX = -(1 << 63), (1 << 63) - 1


# ------------------------------------------------------------------ independent oracle
# A permissive, iterative bencode scanner written for this check only: it accepts every
# syntactically delimited item (leading zeros, unsorted or repeated keys, any integer text) so
# that it can still locate the stored span if imdl ever accepted such a file, and it reports
# separately whether what it read was canonical. No recursion: depth is not a concern.

class Bad(Exception):
    pass


def scan_item(b, i):
    """index just past the item that starts at i; (end, canonical?)"""
    stack = []          # per open container: ['l'] or ['d', expecting_key, last_key]
    canon = True
    n = len(b)
    while True:
        if i >= n:
            raise Bad("eof")
        c = b[i]
        if c == 0x65:  # e
            if not stack:
                raise Bad("stray e")
            top = stack.pop()
            if top[0] == "d" and not top[1]:
                raise Bad("missing value")
            i += 1
        elif c == 0x69:  # i
            j = b.find(b"e", i)
            if j < 0:
                raise Bad("eof in int")
            t = b[i + 1:j]
            if not re.fullmatch(rb"-?[0-9]+", t):
                raise Bad("int text")
            if not re.fullmatch(rb"0|-?[1-9][0-9]*", t) or not (I64_MIN <= int(t) <= I64_MAX):
                canon = False
            if stack and stack[-1][0] == "d" and stack[-1][1]:
                raise Bad("non-string key")
            i = j + 1
        elif c in (0x6c, 0x64):
            if stack and stack[-1][0] == "d" and stack[-1][1]:
                raise Bad("non-string key")
            stack.append(["l"] if c == 0x6c else ["d", True, None])
            i += 1
            continue
        elif 0x30 <= c <= 0x39:
            j = b.find(b":", i)
            if j < 0:
                raise Bad("eof in len")
            t = b[i:j]
            if not re.fullmatch(rb"[0-9]+", t):
                raise Bad("len text")
            if not re.fullmatch(rb"0|[1-9][0-9]*", t):
                canon = False
            ln = int(t)
            if j + 1 + ln > n:
                raise Bad("short string")
            s = b[j + 1:j + 1 + ln]
            i = j + 1 + ln
            if stack and stack[-1][0] == "d" and stack[-1][1]:
                if stack[-1][2] is not None and not stack[-1][2] < s:
                    canon = False
                stack[-1][2] = s
                stack[-1][1] = False
                continue
        else:
            raise Bad("token")
        # a complete value has just ended
        if not stack:
            return i, canon
        if stack[-1][0] == "d":
            stack[-1][1] = True


def oracle_span(b):
    """(span of the value stored under the first top-level key `info`, kind byte, file canonical?) or
    raises Bad. Independent statement of `the exact byte span of the info value in that file`."""
    if b[:1] != b"d":
        raise Bad("not a dict")
    end, canon = scan_item(b, 0)
    i = 1
    while b[i:i + 1] != b"e":
        j = b.index(b":", i)
        ln = int(b[i:j])
        k = b[j + 1:j + 1 + ln]
        vs = j + 1 + ln
        ve, _ = scan_item(b, vs)
        if k == b"info":
            return b[vs:ve], canon
        i = ve
    raise Bad("no info")


def oracle(b):
    """('accept', sha1 hex, span) when the file is a canonical dictionary with a dictionary under `info`;
    ('reject', reason); spans of non-canonical files are still returned for diagnosis"""
    try:
        span, canon = oracle_span(b)
    except (Bad, ValueError) as e:
        return ("reject", str(e), None)
    if span[:1] != b"d":
        return ("reject", "info not a dict", span)
    if not canon:
        return ("reject", "not canonical", span)
    return ("accept", hashlib.sha1(span).hexdigest(), span)


# ------------------------------------------------------------------ generator

def enc(v):
    if isinstance(v, bool):
        v = int(v)
    if isinstance(v, int):
        return b"i%de" % v
    if isinstance(v, str):
        v = v.encode()
    if isinstance(v, bytes):
        return b"%d:%s" % (len(v), v)
    if isinstance(v, list):
        return b"l" + b"".join(enc(x) for x in v) + b"e"
    if isinstance(v, dict):
        return b"d" + b"".join(enc(k) + enc(v[k]) for k in sorted(v)) + b"e"
    if isinstance(v, Raw):
        return v.b
    raise TypeError(v)


class Raw:
    """pre-encoded text (very deep nesting without Python recursion)"""
    def __init__(self, b):
        self.b = b


AROUND = [b"", b"inf", b"info\x00", b"infp", b"infn", b"in", b"info ", b"INFO", b"nam", b"name\x00", b"namf",
          b"piece", b"piece length\x00", b"piece lengti", b"pieces\x00", b"piecer", b"lengti", b"length0", b"files\x00",
          b"filf", b"private0", b"sourcd", b"zzz", b"a", b"0", b"~", b"x-custom", b"meta version", b"file tree",
          b"announce-lisu", b"url-list", b"httpseeds", b"profiles", b"publisher", b"similar", b"collections"]
NONUTF = [b"\xff", b"\xff\xfe", b"\x80info", b"info\xff", b"\xc3", b"pieces\xfe", b"\x00\xff", b"na\xffme"]


def rbytes(r, n):
    return bytes(r.getrandbits(8) for _ in range(n))


def gen_value(r, depth):
    k = r.random()
    if depth <= 0 or k < 0.30:
        c = r.random()
        if c < 0.15:
            return r.choice([0, 1, -1, I64_MAX, I64_MIN, I64_MAX - 1, I64_MIN + 1, 10, -10, 1 << 32, 255])
        return r.randrange(-1000, 1000) if c < 0.5 else r.getrandbits(r.randrange(1, 63)) * r.choice([1, -1])
    if k < 0.60:
        c = r.random()
        if c < 0.2:
            return b""
        if c < 0.5:
            return rbytes(r, r.randrange(1, 24))          # mostly non-UTF-8
        if c < 0.6:
            # text that looks like the thing a naive scanner would search for
            return r.choice([b"4:infod1:ai1ee", b"d4:infodee", b"4:info", b"e4:infod4:name1:xee", b"i0e", b"le"])
        return bytes(r.choice(b"abcdefghijklmnopqrstuvwxyz :/.-_0123456789") for _ in range(r.randrange(1, 30)))
    if k < 0.80:
        return [gen_value(r, depth - 1) for _ in range(r.randrange(0, 4))]
    d = {}
    for _ in range(r.randrange(0, 4)):
        d[gen_key(r, 0.15)] = gen_value(r, depth - 1)
    if r.random() < 0.2:
        d[b"info"] = {b"name": b"decoy", b"x": gen_value(r, 1)}
    return d


def gen_key(r, p_nonutf):
    c = r.random()
    if c < p_nonutf:
        return r.choice(NONUTF) if r.random() < 0.6 else rbytes(r, r.randrange(1, 6))
    if c < 0.6:
        return r.choice(AROUND)
    return bytes(r.choice(b"abcdefghijklmnopqrstuvwxyz -_") for _ in range(r.randrange(1, 12)))


def deep(r, n):
    """n nested containers, as pre-encoded text"""
    kinds = [r.choice("ld") for _ in range(n)]
    pre = b"".join(b"l" if k == "l" else b"d1:k" for k in kinds)
    post = b"e" * n
    return Raw(pre + r.choice([b"i7e", b"0:", b"le"]) + post)


KNOWN_INFO = {b"name", b"piece length", b"pieces", b"length", b"files", b"md5sum", b"private", b"source", b"update-url"}
KNOWN_TOP = {b"announce", b"announce-list", b"comment", b"created by", b"creation date", b"encoding", b"info", b"nodes"}


def gen_torrent(r):
    """a typed-valid metainfo (as a dict) + feature tags; unknown keys per the tags"""
    tags = []
    info = {b"name": r.choice([b"foo", b"a b", "ünï".encode(), b"x" * r.randrange(1, 40), b"info", b"4:info"]),
            b"piece length": r.choice([16384, 1, 32768, 1 << 20, 1 << 31, 12345]),
            b"pieces": rbytes(r, 20 * r.randrange(0, 4))}
    if r.random() < 0.55:
        info[b"length"] = r.choice([0, 1, 5, 1 << 33, r.getrandbits(40)])
        if r.random() < 0.3:
            info[b"md5sum"] = "".join(r.choice("0123456789abcdef") for _ in range(32)).encode(); tags.append("md5sum")
        tags.append("single")
    else:
        files = []
        for _ in range(r.randrange(0, 4)):
            f = {b"length": r.choice([0, 3, r.getrandbits(30)]),
                 b"path": [r.choice([b"a", b"dir", b"b.txt", "é".encode()]) for _ in range(r.randrange(1, 3))]}
            if r.random() < 0.3:
                f[b"md5sum"] = "".join(r.choice("0123456789abcdef") for _ in range(32)).encode()
            if r.random() < 0.3:
                f[gen_key(r, 0.0)] = gen_value(r, 2); tags.append("unknown-in-file")
            files.append(f)
        info[b"files"] = files
        tags.append("multi")
    if r.random() < 0.3:
        info[b"private"] = r.choice([0, 1]); tags.append("private")
    if r.random() < 0.3:
        info[b"source"] = r.choice([b"SRC", b"", "ß".encode()]); tags.append("source")
    if r.random() < 0.2:
        info[b"update-url"] = r.choice([b"http://example.com/u", b"https://a.b/c?d=e"]); tags.append("update-url")
    top = {b"info": info}
    if r.random() < 0.6:
        top[b"announce"] = r.choice([b"http://t.example/announce", b"udp://tracker:6969", b"https://x.y/z"]); tags.append("announce")
    if r.random() < 0.3:
        top[b"announce-list"] = [[b"http://t.example/announce", b"udp://b:1"], [b"http://c/d"]][:r.randrange(1, 3)]
        tags.append("announce-list")
    if r.random() < 0.3:
        top[b"comment"] = r.choice([b"hello", b"", "çomment".encode()]); tags.append("comment")
    if r.random() < 0.3:
        top[b"created by"] = b"imdl/0.1.14"; tags.append("created-by")
    if r.random() < 0.3:
        top[b"creation date"] = r.choice([0, 1, 1600000000, r.getrandbits(32)]); tags.append("creation-date")
    if r.random() < 0.15:
        top[b"encoding"] = b"UTF-8"; tags.append("encoding")
    if r.random() < 0.15:
        top[b"nodes"] = [[b"router.example.com", 6881], [b"1.2.3.4", 1]][:r.randrange(1, 3)]; tags.append("nodes")
    # unknown keys
    u = r.random()
    n_in = 0 if u < 0.15 else r.randrange(1, 4)
    n_top = r.randrange(0, 3)
    p_nonutf = 0.10
    for _ in range(n_in):
        k = gen_key(r, p_nonutf)
        if k in KNOWN_INFO:
            continue
        info[k] = gen_value(r, r.choice([0, 1, 2, 3, 5]))
        tags.append("unknown-in-info" + ("-nonutf8key" if not is_utf8(k) else ""))
    # key names that mean something at ANOTHER level: `info` (and top-level names) inside the info dictionary, info-level names
    # at the top (added after seeded change C04-12: a helper that looked for an `info` entry once more, inside info)
    if r.random() < 0.15:
        k = r.choice([b"info", b"info", b"announce", b"creation date", b"comment"])
        info[k] = r.choice([{b"name": b"decoy"}, 7, b"decoy", gen_value(r, 2)])
        tags.append("level-crossing-key-in-info")
    if r.random() < 0.10:
        k = r.choice([b"name", b"pieces", b"piece length", b"length", b"files", b"private"])
        top[k] = r.choice([b"decoy", 1, gen_value(r, 2)])
        tags.append("level-crossing-key-at-top")
    for _ in range(n_top):
        k = gen_key(r, p_nonutf)
        if k in KNOWN_TOP:
            continue
        top[k] = gen_value(r, r.choice([0, 1, 2, 3, 5]))
        tags.append("unknown-top-" + ("before" if k < b"info" else "after") + ("-nonutf8key" if not is_utf8(k) else ""))
    if r.random() < 0.06:
        n = r.choice([30, 100, 300, 1000])
        (info if r.random() < 0.7 else top)[r.choice([b"deep", b"zdeep", b"a-deep"])] = deep(r, n)
        tags.append("deep-%d" % n)
    trailing = b""
    if r.random() < 0.35:
        trailing = r.choice([b"\n", b"e", b"XYZ", b"4:infod1:ai1ee", b"d4:infod4:name1:xee", b"\x00", rbytes(r, r.randrange(1, 20)),
                             b"i1e", b"0:"])
        tags.append("trailing")
    return top, trailing, tags


def is_utf8(b):
    try:
        b.decode()
        return True
    except UnicodeDecodeError:
        return False


def hand_cases():
    """regression corpus: hand-written edge cases, run before any generated case"""
    pieces = b"\x07" * 20
    base = {b"name": b"foo", b"piece length": 16384, b"pieces": pieces, b"length": 5}
    out = []
    def ext(d, more):
        d = dict(d); d.update(more); return d
    def add(name, top, trailing=b""):
        out.append((name, enc(top) + trailing))
    add("plain", {b"info": base})
    add("unknown-int-in-info", {b"info": ext(base, {b"x": 1})})
    add("unknown-nonutf8-value", {b"info": ext(base, {b"x": b"\xff\xfe"})})
    add("unknown-nested", {b"info": ext(base, {b"file tree": {b"a": {b"": {b"length": 5, b"pieces root": b"\x01" * 32}}}, b"meta version": 2})})
    add("unknown-edges", {b"info": ext(base, {b"max": I64_MAX, b"min": I64_MIN, b"z": [[], {}, b"", 0]})})
    add("unknown-around-info", {b"inf": 1, b"info": base, b"info\x00": {b"info": {b"name": b"decoy"}}, b"infp": [b"4:info"]})
    add("info-key-inside-info-dict", {b"info": ext(base, {b"info": {b"name": b"decoy"}})})
    add("info-key-inside-info-int", {b"info": ext(base, {b"info": 7})})
    add("info-key-inside-info-bytes", {b"info": ext(base, {b"info": b"d4:name5:decoye"})})
    add("info-key-inside-info-twice", {b"info": ext(base, {b"info": {b"info": {b"name": b"decoy"}}})})
    add("decoy-before", {b"a": {b"info": {b"name": b"decoy"}}, b"b": b"4:infod4:name5:decoye", b"info": base})
    add("trailing-junk", {b"info": base}, b"4:infod4:name5:decoyee")
    add("trailing-newline", {b"announce": b"http://t/a", b"info": base}, b"\n")
    add("nonutf8-key-in-info", {b"info": ext(base, {b"\xff": -5})})
    add("nonutf8-key-top", {b"\xff": 1, b"info": base})
    add("empty-key", {b"": b"e", b"info": ext(base, {b"": [1]})})
    add("multi-unknown-in-files", {b"info": {b"name": b"foo", b"piece length": 16384, b"pieces": pieces,
                                             b"files": [{b"length": 5, b"path": [b"a"], b"attr": b"x", b"sha1": b"\x00" * 20}]}})
    add("int-too-big", {b"info": ext(base, {b"x": Raw(b"i9223372036854775808e")})})
    # integers between 2^63 and 2^64 in fields the typed loader reads as u64, together with a key it does not model: the
    # generic reader (i64) refuses these files, so no command may accept them on the strength of the typed reading alone
    # (added after seeded change C04-6: `link` falling back to the hash of the re-serialised struct)
    for nm, v in (("2^63", b"i9223372036854775808e"), ("2^64-1", b"i18446744073709551615e")):
        add("u64-creation-date-%s-unknown-key" % nm, {b"creation date": Raw(v), b"info": ext(base, {b"x": 1})})
        add("u64-creation-date-%s" % nm, {b"creation date": Raw(v), b"info": base})
        add("u64-piece-length-%s-unknown-key" % nm, {b"info": ext(base, {b"piece length": Raw(v), b"x": b"y"})})
        add("u64-length-%s-unknown-key" % nm, {b"info": ext(base, {b"length": Raw(v), b"x": [1]})})
    add("int-too-small", {b"info": ext(base, {b"x": Raw(b"i-9223372036854775809e")})})
    for n in (2046, 2047, 2048, 2049):
        add("deep-%d" % n, {b"info": ext(base, {b"deep": Raw(b"l" * n + b"e" * n)})})
    for n in (2047, 2048):
        add("deep-top-%d" % n, {b"info": base, b"zdeep": Raw(b"d1:k" * n + b"0:" + b"e" * n)})
    out.append(("info-not-dict", b"d4:infoi1ee"))
    out.append(("info-list", b"d4:infolee"))
    out.append(("info-missing", b"d1:ai1ee"))
    out.append(("top-list", b"l4:infodee"))
    out.append(("empty", b""))
    out.append(("just-e", b"e"))
    out.append(("info-empty-dict", b"d4:infodee"))
    out.append(("neg-zero", b"d4:infod1:xi-0eee"))
    out.append(("lead-zero", b"d4:infod1:xi03eee"))
    out.append(("unsorted", b"d4:infod1:bi1e1:ai2eee"))
    out.append(("duplicate", b"d4:infod1:ai1e1:ai2eee"))
    out.append(("len-lead-zero", b"d4:infod01:ai1eee"))
    out.append(("two-infos", b"d4:infod1:ai1ee4:infod1:ai2eee"))
    out.append(("truncated", enc({b"info": base})[:-1]))
    return out


def mutate(r, good):
    """malformed stream: one tokenizer-/structure-level defect planted in a valid file"""
    kind = r.choice(["truncate", "flip", "neg-zero", "lead-zero", "swap-keys", "dup-key", "extra-e", "drop-e", "len-long",
                     "int-key", "toplevel", "info-scalar", "no-info", "big-int", "len-zero-pad", "empty-int", "plus-int", "delete"])
    b = good
    if kind == "truncate":
        b = good[:r.randrange(0, len(good))]
    elif kind == "flip":
        i = r.randrange(len(good)); b = good[:i] + bytes([good[i] ^ (1 << r.randrange(8))]) + good[i + 1:]
    elif kind == "delete":
        i = r.randrange(len(good)); b = good[:i] + good[i + 1:]
    elif kind in ("neg-zero", "lead-zero", "big-int", "empty-int", "plus-int"):
        t = {"neg-zero": b"i-0e", "lead-zero": r.choice([b"i03e", b"i00e", b"i-01e"]), "empty-int": r.choice([b"ie", b"i-e"]),
             "plus-int": b"i+5e", "big-int": r.choice([b"i9223372036854775808e", b"i-9223372036854775809e", b"i99999999999999999999999e"])}[kind]
        b = plant(r, good, b"1:~" + t)
    elif kind == "swap-keys":
        b = plant(r, good, b"1:~i1e1:}i2e")
    elif kind == "dup-key":
        b = plant(r, good, b"1:~i1e1:~i2e")
    elif kind == "int-key":
        b = plant(r, good, b"i1ei2e")
    elif kind == "len-zero-pad":
        b = plant(r, good, b"02:~~i1e")
    elif kind == "len-long":
        b = plant(r, good, b"1:~%d:abc" % (len(good) + r.randrange(1, 50)))
    elif kind == "extra-e":
        i = r.randrange(1, len(good)); b = good[:i] + b"e" + good[i:]
    elif kind == "drop-e":
        idx = [i for i, c in enumerate(good) if c == 0x65]
        i = r.choice(idx); b = good[:i] + good[i + 1:]
    elif kind == "toplevel":
        b = r.choice([b"l" + good + b"e", b"i5e", b"%d:%s" % (len(good), good), b"le", b"0:"])
    elif kind == "info-scalar":
        b = enc({b"announce": b"http://t/a", b"info": r.choice([1, b"x", [], [{}], b""])})
    elif kind == "no-info":
        b = enc({b"announce": b"http://t/a", b"inf": {}, b"infoo": {}})
    return kind, b


def plant(r, good, item):
    """insert `item` as the last entries of the info dictionary (keys `~`/`}` sort after every generated key
    that is ASCII; sortedness of the result is whatever it is — model and oracle decide)"""
    try:
        span, _ = oracle_span(good)
    except (Bad, ValueError):
        return good + item
    at = good.index(span) + len(span) - 1
    where = r.random()
    if where < 0.7:
        return good[:at] + item + good[at:]
    end, _ = scan_item(good, 0)
    return good[:end - 1] + item + good[end - 1:]


# ------------------------------------------------------------------ observations

def show_infohashes(ctx, path, cwd):
    """run show, show --json, link on a file; returns dict name -> ('ok', hex) | ('rej', rc) | ('bad', text)"""
    res = {}
    env = {"NO_COLOR": "1", "TERM": "dumb"}
    rc, out, err = ctx.imdl(["torrent", "show", "--input", path], cwd=cwd, env=env)
    res["show"] = parse_show(rc, out)
    rc, out, err = ctx.imdl(["torrent", "show", "--json", "--input", path], cwd=cwd, env=env)
    res["show-json"] = parse_json(rc, out)
    rc, out, err = ctx.imdl(["torrent", "link", "--input", path], cwd=cwd, env=env)
    res["link"] = parse_link(rc, out)
    # the human-readable table, at terminal widths from very narrow to wide: the infohash row carries all 40 digits whatever
    # room there is (added after seeded change C04-8: rows shortened to the terminal width)
    width = (None, "20", "40", "48", "54", "55", "80", "200")[zlib.crc32(os.fsencode(cwd)) % 8]
    env2 = dict(env)
    if width is not None:
        env2["IMDL_TERM_WIDTH"] = width
    rc, out, err = ctx.imdl(["--terminal", "torrent", "show", "--input", path], cwd=cwd, env=env2)
    if rc != 0:
        res["show-terminal"] = ("rej", rc)
    else:
        m = re.search(rb"^\s*Info Hash\s+(\S+)\s*$", out, re.M)
        res["show-terminal"] = ("ok", m.group(1).decode("utf-8", "replace")) if m else ("bad", out[:300].decode("utf-8", "replace"))
    return res


def parse_show(rc, out):
    if rc != 0:
        return ("rej", rc)
    m = re.search(rb"^info hash\t([0-9a-f]{40})$", out, re.M)
    return ("ok", m.group(1).decode()) if m else ("bad", out[:300].decode("utf-8", "replace"))


def parse_json(rc, out):
    if rc != 0:
        return ("rej", rc)
    try:
        return ("ok", json.loads(out.decode())["info_hash"])
    except Exception:
        return ("bad", out[:300].decode("utf-8", "replace"))


def parse_link(rc, out):
    if rc != 0:
        return ("rej", rc)
    m = re.match(rb"magnet:\?xt=urn:btih:([0-9a-f]{40})(&|\n|$)", out)
    return ("ok", m.group(1).decode()) if m else ("bad", out[:300].decode("utf-8", "replace"))


def repro(data):
    return ("python3 -c \"import sys;sys.stdout.buffer.write(bytes.fromhex('%s'))\" > t.torrent; "
            "imdl torrent show --input t.torrent; imdl torrent show --json --input t.torrent; imdl torrent link --input t.torrent"
            % data.hex()) if len(data) < 3000 else "write the bytes of case.file (hex) to t.torrent; imdl torrent show/link --input t.torrent"


DEPTH_REJECTED = []


def judge_hook(ctx, name, data, h, m, tags):
    """one file through hook (h), model (m) and oracle. Returns True when everything is consistent."""
    ctx.cov["evaluations"] += 1
    ctx.cov["traces_validated_against_impl"] += 1
    o = oracle(data)
    case = {"name": name, "file": data, "tags": tags, "impl": h, "model": m[:200], "oracle": [o[0], o[1]],
            "reproduce": "printf 'infohash %s\\n' | $VERIF_CACHE/target/debug/imdl-verif-harness" % lib.hexs(data)
            if len(data) < 3000 else "harness line: infohash <hex of case.file>"}
    if h.startswith("OK "):
        got = h[3:]
        if o[0] == "accept" and got != o[1]:
            ctx.violation("oracle-failure", "Infohash::from_input on %s returned %s but the SHA-1 of the stored info span is %s"
                          % (name, got, o[1]), case)
            return False
        if o[0] == "reject":
            want = hashlib.sha1(o[2]).hexdigest() if o[2] is not None else None
            if want is not None and got != want:
                ctx.violation("oracle-failure", "Infohash::from_input accepted %s (%s) and returned %s, not the SHA-1 of the "
                              "stored info span %s" % (name, o[1], got, want), case)
                return False
            if not m.startswith("OK "):
                ctx.cov["disagreements_checked"] += 1
                ctx.violation("model-impl-disagreement", "from_input accepts %s, the model and the strict reader reject it (%s)"
                              % (name, o[1]), case)
                return False
        if m.startswith("OK "):
            mh = hashlib.sha1(lib.unhex(m[3:])).hexdigest()
            if mh != got:
                ctx.cov["disagreements_checked"] += 1
                ctx.violation("model-impl-disagreement", "model hashes a different span than from_input on %s" % name, case)
                return False
            if o[0] == "accept" and lib.unhex(m[3:]) != o[2]:
                ctx.cov["disagreements_checked"] += 1
                ctx.violation("model-impl-disagreement", "model span differs from the independent reader's span on %s" % name, case)
                return False
        else:
            ctx.cov["disagreements_checked"] += 1
            ctx.violation("model-impl-disagreement", "from_input accepts %s, the model answers %s" % (name, m), case)
            return False
    elif h.startswith("ERR "):
        if o[0] == "accept" and m == "ERR decode" and DEPTH_REJECTED is not None:
            DEPTH_REJECTED.append((name, data, o[2]))     # canonical, refused by both: must be the depth limit (checked in run)
        elif m.startswith("OK ") or o[0] == "accept":
            ctx.cov["disagreements_checked"] += 1
            ctx.violation("model-impl-disagreement", "from_input rejects %s (%s) but model says %s and the strict reader says %s"
                          % (name, lib.unhex(h[4:]).decode("utf-8", "replace")[:120], m[:20], o[0]), case)
            return False
    else:
        ctx.violation("oracle-failure", "Infohash::from_input did not return normally on %s: %s" % (name, h[:80]), case)
        return False
    return True


def serinfo_line(info):
    """typed fields of a decoded info dictionary -> request for the extracted serialiser, or None"""
    g = lambda k: lib.dget(info, k)
    def oh(v):
        return "~" if v is None else lib.hexs(v)
    if g("files") is not None:
        fs = []
        for f in g("files"):
            fs.append("%d/%s/%s" % (lib.dget(f, "length"), oh(lib.dget(f, "md5sum")), lib.hexlist(lib.dget(f, "path"))))
        mode = "m:" + (";".join(fs) if fs else "~")
    else:
        mode = "s:%d:%s" % (g("length"), oh(g("md5sum")))
    p = g("private")
    return "serinfo %s %d %s %s %s %s %s" % ("~" if p is None else str(p), g("piece length"), lib.hexs(g("name")), oh(g("source")),
                                             lib.hexs(g("pieces")), oh(g("update-url")), mode)


# ------------------------------------------------------------------ the run

def run(ctx):
    ctx.need_coq()
    if not ctx.need_rust() or not ctx.need_runner():
        return finish(ctx)
    r = ctx.rng
    del DEPTH_REJECTED[:]
    cases = [(n, b, ["corpus"]) for n, b in hand_cases()]
    ncorpus = len(cases)
    structured = {}
    for i in range(ctx.n(3000, 120000)):
        top, trailing, tags = gen_torrent(r)
        data = enc(top) + trailing
        structured[len(cases)] = (top, trailing)
        cases.append(("gen-%d" % i, data, tags))
    nvalid = len(cases)
    for i in range(ctx.n(1500, 50000)):
        top, trailing, tags = gen_torrent(r)
        kind, data = mutate(r, enc(top) + trailing)
        cases.append(("mal-%d-%s" % (i, kind), data, ["malformed", kind]))
    # the extracted decoder turns a length prefix into a unary nat before comparing it with what is left: never hand
    # it a file with an absurd prefix (such a file is still judged hook vs oracle)
    huge = [bool(re.search(rb"[0-9]{8,}:", b)) and oracle(b)[0] == "reject" for _, b, _ in cases]
    lines_h = ["infohash " + lib.hexs(b) for _, b, _ in cases]
    lines_m = ["ih " + lib.hexs(b) for (_, b, _), hg in zip(cases, huge) if not hg]
    impl = ctx.harness(lines_h, timeout=300)
    it = iter(ctx.model(lines_m, timeout=300))
    model = ["ERR skipped" if hg else next(it) for hg in huge]
    ctx.count("model-skipped:huge-length-prefix", sum(huge))
    accepted = []
    for idx, ((name, data, tags), h, m) in enumerate(zip(cases, impl, model)):
        for t in tags:
            ctx.count("tag:" + re.sub(r"-\d+$", "", t) if t.startswith("deep") else "tag:" + t)
        ctx.count("size:<%d" % next(s for s in (64, 256, 1024, 4096, 1 << 30) if len(data) < s))
        ctx.count("hook:" + ("accept" if h.startswith("OK ") else "reject" if h.startswith("ERR ") else h.split()[0]))
        if m.startswith("ERR "):
            ctx.count("model-reject:" + m[4:])
        ok = judge_hook(ctx, name, data, h, m, tags)
        if h.startswith("OK "):
            accepted.append(idx)
            o = oracle(data)
            ctx.distinct((o[1], len(data)))
            if o[0] == "accept" and not any(t.startswith("deep") for t in tags) and not name.startswith("deep"):
                try:
                    if lib.info_span(data) != o[2]:
                        ctx.violation("infrastructure", "the two independent span finders (lib.info_span, c04.oracle_span) differ on %s"
                                      % name, {"file": data})
                    ctx.count("oracle cross-checked with lib.info_span")
                except RecursionError:
                    ctx.count("lib.info_span too shallow for this file (cross-check skipped)")
                except (lib.BencodeError, ValueError) as e:
                    ctx.violation("infrastructure", "lib.info_span fails on %s, which c04.oracle accepts: %r" % (name, e), {"file": data})
        if not ok and idx in structured and len(ctx.violations) <= 3:
            shrink_hook(ctx, structured[idx], name)
    if impl:
        i = ncorpus + 3 if len(cases) > ncorpus + 3 else 0
        ctx.sample({"file": cases[i][1][:400], "hook": impl[i], "model_span_sha1": hashlib.sha1(lib.unhex(model[i][3:])).hexdigest()
                    if model[i].startswith("OK ") else model[i], "oracle": oracle(cases[i][1])[:2]})
        j = nvalid + 1
        ctx.sample({"malformed": cases[j][0], "file": cases[j][1][:200], "hook": impl[j][:40], "model": model[j][:40]})

    # canonical files refused by hook and model alike: only the tree's depth limit may be the reason
    if DEPTH_REJECTED:
        rep = ctx.model(["ihd ~ " + lib.hexs(b) for _, b, _ in DEPTH_REJECTED], timeout=300)
        for (n, b, span), a in zip(DEPTH_REJECTED, rep):
            ctx.count("hook+model reject a canonical file: depth limit")
            if a != "OK " + lib.hexs(span):
                ctx.cov["disagreements_checked"] += 1
                ctx.violation("model-impl-disagreement", "from_input and the model reject the canonical file %s and the depth limit "
                              "does not explain it (model without limit: %s)" % (n, a[:40]), {"name": n, "file": b})
    # model under both depth limits on the depth corpus: bendy's unbounded Value reader and the 2048 of the typed path
    dl = [(n, b) for n, b, _ in cases[:ncorpus] if n.startswith("deep")]
    rep = ctx.model(["ihd 2048 " + lib.hexs(b) for _, b in dl] + ["ihd ~ " + lib.hexs(b) for _, b in dl])
    for k, (n, b) in enumerate(dl):
        ctx.cov["evaluations"] += 1
        nest = int(n.split("-")[-1]) + (1 if "top" not in n else 0) + 1   # + info/top dictionaries around it
        want2048 = nest <= 2048
        if rep[k].startswith("OK ") != want2048 or not rep[len(dl) + k].startswith("OK "):
            ctx.violation("model-impl-disagreement", "depth accounting of the model is off on %s: limit 2048 -> %s, no limit -> %s"
                          % (n, rep[k][:12], rep[len(dl) + k][:12]), {"name": n})

    e2e(ctx, cases, impl, accepted, ncorpus, nvalid)
    large_files(ctx)
    created(ctx)
    return finish(ctx)


def shrink_hook(ctx, st, name):
    """greedy: drop unknown keys / trailing bytes while the hook still contradicts the oracle; adds a note to the last violation"""
    top, trailing = st
    def bad(t, tr):
        d = enc(t) + tr
        h = ctx.harness(["infohash " + lib.hexs(d)])[0]
        o = oracle(d)
        return h.startswith("OK ") and o[0] == "accept" and h[3:] != o[1]
    if not bad(top, trailing):
        return
    if trailing and bad(top, b""):
        trailing = b""
    budget = 40
    for holder_path in ((), (b"info",)):
        holder = top
        for p in holder_path:
            holder = holder[p]
        for k in sorted(holder):
            known = KNOWN_INFO if holder_path else KNOWN_TOP
            if k in known or budget <= 0:
                continue
            budget -= 1
            v = holder.pop(k)
            if not bad(top, trailing):
                holder[k] = v
    d = enc(top) + trailing
    v = ctx.violations[-1]
    v["case"] = dict(v["case"], shrunk_file=d, shrunk_oracle_sha1=oracle(d)[1],
                     shrunk_impl=ctx.harness(["infohash " + lib.hexs(d)])[0], reproduce=repro(d))


def large_files(ctx):
    """Torrent files of several megabytes (hundreds of thousands of pieces) with a key imdl does not model inside `info`, an
    upper-case md5sum, and trailing bytes: the size of the file must not change which bytes are hashed. Real binary and
    hashlib only - the extracted model would need minutes for 8 MB of byte lists. (Added after seeded change C04-9: inputs
    above 8 MiB hashed through the re-serialised typed struct.)"""
    sizes = [419000, 420000] + ([900000, 3400000] if ctx.thorough else [])      # pieces: just below / above 8 MiB of file, 17 MB, 65 MB
    tmp = tempfile.mkdtemp(prefix="c04L-")
    try:
        for npieces in sizes:
            pieces = bytes((i * 7 + 1) % 251 for i in range(20)) * npieces
            info = {b"name": b"large", b"piece length": 16384, b"pieces": pieces, b"length": 16384 * npieces,
                    b"md5sum": b"0123456789ABCDEF0123456789abcdef", b"x-not-modelled": [1, {b"k": b"v"}]}
            data = enc({b"announce": b"http://t.example/a", b"info": info}) + b"trailing"
            d = tempfile.mkdtemp(dir=tmp)
            with open(os.path.join(d, "t.torrent"), "wb") as f:
                f.write(data)
            res = show_infohashes(ctx, "t.torrent", d)
            shutil.rmtree(d, ignore_errors=True)
            want = hashlib.sha1(lib.info_span(data)).hexdigest()
            ctx.cov["evaluations"] += 1
            ctx.count("e2e:large-file")
            ctx.distinct(("large", npieces))
            wrong = {k: v for k, v in res.items() if v != ("ok", want)}
            if wrong:
                ctx.violation("oracle-failure",
                              "a %d-byte torrent (%d pieces, an unmodelled key in info): %s; SHA-1 of the stored info span is %s"
                              % (len(data), npieces, wrong, want),
                              {"kind": "large-file", "pieces": npieces, "file_bytes": len(data), "binary": res, "expected": want,
                               "reproduce": "python3: info = {name: large, piece length: 16384, pieces: (bytes((i*7+1)%%251 for i in range(20)))*%d, "
                                            "length: 16384*%d, md5sum: 0123456789ABCDEF0123456789abcdef, x-not-modelled: [1, {k: v}]}; "
                                            "file = bencode({announce: http://t.example/a, info: info}) + b'trailing'; imdl torrent show / link" % (npieces, npieces)})
    finally:
        shutil.rmtree(tmp, ignore_errors=True)


def e2e(ctx, cases, impl, accepted, ncorpus, nvalid):
    """the real binary on accepted files: show, show --json, link agree and equal SHA-1(span)"""
    r = ctx.rng
    pick = list(range(ncorpus))        # the whole corpus runs on the real binary, accepted by the hook or not
    rest = [i for i in accepted if ncorpus <= i < nvalid]
    r.shuffle(rest)
    pick += rest[:ctx.n(450, 12000)]
    mal = [i for i in range(nvalid, len(cases))]
    r.shuffle(mal)
    pick += mal[:ctx.n(120, 3000)]
    tmp = tempfile.mkdtemp(prefix="c04-")
    try:
        def one(i):
            d = tempfile.mkdtemp(dir=tmp)
            with open(os.path.join(d, "t.torrent"), "wb") as f:
                f.write(cases[i][1])
            res = show_infohashes(ctx, "t.torrent", d)
            shutil.rmtree(d, ignore_errors=True)
            return i, res
        n_acc = 0
        for i, res in lib.pmap(one, pick):
            name, data, tags = cases[i]
            ctx.cov["evaluations"] += 1
            ctx.cov["traces_validated_against_impl"] += 1
            o = oracle(data)
            case = {"name": name, "file": data, "tags": tags, "binary": res, "hook": impl[i][:60], "oracle": [o[0], o[1]],
                    "reproduce": repro(data)}
            oks = {k: v[1] for k, v in res.items() if v[0] == "ok"}
            for k, v in res.items():
                ctx.count("e2e:%s:%s" % (k, v[0] if v[0] != "rej" else "rej%d" % v[1]))
                if v[0] == "bad":
                    ctx.violation("oracle-failure", "`torrent %s` exited 0 on %s without a recognisable infohash" % (k, name), case)
                if v[0] == "rej" and v[1] != 1:
                    ctx.count("e2e:abnormal-exit")   # crashes are C08's subject; recorded, not judged here
            if oks:
                n_acc += 1
                ctx.distinct(("e2e", o[1], len(data)))
                if len(set(oks.values())) > 1:
                    wrong = sorted(k for k, v in oks.items() if o[0] == "accept" and v != o[1])
                    ctx.violation("oracle-failure", "commands disagree on the infohash of %s: %s; SHA-1 of the stored info span is %s "
                                  "(wrong: %s)" % (name, oks, o[1] if o[0] == "accept" else "?", ", ".join(wrong) or "?"), case)
                elif o[0] == "accept" and set(oks.values()) != {o[1]}:
                    ctx.violation("oracle-failure", "%s on %s print infohash %s; SHA-1 of the stored info span is %s"
                                  % ("/".join(sorted(oks)), name, sorted(set(oks.values()))[0], o[1]), case)
                elif o[0] != "accept":
                    want = hashlib.sha1(o[2]).hexdigest() if o[2] is not None else None
                    if want is None or set(oks.values()) != {want}:
                        ctx.violation("oracle-failure", "the binary accepts %s (%s) and prints %s, which is not the SHA-1 of the "
                                      "stored info span" % (name, o[1], sorted(set(oks.values()))), case)
                    else:
                        ctx.violation("model-impl-disagreement", "the binary accepts %s, which the strict reader rejects (%s)"
                                      % (name, o[1]), case)
                if impl[i].startswith("OK ") and set(oks.values()) != {impl[i][3:]}:
                    ctx.violation("model-impl-disagreement", "hook and binary differ on %s" % name, case)
                if len(oks) < 4:
                    ctx.count("e2e:partial-acceptance")
            if name.startswith("deep"):
                # bendy's depth accounting, observed through the typed path (limit 2048) of the real binary
                md = ctx.model(["ihd 2048 " + lib.hexs(data)])[0]
                if md.startswith("OK ") != bool(oks):
                    ctx.violation("model-impl-disagreement", "depth limit 2048: binary %s %s, model says %s"
                                  % ("accepts" if oks else "rejects", name, md[:12]), case)
            if impl[i].startswith("OK ") and not oks:
                why = [t for t in tags if "nonutf8key" in t] or [t for t in tags if t.startswith("deep")] or ["other"]
                ctx.count("e2e:typed-layer-refuses:" + re.sub(r"\d+$", "", why[0]))
            if not impl[i].startswith("OK ") and oks:
                ctx.violation("model-impl-disagreement", "binary accepts %s but the hook rejects it" % name, case)
        ctx.count("e2e:files", len(pick))
        ctx.count("e2e:accepted-by-binary", n_acc)
        if n_acc < len(pick) // 3:
            ctx.violation("infrastructure", "only %d of %d E2E files were accepted by the binary: the generator no longer produces "
                          "typed-valid metainfo" % (n_acc, len(pick)), {"accepted": n_acc, "files": len(pick)})
    finally:
        shutil.rmtree(tmp, ignore_errors=True)


def created(ctx):
    """create --link --show, then show / show --json / link on the file create wrote: five infohashes, one span"""
    r = ctx.rng
    tmp = tempfile.mkdtemp(prefix="c04c-")
    jobs = []
    new_opts = lib.unknown_options(ctx.bins["imdl"], ["torrent", "create"])
    if new_opts:
        msg = "`imdl torrent create --help` lists options this check does not know (%s); they are given in part of the create runs" % \
              ", ".join(f for f, _ in new_opts)
        ctx.notes.append(msg); print("NOTE property=C04 " + msg)
    for j in range(ctx.n(90, 2500)):
        opts = []
        if r.random() < 0.4: opts += ["--private", "--allow", "private-trackerless"]
        if r.random() < 0.4: opts += ["--source", r.choice(["SRC", "ß x"])]
        if r.random() < 0.4: opts += ["--md5"]
        if r.random() < 0.5: opts += ["--announce", "http://t.example/announce"]
        if r.random() < 0.3: opts += ["--comment", "c"]
        if r.random() < 0.3: opts += ["--no-created-by"]
        if r.random() < 0.3: opts += ["--no-creation-date"]
        if r.random() < 0.4: opts += ["--piece-length", r.choice(["16KiB", "1KiB", "64KiB"]), "--allow", "small-piece-length"]
        if r.random() < 0.3: opts += ["--name", r.choice(["n", "4:info", "naïve"])]
        if r.random() < 0.2: opts += ["--update-url", "https://example.com/u"]
        if r.random() < 0.2: opts += ["--node", "router.example.com:6881"]
        multi = r.random() < 0.6
        files = [(r.choice(["a", "b.txt", "dir/c", "dir/d e", "é"]) + str(k), rbytes(r, r.choice([0, 1, 100, 20000]))) for k in range(r.randrange(1, 4))] \
            if multi else [("single.bin", rbytes(r, r.choice([0, 1, 5, 40000])))]
        # options that decide which files are listed and in which order: the infohash create reports must be that of the
        # dictionary it wrote, whatever that order is
        if multi and r.random() < 0.6:
            if r.random() < 0.5:    # distinct sizes, so that a size order differs from the path order
                files = [(p, rbytes(r, 30 * (len(files) - k) + 7)) for k, (p, b) in enumerate(sorted(files))]
                files += [("zz-small", rbytes(r, 1)), ("aa-big", rbytes(r, 5000))]
            for _ in range(r.choice([1, 1, 2])):
                opts += ["--sort-by", r.choice(["size", "size:descending", "path:descending", "path", "size:ascending", "path:ascending"])]
        if multi and r.random() < 0.25:
            files += [(".hidden", rbytes(r, 9)), ("Thumbs.db", rbytes(r, 11)), ("dir/.h2", rbytes(r, 3))]
            if r.random() < 0.6: opts += ["--include-hidden"]
            if r.random() < 0.6: opts += ["--include-junk"]
        if multi and r.random() < 0.2:
            opts += ["--glob", r.choice(["*1", "!*0", "dir/*", "*"])]
        if r.random() < 0.15: opts += ["--peer", "peer.example.com:7"]
        for flag, val in new_opts:
            if r.random() < 0.5:
                opts += [flag] + ([val] if val is not None else [])
        jobs.append((j, opts, multi, files))

    def one(job):
        j, opts, multi, files = job
        d = tempfile.mkdtemp(dir=tmp)
        root = os.path.join(d, "content") if multi else d
        for p, b in files:
            fp = os.path.join(root, p)
            os.makedirs(os.path.dirname(fp), exist_ok=True)
            with open(fp, "wb") as f:
                f.write(b)
        inp = "content" if multi else files[0][0]
        env = {"NO_COLOR": "1", "TERM": "dumb"}
        argv = ["torrent", "create", "--input", inp, "--output", "o.torrent", "--link", "--show"] + opts
        if j % 4 == 1:
            # state left by an earlier run and by another tool: the output path already holds the torrent of the same content and
            # options, with one more key in its info dictionary (a cross-seed marker); the forced re-creation reports the
            # infohash of what is in the file AFTERWARDS (added after seeded change C04-14: an "up to date" shortcut compared
            # the typed values only, kept the file and printed the hash of the dictionary without the extra key)
            rc0, _, _ = ctx.imdl(["torrent", "create", "--input", inp, "--output", "o.torrent"] + opts, cwd=d, env=env)
            try:
                old, _ = lib.bdecode_strict(open(os.path.join(d, "o.torrent"), "rb").read())
                pairs = [(k, (("d", sorted(v[1] + [(b"x_cross_seed", b"marker")])) if k == b"info" else v)) for k, v in old[1]]
                with open(os.path.join(d, "o.torrent"), "wb") as f:
                    f.write(lib.bencode(("d", pairs)))
                argv = argv[:2] + ["--force"] + argv[2:]
            except Exception:
                pass
        rc, out, err = ctx.imdl(argv, cwd=d, env=env)
        res = {"create-rc": rc}
        data = b""
        if rc == 0:
            res["create-show"] = parse_show(0, out)
            m = re.search(rb"^magnet:\?xt=urn:btih:([0-9a-f]{40})(&|$)", out, re.M)
            res["create-link"] = ("ok", m.group(1).decode()) if m else ("bad", out[-300:].decode("utf-8", "replace"))
            data = open(os.path.join(d, "o.torrent"), "rb").read()
            res.update(show_infohashes(ctx, "o.torrent", d))
        else:
            res["stderr"] = err[-300:].decode("utf-8", "replace")
        shutil.rmtree(d, ignore_errors=True)
        res["content"] = {"root": inp, "files": [[p, b] for p, b in files] if multi else [[files[0][0], files[0][1]]]}
        return argv, data, res
    try:
        results = lib.pmap(one, jobs)
    finally:
        shutil.rmtree(tmp, ignore_errors=True)
    ser_lines, ser_idx = [], []
    for n, (argv, data, res) in enumerate(results):
        ctx.cov["evaluations"] += 1
        ctx.cov["traces_validated_against_impl"] += 1
        case = {"argv": ["imdl"] + argv, "result": res, "file": data,
                "reproduce": "in a directory holding the content: imdl %s; imdl torrent show --input o.torrent; imdl torrent link --input o.torrent"
                             % " ".join(argv)}
        if res["create-rc"] != 0:
            ctx.count("create:rejected")
            ctx.violation("infrastructure", "create was rejected for a generated content tree (rc %d): %s" % (res["create-rc"], res.get("stderr")), case)
            continue
        o = oracle(data)
        names = ["create-show", "create-link", "show", "show-json", "link", "show-terminal"]
        vals = {k: res[k] for k in names}
        ctx.count("create:" + ("multi" if b"5:files" in data else "single"))
        if o[0] != "accept":
            ctx.violation("oracle-failure", "create wrote a file the strict reader rejects (%s)" % o[1], case); continue
        bad = {k: v for k, v in vals.items() if v != ("ok", o[1])}
        ctx.distinct(("created", o[1]))
        if bad:
            ctx.violation("oracle-failure", "created torrent: %s differ from SHA-1 of the stored info span %s" % (bad, o[1]), case)
            continue
        v, _ = lib.bdecode_strict(data)
        ser_lines.append(serinfo_line(lib.dget(v, "info"))); ser_idx.append((n, o[2]))
    for (n, span), rep in zip(ser_idx, ctx.model(ser_lines)):
        ctx.cov["evaluations"] += 1
        if rep != "OK " + lib.hexs(span):
            ctx.cov["disagreements_checked"] += 1
            ctx.violation("model-impl-disagreement", "extracted ser_info differs from the info span create wrote",
                          {"argv": results[n][0], "file": results[n][1], "model": rep[:400]})
    if results:
        ctx.sample({"create argv": results[0][0], "result": results[0][2]})


def finish(ctx):
    ctx.assumptions += [
        "none about SHA-1: the theorems hold for every function H (the run hashes the model's span with hashlib)",
        "acceptance by the typed serde layer (Metainfo::from_input) is not modelled: every file show/link accept is also accepted "
        "by Infohash::from_input, which the theorems cover completely; the run records which generated files the typed layer refuses",
        "lossy_agrees_on_created assumes every u64 in the typed Info is below 2^63 (file sizes; create bounds piece length by u32) "
        "and takes the other top-level fields as canonical values",
    ]
    return ctx.finish(
        rule="files: hand-written corpus (unknown keys around info/name/pieces, decoys, +-2^63, depth 2046..2049, malformed forms), "
             "seeded typed-valid metainfo with every optional key at random, unknown keys (ints incl. i64 edges, non-UTF-8 strings and "
             "keys, lists, nested dicts, decoy `4:info` texts, deep nesting) inside/before/after info and in file entries, trailing "
             "bytes; plus a malformed stream (one planted defect each). Hook+model+oracle on all, real binary (show, show --json, link) "
             "on a sample, create --link --show on random trees. Distinct/non-trivial by (SHA-1 of the info span, file length).",
        trusted_base=["Coq 8.16.1 kernel (coqc)", "tools/rs2v_infohash.py (GenInfohash)",
                      "extraction with ExtrOcamlBasic + runner/driver.d/infohash.ml", "Rust hook infohash_of + harness line protocol",
                      "Python span finder + hashlib in tools/props/c04.py"],
    )


def replay(ctx, path):
    case = json.load(open(path))["case"]
    ctx.need_rust(); ctx.need_runner()
    if case.get("argv") and isinstance(case.get("result"), dict) and case["result"].get("content"):
        c = case["result"]["content"]
        d = tempfile.mkdtemp(prefix="c04r-")
        try:
            root = os.path.join(d, "content") if c["root"] == "content" else d
            for p, b in c["files"]:
                fp = os.path.join(root, p)
                os.makedirs(os.path.dirname(fp), exist_ok=True)
                open(fp, "wb").write(bytes.fromhex(b["hex"]) if isinstance(b, dict) else b"")
            rc, out, err = ctx.imdl(case["argv"][1:], cwd=d, env={"NO_COLOR": "1", "TERM": "dumb"})
            print("create rc:", rc)
            print("create --show:", parse_show(rc, out), " create --link:", re.findall(rb"^magnet:[^\n]*", out, re.M))
            if rc == 0:
                data = open(os.path.join(d, "o.torrent"), "rb").read()
                print("binary on o.torrent:", show_infohashes(ctx, "o.torrent", d))
                print("oracle:", oracle(data)[:2])
        finally:
            shutil.rmtree(d, ignore_errors=True)
        return 0
    f = case.get("shrunk_file") or case.get("file")
    if not f:
        print(json.dumps(case, indent=1)[:3000]); return 0
    data = bytes.fromhex(f["hex"])
    print("file  :", data[:300])
    print("impl  :", ctx.harness(["infohash " + lib.hexs(data)])[0][:200])
    m = ctx.model(["ih " + lib.hexs(data)])[0]
    print("model :", m[:60], hashlib.sha1(lib.unhex(m[3:])).hexdigest() if m.startswith("OK ") else "")
    print("oracle:", oracle(data)[:2])
    d = tempfile.mkdtemp(prefix="c04r-")
    try:
        open(os.path.join(d, "t.torrent"), "wb").write(data)
        print("binary:", show_infohashes(ctx, "t.torrent", d))
    finally:
        shutil.rmtree(d, ignore_errors=True)
    return 0
