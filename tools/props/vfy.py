"""Shared machinery of the `imdl torrent verify` checks (C03, C13): case format, sandbox
materialisation, the independent reference verifier (oracle), the model line, judging.

A case is JSON-able:
  tag     what was perturbed
  tree    {name: bytes | tree}            sandbox content (names are bytes)
  torrent bencode-able structure (dict with bytes keys, ("d", pairs) for literal dictionaries,
          list, int, bytes) or {"raw": bytes}; the token @S@ inside any byte string stands for
          the absolute path of the sandbox and is substituted when the case is run
  mode    content | base | default | stdin | stdin-content | stdin-base     which content-root rule is exercised
          (stdin*: the torrent is piped in; plain stdin: no option, the root is the name in the working directory)
  arg     value of --content / --base-directory (bytes, may contain @S@) or None
  input   path of the torrent file relative to the sandbox (also for stdin: where it is kept)
"""
import zlib
import hashlib, json, os, re, shutil, stat, sys, tempfile, threading
import lib

sys.setrecursionlimit(max(sys.getrecursionlimit(), 30000))      # torrents nested ~2050 deep are part of the stream
threading.stack_size(256 * 1024 * 1024)


def rule_of(mode):
    """which option decides the content root"""
    return {"stdin-content": "content", "stdin-base": "base"}.get(mode, mode)


def via_stdin(mode):
    return mode.startswith("stdin")

PH = b"@S@"
PHSPLIT = b"@SPLIT@"   # as a list element: the sandbox path, one directory per element, the first with its leading separator
U32 = (1 << 32) - 1


# ------------------------------------------------------------------ JSON helpers
def to_js(v):
    if isinstance(v, (bytes, bytearray)):
        return {"hex": bytes(v).hex()}
    if isinstance(v, bool) or v is None or isinstance(v, (int, str)):
        return v
    if isinstance(v, list):
        return [to_js(x) for x in v]
    if isinstance(v, tuple) and v and v[0] == "d":
        return {"pairs": [[to_js(k), to_js(x)] for k, x in v[1]]}
    if isinstance(v, dict):
        return {"dict": [[to_js(k), to_js(x)] for k, x in v.items()]}
    raise TypeError(repr(v))


def from_js(v):
    if isinstance(v, dict):
        if "hex" in v:
            return bytes.fromhex(v["hex"])
        if "pairs" in v:
            return ("d", [(from_js(k), from_js(x)) for k, x in v["pairs"]])
        if "dict" in v:
            return {from_js(k): from_js(x) for k, x in v["dict"]}
    if isinstance(v, list):
        return [from_js(x) for x in v]
    return v


def subst(v, s):
    """replace the sandbox token in every byte string"""
    if isinstance(v, (bytes, bytearray)):
        return bytes(v).replace(PH, s)
    if isinstance(v, list):
        out = []
        for x in v:
            if isinstance(x, (bytes, bytearray)) and bytes(x) == PHSPLIT:
                parts = s.strip(b"/").split(b"/")
                out += [b"/" + parts[0]] + parts[1:]
            else:
                out.append(subst(x, s))
        return out
    if isinstance(v, tuple) and v and v[0] == "d":
        return ("d", [(subst(k, s), subst(x, s)) for k, x in v[1]])
    if isinstance(v, dict):
        return {subst(k, s): subst(x, s) for k, x in v.items()}
    return v


# ------------------------------------------------------------------ trees
def tree_set(tree, comps, node):
    for c in comps[:-1]:
        tree = tree.setdefault(c, {})
    tree[comps[-1]] = node


def tree_del(tree, comps):
    for c in comps[:-1]:
        tree = tree[c]
    del tree[comps[-1]]


def materialise(tree, at):
    for name, node in tree.items():
        p = os.path.join(at, name)
        if isinstance(node, dict):
            os.makedirs(p, exist_ok=True)
            materialise(node, p)
        else:
            with open(p, "wb") as f:
                f.write(node)


def snapshot(at):
    """everything observable about the sandbox: kinds, sizes, bytes, permission bits, mtimes"""
    out = []
    for root, dirs, files in os.walk(at):
        dirs.sort()
        st = os.lstat(root)
        out.append((root, "d", stat.S_IMODE(st.st_mode), st.st_mtime_ns))
        for fn in sorted(files):
            p = os.path.join(root, fn)
            st = os.lstat(p)
            with open(p, "rb") as f:
                h = hashlib.sha256(f.read()).hexdigest()
            out.append((p, "f", stat.S_IMODE(st.st_mode), st.st_size, st.st_mtime_ns, h))
    return out


def model_tree(tree):
    if isinstance(tree, dict):
        return "D" + "".join(n.hex() + ":" + model_tree(x) for n, x in tree.items()) + "E"
    return "F" + tree.hex() + "."


def model_fs(sandbox, tree):
    """the whole filesystem as the model sees it: the sandbox tree hung under the sandbox's own
    absolute path, nothing else"""
    node = model_tree(tree)
    for c in reversed([c for c in sandbox.split(b"/") if c]):
        node = "D" + c.hex() + ":" + node + "E"
    return node


# ------------------------------------------------------------------ the independent reference verifier
def _utf8(b):
    try:
        b.decode("utf-8")
        return True
    except UnicodeDecodeError:
        return False


def _plain(c):
    return c not in (b"", b".", b"..") and b"/" not in c and b"\0" not in c


def _lex(path):
    """fold '.', '..' and empty pieces of an absolute path string without looking at the disk"""
    out = []
    for piece in path.split(b"/"):
        if piece in (b"", b"."):
            continue
        if piece == b"..":
            if out:
                out.pop()
            continue
        out.append(piece)
    return out


I64 = (-(1 << 63), (1 << 63) - 1)
MAX_DEPTH = 2048                      # bendy's documented default nesting limit


def _depth(v):
    """containers on the deepest path (an integer or string adds nothing)"""
    best, stack = 0, [(v, 0)]
    while stack:
        x, d = stack.pop()
        if isinstance(x, list):
            best = max(best, d + 1)
            stack += [(y, d + 1) for y in x]
        elif isinstance(x, tuple) and x and x[0] == "d":
            best = max(best, d + 1)
            stack += [(y, d + 1) for _, y in x[1]]
    return best


def _ints(v):
    stack = [v]
    while stack:
        x = stack.pop()
        if isinstance(x, bool):
            continue
        if isinstance(x, int):
            yield x
        elif isinstance(x, list):
            stack += x
        elif isinstance(x, tuple) and x and x[0] == "d":
            stack += [y for _, y in x[1]]


def _text(x):
    return isinstance(x, bytes) and _utf8(x)


_SCHEME = re.compile(rb"^[A-Za-z][A-Za-z0-9+.\-]*:")

TOP_KEYS = (b"announce", b"announce-list", b"comment", b"created by", b"creation date", b"encoding", b"info", b"nodes")
INFO_OWN = (b"private", b"piece length", b"name", b"source", b"pieces", b"update-url")


def typed_problem(v, info):
    """why the metainfo is not one imdl documents as loadable (BEP 3 / BEP 5 / BEP 12 / BEP 27 types of the keys
    imdl models, 64-bit integers, bounded nesting), or None. Stated independently of the Coq model; the validity of a
    host name or of an absolute URL is the url crate's business and is left open (second result)."""
    if _depth(v) > MAX_DEPTH:
        return "nested deeper than %d" % MAX_DEPTH, False
    top = v[1]
    for d, what in ((top, "top-level"), (info[1], "info")):
        for k, _ in d:
            if not _utf8(k):
                return what + " key is not UTF-8", False
    for k in (b"announce", b"comment", b"created by", b"encoding"):
        x = lib.dget(v, k.decode())
        if x is not None and not _text(x):
            return "`%s` is not text" % k.decode(), False
    al = lib.dget(v, "announce-list")
    if al is not None and not (isinstance(al, list) and all(isinstance(t, list) and all(_text(u) for u in t) for t in al)):
        return "`announce-list` is not a list of lists of text", False
    cd = lib.dget(v, "creation date")
    if cd is not None and not (isinstance(cd, int) and not isinstance(cd, bool) and 0 <= cd < 1 << 64):
        return "`creation date` is not an unsigned 64-bit integer", False
    open_ = False
    nodes = lib.dget(v, "nodes")
    if nodes is not None:
        if not isinstance(nodes, list):
            return "`nodes` is not a list", False
        for n in nodes:
            if not (isinstance(n, list) and len(n) == 2 and _text(n[0]) and isinstance(n[1], int) and 0 <= n[1] <= 65535):
                return "a node is not [host text, port 0..65535]", False
            if n[0] == b"":
                return "a node has an empty host", False
            open_ = True
    pr = lib.dget(info, "private")
    if pr is not None and not (isinstance(pr, int) and pr in (0, 1)):
        return "`private` is not 0 or 1", False
    so = lib.dget(info, "source")
    if so is not None and not _text(so):
        return "`source` is not text", False
    uu = lib.dget(info, "update-url")
    if uu is not None:
        if not _text(uu):
            return "`update-url` is not text", False
        if not _SCHEME.match(uu):
            return "`update-url` is not an absolute URL (no scheme)", False
        open_ = True
    # integers imdl does not read as u64 must fit a signed 64-bit integer
    for k, x in top:
        if k not in TOP_KEYS and any(not (I64[0] <= z <= I64[1]) for z in _ints(x)):
            return "integer outside 64 bits under `%s`" % k.decode("latin-1"), False
    for k, x in info[1]:
        if k not in INFO_OWN and any(not (I64[0] <= z <= I64[1]) for z in _ints(x)):
            return "integer outside 64 bits under info `%s`" % k.decode("latin-1"), False
    return None, open_


def ext_strings(tb):
    """texts of a torrent that the url crate gets to see: (update-url candidates, node host candidates)"""
    try:
        v, _ = lib.bdecode_strict(tb)
    except Exception:
        return [], []
    urls, hosts = [], []
    info = lib.dget(v, "info")
    if isinstance(info, tuple) and info[0] == "d":
        uu = lib.dget(info, "update-url")
        if _text(uu):
            urls.append(uu)
    nodes = lib.dget(v, "nodes")
    if isinstance(nodes, list):
        for n in nodes:
            if isinstance(n, list) and n and _text(n[0]):
                hosts.append(n[0])
    return urls, hosts


def node_host_text(h):
    """what HostPort's deserialiser hands to url::Host::parse (src/host_port.rs): the text, in brackets when it has a colon"""
    return b"[" + h + b"]" if b":" in h else h


class Ext:
    """answers of the url crate (Section variables host_disp / url_norm of the model), asked through the hooks
    host_parse (`hostparse`) and magnet_print (`mprint`, which parses a tracker as a Url) and cached"""

    def __init__(self, ctx):
        self.ctx, self.url, self.host = ctx, {}, {}

    def fill(self, urls, hosts):
        qu = [u for u in dict.fromkeys(urls) if u not in self.url]
        qh = [h for h in dict.fromkeys(hosts) if h not in self.host]
        rep = self.ctx.harness(["mprint %s ~ %s ~ ~" % ("00" * 20, lib.hexs(u)) for u in qu] +
                               ["hostparse %s" % lib.hexs(node_host_text(h)) for h in qh]) if (qu or qh) else []
        for u, r in zip(qu, rep[:len(qu)]):
            self.url[u] = r.startswith("OK ")
        for h, r in zip(qh, rep[len(qu):]):
            self.host[h] = r.startswith("OK ")


def model_lines(ctx, recs):
    """complete the model request of every record with the url crate's answers for the texts of its torrent"""
    ext = Ext(ctx)
    per = [ext_strings(rec["torrent"]) for rec in recs]
    ext.fill([u for us, _ in per for u in us], [h for _, hs in per for h in hs])
    out = []
    for rec, (us, hs) in zip(recs, per):
        ok_u = [u for u in dict.fromkeys(us) if ext.url.get(u)]
        ok_h = [h for h in dict.fromkeys(hs) if ext.host.get(h)]
        rec["ext"] = {"urls": {u.hex(): bool(ext.url.get(u)) for u in us}, "hosts": {h.hex(): bool(ext.host.get(h)) for h in hs}}
        rec["model_line"] = rec["model_line"] + " %s %s" % (lib.hexlist(ok_u), lib.hexlist(ok_h))
        rec["vload_line"] = "vload %s %s %s" % (lib.hexs(rec["torrent"]), lib.hexlist(ok_u), lib.hexlist(ok_h))
        out.append(rec["model_line"])
    return out


def loader_verdict(reply):
    """`vload` reply -> (projection accepts, typed loader accepts, extras hold) or None"""
    f = reply.split()
    return tuple(x == "1" for x in f[1:4]) if len(f) == 4 and f[0] == "OK" else None


def read_torrent(tb):
    """-> (fields, None) or (None, why): the torrent as BEP 3 describes it, read with the
    independent strict bencode reader. fields = name, p, pieces, files[(comps|None, length, md5)],
    typed = why the rest of the metainfo is not loadable (None: it is), typed_open = a host / URL is present whose
    validity only the url crate decides"""
    try:
        v, _ = lib.bdecode_strict(tb)
    except Exception as e:
        return None, "not bencode: %s" % e
    if not (isinstance(v, tuple) and v[0] == "d"):
        return None, "not a dictionary"
    info = lib.dget(v, "info")
    if not (isinstance(info, tuple) and info[0] == "d"):
        return None, "no info dictionary"
    typed, typed_open = typed_problem(v, info)
    name, p, pieces = lib.dget(info, "name"), lib.dget(info, "piece length"), lib.dget(info, "pieces")
    if not isinstance(name, bytes) or not _utf8(name):
        return None, "name missing or not UTF-8 text"
    if not isinstance(p, int) or isinstance(p, bool) or p < 0 or p >= 1 << 64:
        return None, "piece length missing or out of range"
    if not isinstance(pieces, bytes) or len(pieces) % 20:
        return None, "pieces missing or not a multiple of 20 bytes"

    def md5_of(d):
        m = lib.dget(d, "md5sum")
        if m is None:
            return None, True
        if not isinstance(m, bytes) or len(m) != 32:
            return None, False
        try:
            return bytes.fromhex(m.decode("ascii")), all(ch in b"0123456789abcdefABCDEF" for ch in m)
        except Exception:
            return None, False

    def length_of(d):
        n = lib.dget(d, "length")
        return n if isinstance(n, int) and not isinstance(n, bool) and 0 <= n < 1 << 63 else None

    files = []
    single_ok = False
    lenient = False
    if lib.dget(info, "length") is not None:
        n = length_of(info)
        m, ok = md5_of(info)
        if n is not None and ok:
            files.append((None, n, m))
            single_ok = True
    if not single_ok:
        fl = lib.dget(info, "files")
        if not isinstance(fl, list):
            return None, "neither a usable length nor a files list"
        for f in fl:
            if isinstance(f, list) and 2 <= len(f) <= 3:
                # serde's sequence form of a struct, [length, path(, md5sum)]: not BEP 3, but imdl reads it
                f = ("d", [(b"length", f[0]), (b"path", f[1])] + ([(b"md5sum", f[2])] if len(f) == 3 else []))
            if not (isinstance(f, tuple) and f[0] == "d"):
                return None, "file entry is not a dictionary"
            n = length_of(f)
            m, ok = md5_of(f)
            path = lib.dget(f, "path")
            if isinstance(path, bytes) and _utf8(path) and n is not None and ok:
                # not BEP 3 (`path` must be a list), and imdl refuses it; read leniently as a joined path so that the escape
                # judgement below still applies should an implementation ever accept this spelling
                lenient = True
                path = path.split(b"/")
            if n is None or not ok or not isinstance(path, list) or \
                    not all(isinstance(c, bytes) and _utf8(c) for c in path):
                return None, "file entry malformed"
            files.append((path, n, m))
    if typed is None and not single_ok and sum(n for _, n, _ in files) >= 1 << 64:
        typed = "the file lengths sum to 2^64 or more"
    return {"name": name, "p": p, "pieces": [pieces[i:i + 20] for i in range(0, len(pieces), 20)],
            "files": files, "single": single_ok, "lenient": lenient, "typed": typed, "typed_open": typed_open}, None


def content_root(cwd, mode, arg, input_rel, name):
    """the statement's rule, with os.path: --content, else --base-directory joined with the name,
    else the sibling of the torrent file with that name (stdin: the name itself)"""
    mode = rule_of(mode)
    if mode == "content":
        x = arg
    elif mode == "base":
        x = os.path.join(arg, name)
    elif mode == "default":
        x = os.path.join(input_rel, b"..", name)
    else:
        x = name
    return os.path.normpath(os.path.join(cwd, x))


def oracle(tb, cwd, mode, arg, input_rel):
    """What the properties demand of the exit status, decided without the model:
       expect  'success' | 'not-success' | None (the statements leave it open; reason in why)
       escape  True when a listed path, joined onto the root and folded lexically, leaves the root"""
    t, why = read_torrent(tb)
    if t is None:
        return {"wellformed": False, "why": why, "escape": False, "expect": None}
    res = {"wellformed": True, "why": "", "escape": False, "expect": None}
    if t["typed"] is not None:
        # the info fields are readable, the rest of the metainfo is not what imdl documents as loadable
        res.update(wellformed=False, typed=t["typed"], expect="not-success",
                   why="metainfo malformed outside the verified fields: " + t["typed"])
        return res
    res["typed_open"] = t["typed_open"]
    root = content_root(cwd, mode, arg, input_rel, t["name"])
    res["root"] = root
    lroot = _lex(root)
    odd = False
    fulls = []
    for comps, n, m in t["files"]:
        full = root
        for c in (comps or []):
            full = os.path.join(full, c)          # PathBuf::push semantics
            if not _plain(c):
                odd = True
        if _lex(full)[:len(lroot)] != lroot:
            res["escape"] = True
        fulls.append((full, n, m))
    if res["escape"]:
        res["expect"], res["why"] = "not-success", "a listed path leaves the content root"
        return res
    if t.get("lenient"):
        res["why"] = "a file's `path` is a byte string, not a list (not BEP 3); the statements leave the verdict open"
        return res
    if odd:
        res["why"] = "a path component is not a plain name (but the path stays inside the root)"
        return res
    if not _plain(t["name"]):
        # the statement joins the root with "the torrent's name"; a name that is not one plain file
        # name (separator, '.', '..', empty) is outside what it pins down - model and binary must
        # still agree on it
        res["why"] = "name is not a plain file name"
        return res
    if t["p"] > U32:
        res["why"] = "piece length does not fit 32 bits (imdl documents this as unsupported)"
        return res
    ok, blob = True, b""
    for full, n, m in fulls:
        try:
            st = os.stat(full)
        except (OSError, ValueError):
            ok = False
            continue
        if not stat.S_ISREG(st.st_mode):
            ok = False
            continue
        with open(full, "rb") as f:
            data = f.read()
        blob += data
        if len(data) != n or (m is not None and hashlib.md5(data).digest() != m):
            ok = False
    if t["p"] == 0:
        if blob:
            res["expect"], res["why"] = "not-success", "piece length zero: the content cannot have been hashed"
        else:
            res["why"] = "piece length zero with empty content"
        return res
    want = [hashlib.sha1(blob[i:i + t["p"]]).digest() for i in range(0, len(blob), t["p"])]
    good = ok and want == t["pieces"]
    if good and t["typed_open"]:
        res["why"] = "content matches; whether the node hosts / update-url are valid is the url crate's verdict"
        return res
    res["expect"] = "success" if good else "not-success"
    res["why"] = "files ok=%s pieces equal=%s" % (ok, want == t["pieces"])
    return res


# ------------------------------------------------------------------ running one case
def torrent_bytes(case, sandbox):
    t = case["torrent"]
    if isinstance(t, dict) and "raw" in t:
        return subst(t["raw"], sandbox)
    return lib.bencode(subst(t, sandbox))


def argv_of(case, sandbox):
    a = ["torrent", "verify", "--input", "-" if via_stdin(case["mode"]) else os.fsdecode(case["input"])]
    if rule_of(case["mode"]) == "content":
        a += ["--content", os.fsdecode(subst(case["arg"], sandbox))]
    elif rule_of(case["mode"]) == "base":
        a += ["--base-directory", os.fsdecode(subst(case["arg"], sandbox))]
    return a


def run_case(ctx, case, tmp):
    """materialise, run the real binary, judge with the oracle; returns the record (with the
    model request line still to be answered)"""
    sandbox = os.path.realpath(tempfile.mkdtemp(dir=tmp)).encode()
    tree = subst_tree(case["tree"], sandbox)
    tb = torrent_bytes(case, sandbox)
    tree_set(tree, case["input"].split(b"/"), tb)
    materialise(tree, sandbox)
    argv = argv_of(case, sandbox)
    arg = subst(case["arg"], sandbox) if case.get("arg") is not None else None
    before = snapshot(sandbox)
    orc = oracle(tb, sandbox, case["mode"], arg, case["input"])
    rc, out, err = ctx.imdl(argv, cwd=os.fsdecode(sandbox), stdin=tb if via_stdin(case["mode"]) else b"", timeout=120)
    # the verdict is the exit status, with or without the global --quiet / -q in front of the subcommand (every third case; added
    # after seeded change C03-14: the count of problems came from the routine that prints them, which returned early when
    # standard error was switched off)
    quiet = None
    if zlib.crc32(tb) % 3 == 0:
        flag = "--quiet" if zlib.crc32(tb) % 2 else "-q"
        rq, oq, eq = ctx.imdl([flag] + argv, cwd=os.fsdecode(sandbox), stdin=tb if via_stdin(case["mode"]) else b"", timeout=120)
        quiet = {"flag": flag, "rc": rq, "stderr_len": len(eq), "stdout_len": len(oq)}
    after = snapshot(sandbox)
    seed = case.get("seed", 0)
    line = "vcmd %s %s %s %s %s %s %d" % (
        model_fs(sandbox, tree), lib.hexs(sandbox),
        lib.hexs(arg) if rule_of(case["mode"]) == "content" else "~",
        lib.hexs(arg) if rule_of(case["mode"]) == "base" else "~",
        "~" if via_stdin(case["mode"]) else lib.hexs(case["input"]),
        lib.hexs(tb), seed)
    # the step line `[2/2] ... Verifying pieces from ...` is written once the metainfo has been loaded (Verify::run):
    # whether the loader accepted, observable even when the verdict is a failure either way
    return {"case": case, "sandbox": sandbox, "argv": argv, "rc": rc, "stderr": err.decode("utf-8", "replace")[-400:],
            "began": b"[2/2]" in err, "quiet": quiet,
            "stdout_len": len(out), "oracle": orc, "unchanged": before == after, "model_line": line, "torrent": tb}


def subst_tree(tree, s):
    if isinstance(tree, dict):
        return {subst(k, s): subst_tree(v, s) for k, v in tree.items()}
    return subst(tree, s)


def describe(rec, model=None):
    """replay-file form of a judged case"""
    c = rec["case"]
    return {"tag": c["tag"], "case": to_js(c), "argv": ["imdl"] + rec["argv"], "exit_status": rec["rc"],
            "stderr_tail": rec["stderr"], "oracle": {k: (v.hex() if isinstance(v, bytes) else v) for k, v in rec["oracle"].items()},
            "model": model, "sandbox_unchanged": rec["unchanged"], "torrent_bencode": rec["torrent"],
            "began_verifying": rec.get("began"), "model_loader": rec.get("model_loader"), "url_crate": rec.get("ext"),
            "reproduce": "./check %s --replay <this file>   (rebuilds the sandbox from `case`, runs `imdl %s` in it%s)"
                         % (ctx_pid(rec), " ".join(rec["argv"]), ", torrent on stdin" if via_stdin(c["mode"]) else "")}


def ctx_pid(rec):
    return rec.get("pid", "C03")


def crashed(rc):
    return rc not in (0, 1, 2)


def replay(ctx, path, pid):
    case = from_js(json.load(open(path))["case"]["case"])
    ctx.need_rust(); ctx.need_runner()
    tmp = tempfile.mkdtemp(prefix="vfy-replay-")
    try:
        rec = run_case(ctx, case, tmp)
        model = ctx.model(model_lines(ctx, [rec]))[0]
        print("url crate:", rec.get("ext"))
        print("case  :", case["tag"], "| mode", case["mode"])
        print("argv  :", "imdl " + " ".join(rec["argv"]))
        print("torrent:", rec["torrent"][:300])
        print("impl  : exit status %d  (sandbox unchanged: %s)  %s" % (rec["rc"], rec["unchanged"], rec["stderr"].strip().splitlines()[-1:] or ""))
        print("model :", model)
        print("oracle:", {k: v for k, v in rec["oracle"].items()})
    finally:
        shutil.rmtree(tmp, ignore_errors=True)
    return 0


# ------------------------------------------------------------------ building blocks for generators
def sha1s(blob, p):
    return b"".join(hashlib.sha1(blob[i:i + p]).digest() for i in range(0, len(blob), p))


def md5hex(data):
    return hashlib.md5(data).hexdigest().encode()


class World:
    """a consistent (torrent, content) pair that generators then perturb"""

    def __init__(self, name, p, files, multi, md5):
        self.name, self.p, self.multi, self.md5 = name, p, multi, md5
        self.files = files                       # [(comps, data)]
        blob = b"".join(d for _, d in files)
        self.info = {b"name": name, b"piece length": p, b"pieces": sha1s(blob, p) if p > 0 else b""}
        if multi:
            self.info[b"files"] = [self.entry(c, d) for c, d in files]
            self.content = {}
            for c, d in files:
                tree_set(self.content, list(c), d)
        else:
            self.info[b"length"] = len(files[0][1])
            if md5:
                self.info[b"md5sum"] = md5hex(files[0][1])
            self.content = files[0][1]

    def entry(self, comps, data):
        e = {b"length": len(data), b"path": list(comps)}
        if self.md5:
            e[b"md5sum"] = md5hex(data)
        return e

    def repiece(self):
        """recompute pieces over the listed files' current bytes in the content tree"""
        blob = b""
        if self.multi:
            for e in self.info[b"files"]:
                node = self.content
                try:
                    for c in e[b"path"]:
                        node = node[c]
                except (KeyError, TypeError):
                    node = b""
                blob += node if isinstance(node, bytes) else b""
        else:
            blob = self.content if isinstance(self.content, bytes) else b""
        self.info[b"pieces"] = sha1s(blob, self.info[b"piece length"]) if self.info[b"piece length"] > 0 else b""


def random_world(r, multi=None, p=None):
    if multi is None:
        multi = r.random() < 0.65
    if p is None:
        p = r.choice([1, 2, 3, 4, 5, 7, 8, 16, 64, 1000, 3000, 5000, 6000, 16384])
    n = r.randint(1, 4) if multi else 1
    sizes = []
    for _ in range(n):
        pp = min(p, 2500)
        sizes.append(r.choice([0, 1, max(pp - 1, 0), pp, pp + 1, 2 * pp, 2 * pp + 1, r.randint(0, 3 * pp + 7)]))
    if p in (3000, 5000, 6000) and r.random() < 0.6:
        sizes[r.randrange(n)] = 8192 + p + r.randint(0, p)       # short reads in mid-file through the BufReader
    names = ["f%d" % i for i in range(n)]
    r.shuffle(names)
    files = []
    for i in range(n):
        d = r.choice([[], [], [b"d1"], [b"d2"], [b"d1", b"deep"]])
        leaf = r.choice([names[i].encode(), names[i].encode() + b".bin", ("é" + names[i]).encode(), b"sp ace " + names[i].encode()])
        files.append((d + [leaf], r.randbytes(sizes[i])))
    name = r.choice([b"content", b"my torrent", "näme".encode(), b"x"])
    return World(name, p, files, multi, r.random() < 0.5)


def put_named(tree, prefix, name, node):
    """hang `node` where prefix/name lands after lexical folding; directories that the raw
    name walks through (before a '..') are created too, so that folding lexically and walking
    the disk agree"""
    at = list(prefix)
    for piece in name.split(b"/"):
        if piece in (b"", b"."):
            continue
        if piece == b"..":
            if at:
                t = tree
                for c in at:
                    t = t.setdefault(c, {})
                at.pop()
            continue
        at.append(piece)
    if not at:
        return
    if node is None:
        t = tree
        for c in at[:-1]:
            t = t.setdefault(c, {})
        return
    tree_set(tree, at, node)


def place(world, mode, r=None, where_ok=True):
    """sandbox tree + arguments so that the chosen rule leads to the content (where_ok) or so
    that the content sits where one of the *other* rules would look (not where_ok)"""
    tree = {}
    name = world.name
    if mode in ("content", "stdin-content"):
        arg = b"the content" if where_ok else b"elsewhere"
        if world.content is not None:
            tree[b"the content"] = world.content
        inp = b"t.torrent"
        if mode == "stdin-content":
            tree[b"kept"] = {}
            inp = b"kept/t.torrent"
            if not where_ok:      # ... while the content sits where a piped torrent without options would be looked up
                put_named(tree, [], name, world.content)
    elif mode in ("base", "stdin-base"):
        arg = b"bd" if where_ok else b"other"
        tree[b"bd"] = {}
        put_named(tree, [b"bd"], name, world.content)
        tree[b"other"] = {}
        inp = b"t.torrent"
        if mode == "stdin-base":
            tree[b"kept"] = {}
            inp = b"kept/t.torrent"
            if not where_ok:
                put_named(tree, [], name, world.content)
    elif mode == "default":
        arg = None
        tree[b"sub"] = {}
        if where_ok:
            put_named(tree, [b"sub"], name, world.content)
        else:
            put_named(tree, [], name, world.content)          # next to the cwd, not next to the torrent
        inp = b"sub/t.torrent"
    else:
        arg = None
        tree[b"kept"] = {}
        if where_ok:
            put_named(tree, [], name, world.content)
        else:
            put_named(tree, [b"kept"], name, world.content)
        inp = b"kept/t.torrent"
    return tree, arg, inp


def mk_case(tag, world, mode, tree, arg, inp, torrent=None):
    return {"tag": tag, "tree": tree, "torrent": torrent if torrent is not None else {b"info": world.info},
            "mode": mode, "arg": arg, "input": inp}


# ------------------------------------------------------------------ piece lengths beyond the verifier's read-buffer sizes
def big_piece_cases(ctx):
    """create, verify, change one byte, verify, undo, verify - with piece lengths above and between the sizes a read
    buffer is likely to have (1 MiB, 16 MiB) and content longer than a piece, so that one piece needs several reads.
    Oracle only (the extracted model would take minutes on 20 MB of bytes): a torrent imdl has just created verifies against
    the unmodified content, fails after a real change and verifies again after the change is undone. (Added after seeded
    changes C03-8 and C02-8: a capped read buffer with the piece boundary recomputed from the buffer length.)"""
    import random
    MiB = 1 << 20
    plan = [(3 * MiB // 2, 4 * MiB + 3, False), (MiB + 1, 3 * MiB, True), (32 * MiB, 20 * MiB + 5, False), (3 * MiB, 7 * MiB, True)]
    if ctx.thorough:
        plan += [(17 * MiB, 40 * MiB + 1, False), (2 * MiB - 1, 9 * MiB, True)]
    tmp = tempfile.mkdtemp(prefix="bigp-")
    try:
        for p, size, multi in plan:
            d = tempfile.mkdtemp(dir=tmp)
            rnd = random.Random(p * 31 + size)
            root = os.path.join(d, "in")
            if multi:
                os.makedirs(root)
                cut = size // 3 + 11
                data = rnd.randbytes(size)
                files = {"a": data[:cut], "b": data[cut:]}
                for n, b in files.items():
                    with open(os.path.join(root, n), "wb") as f:
                        f.write(b)
                target = os.path.join(root, "b")
            else:
                with open(root, "wb") as f:
                    f.write(rnd.randbytes(size))
                target = root
            argv = ["torrent", "create", "--input", "in", "--piece-length", str(p), "--allow", "uneven-piece-length"]
            rc, out, err = ctx.imdl(argv, cwd=d, timeout=300)
            steps = [("create", rc)]
            verdicts = []
            if rc == 0:
                off = (2 * size) // 3
                for what in ("unchanged", "one byte changed", "change undone"):
                    if what == "one byte changed":
                        with open(target, "r+b") as f:
                            f.seek(off % os.path.getsize(target)); old = f.read(1)
                            f.seek(off % os.path.getsize(target)); f.write(bytes([old[0] ^ 0x40]))
                    elif what == "change undone":
                        with open(target, "r+b") as f:
                            f.seek(off % os.path.getsize(target)); f.write(old)
                    r2, o2, e2 = ctx.imdl(["torrent", "verify", "--input", "in.torrent"], cwd=d, timeout=300)
                    verdicts.append((what, r2, e2.decode("utf-8", "replace")[-200:]))
            ctx.cov["evaluations"] += 1
            ctx.count("big_piece_create_verify")
            ctx.distinct(("bigpiece", p, size, multi))
            want = [0, 1, 0]
            got = [v[1] for v in verdicts]
            if rc != 0 or got != want:
                ctx.violation("oracle-failure",
                              "piece length %d, %d bytes of content (%s): create exited %d; verify exited %r for (unchanged, one byte changed, "
                              "change undone), expected [0, 1, 0]" % (p, size, "two files" if multi else "one file", rc, got),
                              {"kind": "big-piece", "piece_length": p, "content_bytes": size, "multi": multi, "create_rc": rc,
                               "create_stderr": err.decode("utf-8", "replace")[-300:], "verify": verdicts,
                               "reproduce": "head -c %d /dev/urandom > in (or in/a + in/b); imdl %s; imdl torrent verify --input in.torrent; "
                                            "change one byte; verify; undo; verify" % (size, " ".join(argv))})
            shutil.rmtree(d, ignore_errors=True)
        unreadable_member_cases(ctx, tmp)
    finally:
        shutil.rmtree(tmp, ignore_errors=True)


def unreadable_member_cases(ctx, tmp):
    """A listed path that can be stat'ed with the listed length but not read (mode 000 seen by another user; a socket where a
    zero-length file is listed), together with wrong bytes of the right length in ANOTHER listed file: whatever is made of the
    unreadable entry, the content does not match and verify must not exit 0. (Added after seeded change C03-16: the piece verdict
    was dropped as "unknown" when any file could not be read, so nothing compared the bytes.)"""
    import socket as _socket
    plans = [("socket for a zero-length entry", False)]
    if lib.can_drop_privileges() and ctx.imdl(["--version"], cwd=tmp, as_nobody=True)[0] == 0:
        plans.append(("mode 000 member, other user", True))
    for what, nobody in plans:
        for md5 in (False, True):
            d = tempfile.mkdtemp(dir=tmp)
            os.chmod(d, 0o755)
            root = os.path.join(d, "in")
            os.makedirs(root)
            data = {"a.bin": b"A" * 40, "b.bin": b"B" * 33, "z.empty": b""}
            for n, b in data.items():
                with open(os.path.join(root, n), "wb") as f:
                    f.write(b)
            argv = ["torrent", "create", "--input", "in", "--piece-length", "16", "--allow", "small-piece-length"] + (["--md5"] if md5 else [])
            rc, out, err = ctx.imdl(argv, cwd=d, timeout=120)
            if rc != 0:
                ctx.violation("infrastructure", "create failed while preparing an unreadable-member case", {"stderr": err.decode("utf-8", "replace")[-300:]})
                continue
            for dp, dn, fn in os.walk(d):
                os.chmod(dp, 0o755)
                for x in fn:
                    os.chmod(os.path.join(dp, x), 0o644)
            if nobody:
                os.chmod(os.path.join(root, "a.bin"), 0o000)
            else:
                os.remove(os.path.join(root, "z.empty"))
                try:
                    sk = _socket.socket(_socket.AF_UNIX)
                    sk.bind(os.path.join(root, "z.empty")); sk.close()
                except OSError:                      # no unix sockets here, or the path is too long for one: nothing to conclude
                    ctx.count("platform_limit_unreadable_member_skipped")
                    shutil.rmtree(d, ignore_errors=True)
                    continue
            verdicts = []
            for step in ("content otherwise intact", "same-length wrong bytes in another file"):
                if step.startswith("same-length"):
                    with open(os.path.join(root, "b.bin"), "wb") as f:
                        f.write(b"X" * 33)
                r2, o2, e2 = ctx.imdl(["torrent", "verify", "--input", "in.torrent"], cwd=d, timeout=120, as_nobody=nobody)
                verdicts.append((step, r2, e2.decode("utf-8", "replace")[-200:]))
            ctx.cov["evaluations"] += 1
            ctx.count("platform_limit_unreadable_member")
            ctx.distinct(("platform", "unreadable", what, md5))
            if verdicts[1][1] != 1 or verdicts[0][1] not in (0, 1):
                ctx.violation("oracle-failure",
                              "%s%s: verify exited %r (content otherwise intact) and %r (33 wrong bytes of the right length in b.bin); with wrong "
                              "bytes in a listed file the exit status is 1" % (what, ", --md5" if md5 else "", verdicts[0][1], verdicts[1][1]),
                              {"kind": "platform-limit", "which": "unreadable-member", "what": what, "md5": md5, "verify": verdicts,
                               "reproduce": "mkdir in; printf 'A%%.0s' $(seq 40) > in/a.bin; printf 'B%%.0s' $(seq 33) > in/b.bin; : > in/z.empty; "
                                            "imdl %s; %s; printf 'X%%.0s' $(seq 33) > in/b.bin; %simdl torrent verify --input in.torrent; echo $?"
                                            % (" ".join(argv), "chmod 000 in/a.bin" if nobody else "rm in/z.empty; python3 -c 'import socket;socket.socket(socket.AF_UNIX).bind(\"in/z.empty\")'",
                                               "setpriv --reuid=65534 --regid=65534 --clear-groups " if nobody else "")})
            shutil.rmtree(d, ignore_errors=True)


def platform_limit_cases(ctx):
    """create, verify, change one byte, verify, undo, verify at the limits of the platform rather than of the format:
    more listed files than the process may hold open (RLIMIT_NOFILE lowered to 40 for imdl; 150 files, 600 in thorough),
    content owned by another user than the one who verifies (world-readable files made by root, imdl run as uid 65534),
    file and directory names of exactly NAME_MAX = 255 bytes. Oracle only: a torrent imdl has just created verifies
    against the unmodified content, fails after a real change and verifies again after the change is undone. (Added after
    seeded changes C02-10 / C03-11: every listed file opened before hashing; C02-11: O_NOATIME on the content open;
    C02-12: a length bound on path components that is off by one.)"""
    import random
    plan = [("many-files", dict(n=150, nofile=40)), ("other-owner", dict(n=3)), ("name-max", dict(n=3))]
    if ctx.thorough:
        plan += [("many-files", dict(n=600, nofile=64)), ("many-files", dict(n=1100, nofile=1024))]
    tmp = tempfile.mkdtemp(prefix="plat-", dir="/tmp" if os.path.isdir("/tmp") else None)
    os.chmod(tmp, 0o755)
    try:
        for kind, par in plan:
            if kind == "other-owner" and (not lib.can_drop_privileges()
                                          or ctx.imdl(["--version"], cwd=tmp, as_nobody=True)[0] != 0):
                # not root, no setpriv, or the binary itself is out of reach of uid 65534: nothing can be concluded
                ctx.count("platform_other_owner_skipped")
                continue
            d = tempfile.mkdtemp(dir=tmp)
            os.chmod(d, 0o755)
            rnd = random.Random(par["n"] * 7 + len(kind))
            root = os.path.join(d, "in")
            os.makedirs(os.path.join(root, "sub"))
            names = []
            for i in range(par["n"]):
                n = "f%04d" % i
                if kind == "name-max":
                    n = [("a" * 255), os.path.join("d" * 255, "x"), ("é" * 127 + "z")][i]      # 255 bytes each
                elif i % 3 == 2:
                    n = os.path.join("sub", n)
                os.makedirs(os.path.dirname(os.path.join(root, n)), exist_ok=True)
                with open(os.path.join(root, n), "wb") as f:
                    f.write(rnd.randbytes(rnd.choice([1, 2, 3, 5, 8])))
                names.append(n)
            for dp, dn, fn in os.walk(d):
                os.chmod(dp, 0o755)
                for x in fn:
                    os.chmod(os.path.join(dp, x), 0o644)
            lim = dict(nofile=par.get("nofile"), as_nobody=False)
            argv = ["torrent", "create", "--input", "in", "--piece-length", "16", "--allow", "small-piece-length"]
            rc, out, err = ctx.imdl(argv, cwd=d, timeout=300, **lim)
            verdicts = []
            if rc == 0:
                os.chmod(os.path.join(d, "in.torrent"), 0o644)
                lim["as_nobody"] = kind == "other-owner"
                target = os.path.join(root, names[(2 * len(names)) // 3])
                for what in ("unchanged", "one byte changed", "change undone"):
                    if what == "one byte changed":
                        with open(target, "r+b") as f:
                            old = f.read(1); f.seek(0); f.write(bytes([old[0] ^ 0x40]))
                    elif what == "change undone":
                        with open(target, "r+b") as f:
                            f.write(old)
                    r2, o2, e2 = ctx.imdl(["torrent", "verify", "--input", "in.torrent"], cwd=d, timeout=300, **lim)
                    verdicts.append((what, r2, e2.decode("utf-8", "replace")[-200:]))
            ctx.cov["evaluations"] += 1
            ctx.count("platform_limit_" + kind)
            ctx.distinct(("platform", kind, par["n"]))
            got = [v[1] for v in verdicts]
            if rc != 0 or got != [0, 1, 0]:
                how = {"many-files": "%d files, at most %s open files for imdl (ulimit -n)" % (par["n"], par.get("nofile")),
                       "other-owner": "content and torrent made by root (world-readable), verify run as uid 65534 "
                                      "(setpriv --reuid=65534 --regid=65534 --clear-groups)",
                       "name-max": "a file name, a directory name and a multi-byte file name of exactly 255 bytes"}[kind]
                ctx.violation("oracle-failure",
                              "%s: create exited %d; verify exited %r for (unchanged, one byte changed, change undone), expected "
                              "[0, 1, 0]" % (how, rc, got),
                              {"kind": "platform-limit", "which": kind, "parameters": par, "create_rc": rc,
                               "create_stderr": err.decode("utf-8", "replace")[-300:], "verify": verdicts, "files": names[:5] + ["..."],
                               "reproduce": "mkdir in; (populate %d small files); %simdl %s; %simdl torrent verify --input in.torrent"
                                            % (par["n"], "ulimit -n %d; " % par["nofile"] if par.get("nofile") else "", " ".join(argv),
                                               "setpriv --reuid=65534 --regid=65534 --clear-groups " if kind == "other-owner" else "")})
            shutil.rmtree(d, ignore_errors=True)
    finally:
        shutil.rmtree(tmp, ignore_errors=True)
