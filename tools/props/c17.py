"""C17 — host:port values survive every representation.

Obligations: coq/Properties/C17.v (the lazy regex splits at the last colon; exact characterisation of
what `FromStr` accepts; print-then-parse, store-then-read, read-then-print round trips for every host the
url parser can produce and every u16; the stored pair form; the rejection classes), stated over
Model/HostPort.v with the url crate's host parser, the IP `Display`s and the regex digit class as
parameters constrained by `url_lib`; the regex / format strings / re-bracketing test re-read from
src/host_port.rs by tools/rs2v_hostport.py.

Correspondence: `hpparse` / `hpben` / `hpunben` hooks vs the extracted model, whose library parameters
are answered per case by the `host_parse` hook (which is also how every `url_lib` hypothesis is
validated); the real binary: `create --node` -> stored pair (independent decoder) -> `show --json` and
text -> `link --peer` x.pe decoded by a standard query-string parser.

X9: the library parameters are no longer only assumed. coq/Model/UrlHost.v models `url::Host::parse` on a stated fragment
(bracketed IPv6 literals; ASCII texts without `%` and without `xn--` labels: IPv4 in every WHATWG spelling, ASCII domains)
and the three IP serialisers; coq/Proofs/UrlHostProofs.v proves every `url_lib` field for them, for all addresses. Every
`host_parse` hook evaluation of this run is ALSO compared with the extracted `u_hparse` / `u_std4` / `u_std6` / `u_url6`
(kind, numeric address, std text, url text) whenever the text is inside the fragment; a dedicated host-text stream (IPv4
spellings and overflow edges, every zero-run position and length of IPv6, IPv4 tails, ASCII domains) feeds it; the
fragment / unmodelled counts are in the evidence.

Direct oracle (independent of the model): the property's own rejection classes, the expected normal
form for canonical IPv4 / any IPv6 (own RFC 5952 writer over `ipaddress`) / plain ASCII domains, value
identity of the stored host judged by `ipaddress`, and the round trips on the implementation's outputs.

Interpretation: "identical value" is judged on the value (address / domain / port). The stored host text
and the printed host text are required to denote the same host and to be equal byte for byte except where
the two IPv6 serialisers involved (std for the stored pair, the url crate for printing) legitimately
differ: IPv4-mapped addresses are stored as `::ffff:1.2.3.4` and printed as `[::ffff:102:304]`; those are
counted in the evidence (`stored_text_differs_from_printed`), not reported."""
import zlib
import ipaddress, json, os, re, shutil, tempfile, urllib.parse
import lib

MANIFEST = dict(
    text="Machine-checked proof over the host:port model for all texts, all hosts the url parser can return and all ports "
         "(regex split = last colon, exact acceptance characterisation, print/parse and store/read round trips, stored pair "
         "form, rejection classes), with the url crate's host parser and the IP serialisers as explicitly constrained "
         "parameters; tied to the code by a translator for the regex and format strings and by a hook/binary correspondence "
         "run. Right level: the property quantifies over every address shape and every malformed string; the bracket handling "
         "and the lazy split are exactly where three unit tests cannot reach.",
    ref="DESIGN.md section 5, C17",
    technique="Coq proof over a Gallina model + translator-generated tables + model/implementation correspondence run",
    note="The url crate's Host::parse on a stated fragment (bracketed IPv6; ASCII text without % and without xn-- labels: IPv4 in "
         "every WHATWG spelling, ASCII domains) and the std / url IP serialisers are modelled concretely (Model/UrlHost.v) and every "
         "url_lib hypothesis is PROVED for them, for all 2^32 / 2^128 addresses (Proofs/UrlHostProofs.v), and compared with the crate "
         "on every host text of the run. Partial: IDNA on non-ASCII / punycode labels, percent-decoding and the regex digit class "
         "remain Section hypotheses (ext_lib, nd_*) validated on every run through the host_parse hook, not theorems. Trusted: Coq kernel, "
         "tools/rs2v_hostport.py, extraction (ExtrOcamlBasic) + runner/driver.d/hostport.ml, hooks + harness, Python oracle.")

FORBIDDEN = set(range(0, 33)) | {ord(c) for c in '#/:<>?@[\\]^|'} | {127}
ORACLE_FORBIDDEN = FORBIDDEN - {ord(':')}
PUNY = ["xn--bcher-kva", "xn--zca", "xn--nxasmq6b", "xn--80ak6aa92e", "xn--p1ai", "XN--BCHER-KVA"]
IDN = ["bücher.de", "ß.example", "例え.jp", "ｅｘａｍｐｌｅ.com", "a。b", "faß.de", "İ.com", "a\u00adb.com", "١.com", "π.gr"]
EXOTIC = ["a&b", "a+b", "a=b", "a!b", "a~b", "a'b", "a*b", "a,b", "a;b", "a$b", "a(b)", "a`b", "a{b}", 'a"b', "%41bc", "a%2Bb",
          "a%26b", "A%4Fb", "a_b", "-a", "a-", "a..b", ".", "a.", "x--y"]
UNI_DIGITS = ["٣", "１２", "۴۲", "8０", "１", "९९"]


# ---------------------------------------------------------------- generators

def gen_label(r):
    n = r.choice([1, 1, 2, 3, 5, 8, 12])
    s = "".join(r.choice("abcdefghijklmnopqrstuvwxyz0123456789-_") for _ in range(n))
    if r.random() < 0.4:
        s = "".join(c.upper() if r.random() < 0.5 else c for c in s)
    return s


def gen_domain(r):
    labels = []
    for _ in range(r.choice([1, 1, 2, 2, 3, 4])):
        k = r.random()
        if k < 0.07:
            labels.append(r.choice(PUNY))
        elif k < 0.17:
            labels.append(str(r.choice([0, 1, 7, 10, 255, 256, 300, 65535, 4294967295, 4294967296])))
        elif k < 0.21:
            labels.append("0x%x" % r.randrange(0, 70000))
        else:
            labels.append(gen_label(r))
    s = ".".join(labels)
    if r.random() < 0.1:
        s += "."
    return s


def gen_ipv4(r):
    o = [r.choice([0, 1, 9, 10, 99, 100, 127, 192, 254, 255, r.randrange(256)]) for _ in range(4)]
    k = r.random()
    if k < 0.6:
        return "ipv4", "%d.%d.%d.%d" % tuple(o)
    v = (o[0] << 24) | (o[1] << 16) | (o[2] << 8) | o[3]
    forms = ["%d.%d.%d" % (o[0], o[1], (o[2] << 8) | o[3]), "%d.%d" % (o[0], v & 0xFFFFFF), "%d" % v, "0x%x" % v,
             "0x%x.%d.%d.%d" % tuple(o), "0%o.%d.%d.%d" % tuple(o), "%d.%d.%d.%d." % tuple(o), "%d.%d.%d.0x%X" % tuple(o),
             "%d.%d.%d.%d.%d" % (o[0], o[1], o[2], o[3], o[0]), "%d.%d.%d.%d" % (o[0], o[1], o[2], o[3] + 256),
             "0%d.%d.%d.%d" % tuple(o), "%d..%d.%d" % (o[0], o[1], o[2]), "%d.%d.%d.%d" % (o[0], o[1], o[2], 1 << 32)]
    return "ipv4-numeric", r.choice(forms)


def gen_groups(r):
    g = [0 if r.random() < 0.5 else r.choice([1, 0xffff, 0xa, 0x1234, 0xdb8, r.randrange(65536)]) for _ in range(8)]
    k = r.random()
    if k < 0.12:
        g[:6] = [0, 0, 0, 0, 0, 0xffff]                       # IPv4-mapped
    elif k < 0.18:
        g[:6] = [0, 0, 0, 0, 0, 0]                            # IPv4-compatible / :: / ::1
    elif k < 0.22:
        g[:6] = [0x64, 0xff9b, 0, 0, 0, 0]
    elif k < 0.26:
        g = [0] * 8
    return g


def write_v6(r, g):
    """one of the many texts of an address"""
    def hx(x):
        k = r.random()
        s = "%x" % x
        if k < 0.2:
            s = s.upper()
        elif k < 0.35:
            s = s.zfill(4)
        return s
    tail4 = r.random() < 0.25
    parts = [hx(x) for x in (g[:6] if tail4 else g)]
    zeros = g[:6] if tail4 else g
    runs, i = [], 0
    while i < len(zeros):
        if zeros[i] == 0:
            j = i
            while j < len(zeros) and zeros[j] == 0:
                j += 1
            runs.append((i, j)); i = j
        else:
            i += 1
    tail = ["%d.%d.%d.%d" % (g[6] >> 8, g[6] & 255, g[7] >> 8, g[7] & 255)] if tail4 else []
    if runs and r.random() < 0.75:
        a, b = r.choice(runs)
        if r.random() < 0.3 and b - a > 1:
            a += r.randrange(0, b - a)                         # compress only part of the run
        left, right = parts[:a], parts[b:] + tail
        return ":".join(left) + "::" + ":".join(right)
    return ":".join(parts + tail)


def rfc5952(v):
    """own RFC 5952 writer (what WHATWG's serialiser prints): lower-case hex, the first longest run of two or
    more zero groups compressed; no IPv4 tail"""
    g = [(v >> (16 * (7 - i))) & 0xffff for i in range(8)]
    best, bl, i = -1, 0, 0
    while i < 8:
        if g[i] == 0:
            j = i
            while j < 8 and g[j] == 0:
                j += 1
            if j - i > bl:
                best, bl = i, j - i
            i = j
        else:
            i += 1
    if bl < 2:
        return ":".join("%x" % x for x in g)
    return ":".join("%x" % x for x in g[:best]) + "::" + ":".join("%x" % x for x in g[best + bl:])


def gen_port(r):
    k = r.random()
    if k < 0.5:
        return "port-ok", r.choice(["0", "1", "080", "65535", "0065535", "00000", "6881", "%d" % r.randrange(65536),
                                    "%05d" % r.randrange(65536), "0" * r.randrange(1, 30) + "%d" % r.randrange(65536)])
    if k < 0.75:
        return "port-bad", r.choice(["65536", "99999", "", "+1", "-1", " 1", "1 ", "1a", "70000", "4294967297", "0x50",
                                     "18446744073709551617", "1\n", "1.0", "1e3", "６５５３６"] + UNI_DIGITS)
    return "port-ok", "%d" % r.randrange(65536)


def gen_text(r):
    """-> (generator class, text)"""
    k = r.random()
    pk, port = gen_port(r)
    if k < 0.22:
        return "domain/" + pk, gen_domain(r) + ":" + port
    if k < 0.27:
        return "domain-idn/" + pk, r.choice(IDN) + ":" + port
    if k < 0.34:
        return "domain-exotic/" + pk, r.choice(EXOTIC) + ":" + port
    if k < 0.50:
        c, t = gen_ipv4(r)
        return c + "/" + pk, t + ":" + port
    if k < 0.78:
        return "ipv6/" + pk, "[" + write_v6(r, gen_groups(r)) + "]:" + port
    if k < 0.84:
        return "ipv6-unbracketed/" + pk, write_v6(r, gen_groups(r)) + ":" + port
    return gen_malformed(r)


def gen_malformed(r):
    k = r.random()
    base = r.choice([gen_domain(r), gen_ipv4(r)[1], "[" + write_v6(r, gen_groups(r)) + "]"])
    port = gen_port(r)[1]
    if k < 0.12:
        return "malformed/no-colon", r.choice([base.replace(":", ""), "", "example.com", "1.2.3.4", "localhost6881"])
    if k < 0.24:
        return "malformed/edges", r.choice(["", ":", "::", ":1", "a:", ":::", "[]:1", "[:]:1", "[::]:", "[::1]", "[::1]80",
                                            "[::1:80", "::1]:80", "[[::1]]:80", "[::1]x:80", "[fe80::1%eth0]:80", "[fe80::1%25eth0]:80",
                                            "[1.2.3.4]:80", "[example.com]:80", "[::1]:80:90", "a:1:2", "a::1", "a:1:", "a:b:1",
                                            "\n:1", "a\n:1", "a:1\n", "\na:1", "a\nb:1", "a:1\n2", "a:\n1", "a\r:1", "[::1\n]:1"])
    if k < 0.42:
        c = chr(r.choice(sorted(FORBIDDEN | {0x25, 0x7f, 0x80 + r.randrange(60)})))
        i = r.randrange(len(base) + 1)
        return "malformed/forbidden-char", base[:i] + c + base[i:] + ":" + port
    if k < 0.72:
        s = base + ":" + port
        for _ in range(r.choice([1, 1, 2, 3])):
            op, i = r.random(), r.randrange(len(s) + 1)
            c = r.choice(":[]%.0159afxX+- \n\té٣")
            if op < 0.35:
                s = s[:i] + c + s[i:]
            elif op < 0.7 and s:
                s = s[:i] + s[i + 1:]
            elif s:
                s = s[:i] + c + s[i + 1:]
        return "malformed/mutated", s
    n = r.choice([1, 2, 3, 5, 8, 13])
    return "malformed/soup", "".join(r.choice(":::[]]..%0123456789abfx-_ \n٣éA") for _ in range(n))


CORPUS = [
    "imdl.com:12", "1.2.3.4:100", "[1234:5678:9abc:def0:1234:5678:9abc:def0]:65000",          # the three unit tests
    "router.example.com:1337", "203.0.113.0:2290", "[2001:db8:4275:7920:6269:7463:6f69:6e21]:8832",   # --help examples
    "[::ffff:1.2.3.4]:80", "[::1.2.3.4]:80", "[1:0:0:2:0:0:0:3]:1", "[::]:0", "[::1]:65535", "[1:2:3:4:5:6:7::]:0",
    "[0:0:0:0:0:ffff:102:304]:7", "[64:ff9b::1.2.3.4]:1", "[::FFFF:1.2.3.4]:1", "[1::]:1", "[0:0:1:0:0:1:0:0]:9",
    "1.2.3:5", "0x7f.1:080", "ExAmple.COM.:65535", "a:65536", "a:٣", "a:+1", ":1", "a%3Ab:1", "bücher.de:1", "[::1]x:1",
    "::1:1", "a b:1", "xn--bcher-kva.de:0000000001", "1.2.3.4.:1", "a&b:1", "a+b:1", "a:1:2", "a:00000000000000000000065535",
    "a:00000000000000000000065536", "256:1", "4294967296:1", "a.1:1", "[::ffff:1.2.3.04]:1", "a:1\n", "a\n:1", "", ":", "a:", "a",
    "[::1]", "[::1]:", "[::1]:+1", "1:2:3:4:5:6:7:8:80", "[1:2:3:4:5:6:7:8:9]:1", "[::1]:1٣", "a:٣1", "\u0661.com:1",
    # characters an option parser may treat as a list separator are ordinary host characters (seeded change C17-9: --peer split
    # at commas by clap), and what looks like a list is one malformed value
    "a,b.example:6881", "a,b,c.example:1", ",a.example:2", "a.example,:3", "a;b.example:4", "a=b.example:5", "a b,c.example:6",
    "a.example:1,b.example:2", "a.example:1,b.example", "1.2.3.4:5,6.7.8.9:10", "[::1]:1,[::2]:2",
]


# ---------------------------------------------------------------- host texts for the concrete url-crate model (X9)

def v4_number(r, v):
    k = r.random()
    if k < 0.45:
        return "%d" % v
    if k < 0.6:
        return "0x%x" % v
    if k < 0.68:
        return "0X%X" % v
    if k < 0.85:
        return "0%o" % v
    if k < 0.93:
        return "0" * r.randrange(1, 4) + "%d" % v                  # octal if its digits allow, else an error
    return r.choice(["0x", "0X", "", "08", "09", "0xg", "1a", "-1", "+1", "0x%xg" % v])


def host_ipv4(r):
    """every accepted spelling (decimal / hex / octal parts, 1-4 parts, last part filling the rest, trailing dot) and the
    overflow edges"""
    n = r.choice([1, 2, 3, 4, 4, 4, 4, 5])
    parts = []
    for i in range(n):
        last = i == n - 1
        room = 1 << (8 * (4 - (n - 1))) if last and n <= 4 else 256
        v = r.choice([0, 1, 7, 8, 9, 10, 99, 100, 127, 254, 255, 256, 257, room - 1, room, room + 1, 65535, 65536, 16777215, 16777216,
                      4294967295, 4294967296, 4294967297, r.randrange(256), r.randrange(max(room, 1)), r.randrange(1 << 33)])
        parts.append(v4_number(r, v))
    s = ".".join(parts)
    k = r.random()
    if k < 0.15:
        s += "."
    elif k < 0.18:
        s += ".."
    elif k < 0.21:
        s = "." + s
    elif k < 0.26:
        s = r.choice(["a.", "a-b.", "_.", "x."]) + s
    return s


V4_EDGES = ["0", "00", "0x", "0X", "0x.0x", "1", "255", "256", "0xffffffff", "0x100000000", "4294967295", "4294967296", "037777777777",
            "040000000000", "1.16777215", "1.16777216", "1.2.65535", "1.2.65536", "1.2.3.255", "1.2.3.256", "255.255.255.255",
            "256.255.255.255", "1.256.3.4", "1.2.3.4.", "1.2.3.4..", "1.2.3.4.5", "1.2.3.", "1..2", ".1", "1.", "0x7f.1", "0177.1",
            "08.1", "1.08", "1.0x", "0x1.0x2.0x3.0x4", "0x0000000000000000000001", "000000000000000000001", "1.2.3.0x", "1.2.3.04",
            "999999999999999999999", "0xfffffffffffffffffff", "1.2.3.4294967296", "a.1", "a.0x1", "a.1.", "1.a", "1.2.3.4a", "1e3", "0x1p3"]


def host_ipv6_sweep(r):
    """every zero pattern of the eight groups: the full text, the canonical text, and every sub-run of every zero run
    written as `::` (so: every position and length, two equal runs, a single zero group compressed or not, leading /
    trailing runs); hex case and leading zeros varied"""
    out = []
    for pat in range(256):
        g = [0 if pat >> i & 1 else r.choice([1, 0xa, 0xff, 0x100, 0xdb8, 0xffff, r.randrange(1, 65536)]) for i in range(8)]
        def hx(x):
            k = r.random()
            s = "%x" % x
            return s.upper() if k < 0.15 else s.zfill(r.choice([2, 3, 4])) if k < 0.3 else s
        out.append(":".join("%x" % x for x in g))
        out.append(rfc5952(sum(x << (16 * (7 - i)) for i, x in enumerate(g))))
        subruns = [(a, b) for a in range(8) for b in range(a + 1, 9) if all(x == 0 for x in g[a:b])]
        for a, b in (subruns if len(subruns) <= 6 else r.sample(subruns, 6)):
            parts = [hx(x) for x in g]
            out.append(":".join(parts[:a]) + "::" + ":".join(parts[b:]))
    return out


def host_ipv6(r):
    g = gen_groups(r)
    k = r.random()
    t = write_v6(r, g)
    if k < 0.45:
        return t
    if k < 0.55:                                                   # an IPv4 tail in every position the parser allows or refuses
        n = r.randrange(0, 8)
        head = ":".join("%x" % x for x in g[:n])
        tail = "%d.%d.%d.%d" % tuple(r.choice([0, 1, 9, 10, 255, 256, r.randrange(256)]) for _ in range(4))
        tail = r.choice([tail, tail, "0" + tail, tail + ".1", tail[:-2], tail + ".", tail.replace(".", "..", 1), "1.2.3", "a.2.3.4"])
        return r.choice([head + ":" + tail if head else tail, head + "::" + tail, "::" + head + ":" + tail, "::" + tail, "::ffff:" + tail])
    if k < 0.65:
        return r.choice(["", ":", "::", ":::", "::::", "1", "1:", ":1", "1::", "::1", "1:2:3:4:5:6:7", "1:2:3:4:5:6:7:8", "1:2:3:4:5:6:7:8:9",
                         "1:2:3:4:5:6:7::", "::2:3:4:5:6:7:8", "1::3:4:5:6:7:8", "1:2:3:4:5:6:7::8", "::1:2:3:4:5:6:7:8", "1::2::3",
                         "12345::", "::12345", "g::", "::g", "1:2:3:4:5:6:7:8:", ":1:2:3:4:5:6:7:8", "1:2:3:4:5:6:7:", "::0000", "::00000",
                         "0:0:0:0:0:0:0:0", "0:0:0:0:0:0:0:1", "1:0:0:0:0:0:0:0", "::1%eth0", "::1 ", " ::1", "::ffff:1.2.3.4", "::1.2.3.4",
                         "::ffff:0:1.2.3.4", "64:ff9b::1.2.3.4", "1:2:3:4:5:6:1.2.3.4", "1:2:3:4:5:6:7:1.2.3.4", "1:2:3:4:5::1.2.3.4",
                         "::1.2.3.4:5", "1.2.3.4::", "1.2.3.4", "::\u00e9", "\u00e9::"])
    s = t                                                          # one or two edits
    for _ in range(r.choice([1, 1, 2])):
        i = r.randrange(len(s) + 1)
        c = r.choice(":::..0fFgG19 %]x")
        op = r.random()
        s = s[:i] + c + s[i:] if op < 0.4 else s[:i] + s[i + 1:] if op < 0.7 else s[:i] + c + s[i + 1:]
    return s


def host_domain(r):
    """ASCII domains: upper case, digits-only labels, trailing dot, `_`, hyphens, every printable ASCII character, forbidden
    code points; `xn--` labels, `%` and non-ASCII text are outside the fragment (counted)"""
    k = r.random()
    if k < 0.5:
        return gen_domain(r)
    labels = []
    for _ in range(r.choice([1, 1, 2, 3])):
        kk = r.random()
        if kk < 0.1:
            labels.append(r.choice(["xn--a", "XN--A", "xN--", "xn-", "xn-a", "axn--b", "x--n", "-xn--a", "xn--bcher-kva"]))
        elif kk < 0.25:
            labels.append(r.choice(["0", "1", "09", "08", "0x1", "0X", "0x", "255", "256", "4294967296", "0xg", "1a", "a1", "1-", "-1"]))
        else:
            labels.append("".join(chr(r.choice([r.randrange(0x21, 0x7f), r.randrange(0x61, 0x7b), r.randrange(0x41, 0x5b), 0x2d, 0x5f,
                                                 r.randrange(0, 0x80)])) for _ in range(r.choice([1, 2, 3, 5, 9]))))
    s = ".".join(labels)
    if r.random() < 0.15:
        s += "."
    if r.random() < 0.05:
        s += r.choice(["\u00e9", "%41", "%"])
    return s


def urlhost_step(ctx, H):
    """host texts aimed at the concrete model of the url crate; each goes to the host_parse hook and to UrlHost.u_hparse
    (compared in HostOracle.compare), and to the direct oracle"""
    r = ctx.rng
    texts = {}
    def add(cls, s, bracket=False):
        b = s.encode("utf-8") if isinstance(s, str) else s
        texts.setdefault((b"[" + b + b"]") if bracket else b, cls)
    for s in V4_EDGES:
        add("ipv4-edge", s)
    for s in host_ipv6_sweep(r):
        add("ipv6-zero-run-sweep", s, True)
    for c in range(128):
        for s in (bytes([c]), b"a" + bytes([c]) + b"b", b"1." + bytes([c]) + b"2", b"[::" + bytes([c]) + b"]", b"[1" + bytes([c]) + b":2]"):
            add("ascii-sweep", s)
    n = ctx.n(9000, 150000)
    for _ in range(n):
        k = r.random()
        if k < 0.35:
            add("ipv4", host_ipv4(r))
        elif k < 0.75:
            s = host_ipv6(r)
            add("ipv6", s, True)
            if r.random() < 0.05:
                add("ipv6-half-bracket", r.choice(["[" + s, s + "]", "[" + s + "]]", "[[" + s + "]"]))
        else:
            add("domain", host_domain(r))
    by_cls = {}
    for t, cls in texts.items():
        by_cls.setdefault(cls, []).append(t)
    for cls, ts in sorted(by_cls.items()):
        ctx.count("gen:host/" + cls, len(ts))
        H.ask(ts, cls)
    # the direct oracle on the same texts (the property's own rejection classes and normal forms, ipaddress for IPv6)
    for t, cls in texts.items():
        try:
            exp = oracle_expect(t.decode("utf-8") + ":1")
        except UnicodeDecodeError:
            continue
        res = H.memo[t]
        case = {"host_text": t, "answer": res, "oracle": list(exp), "generator": "host/" + cls,
                "reproduce": "printf 'hostparse %s\\n' | imdl-verif-harness   # or: imdl torrent create --input FILE --node %s" % (lib.hexs(t), shq(t.decode("utf-8") + ":1"))}
        if exp[0] == "reject" and res is not None:
            ctx.violation("oracle-failure", "host %r is accepted as %r but must be rejected: %s" % (t, res["shown"], exp[1]), case)
        elif exp[0] == "accept":
            want_shown = exp[1].rsplit(":", 1)[0].encode()
            if res is None:
                ctx.violation("oracle-failure", "host %r is rejected although it is a well-formed host" % t, case)
            elif res["shown"] != want_shown or res["kind"] != exp[2] or (exp[2] in "46" and res["addr"] != exp[3]):
                ctx.violation("oracle-failure", "host %r is read as %r (kind %s, address %d), expected %r" % (t, res["shown"], res["kind"], res["addr"], want_shown), case)


# ---------------------------------------------------------------- the direct oracle (independent of the model)

def oracle_expect(text):
    """The property, stated directly. -> ('reject', why) | ('accept', printed, kind, value, port) | ('unknown', why)"""
    if ":" not in text:
        return ("reject", "no colon, so no port")
    host, port = text.rsplit(":", 1)
    if not re.fullmatch(r"[0-9]+", port, re.ASCII):
        return ("reject", "port %r is not a plain decimal number" % port)
    if int(port) > 65535:
        return ("reject", "port above 65535")
    p = int(port)
    if host == "":
        return ("reject", "empty host")
    if not host.startswith("["):
        if ":" in host:
            return ("reject", "IPv6 address (or anything with a colon) without brackets")
        bad = [c for c in host if ord(c) in ORACLE_FORBIDDEN]
        if bad:
            return ("reject", "forbidden host character %r" % bad[0])
        if re.fullmatch(r"(0|[1-9][0-9]{0,2})(\.(0|[1-9][0-9]{0,2})){3}", host) and all(int(x) < 256 for x in host.split(".")):
            return ("accept", "%s:%d" % (host, p), "4", int(ipaddress.IPv4Address(host)), p)
        m = re.fullmatch(r"[A-Za-z0-9_-]+(\.[A-Za-z0-9_-]+)*\.?", host)
        if m:
            labels = host.rstrip(".").split(".")
            if (not any(l.lower().startswith("xn--") or "--" in l for l in labels)
                    and re.search(r"[g-wyzG-WYZ_-]", labels[-1])):
                return ("accept", "%s:%d" % (host.lower(), p), "d", host.lower(), p)
        return ("unknown", "host syntax is the url crate's to judge")
    if not host.endswith("]"):
        return ("reject", "opening bracket without closing bracket before the port")
    inner = host[1:-1]
    if "%" in inner or "[" in inner or "]" in inner:
        return ("unknown", "zone or nested bracket")
    try:
        a = ipaddress.IPv6Address(inner)
    except ValueError:
        return ("unknown", "not an IPv6 text python accepts")
    return ("accept", "[%s]:%d" % (rfc5952(int(a)), p), "6", int(a), p)


def same_host(stored, printed_host):
    """value identity of the stored host text and the printed host text, judged independently"""
    if printed_host.startswith("[") and printed_host.endswith("]"):
        try:
            return ipaddress.IPv6Address(stored) == ipaddress.IPv6Address(printed_host[1:-1])
        except ValueError:
            return False
    return stored == printed_host


def magnet_values(uri, key, plus):
    if "?" not in uri:
        return None
    un = urllib.parse.unquote_plus if plus else urllib.parse.unquote
    out = []
    for part in uri.split("?", 1)[1].split("#", 1)[0].split("&"):
        k, _, v = part.partition("=")
        if un(k) == key:
            out.append(un(v))
    return out


# ---------------------------------------------------------------- plumbing

def ok_text(reply):
    return lib.unhex(reply[3:]).decode("utf-8", "replace") if reply.startswith("OK ") else None


def candidates_for_text(tb):
    return [tb[:i] for i in range(len(tb)) if tb[i] == 0x3A]


def candidates_for_bencode(b):
    m = re.match(rb"l(\d{1,6}):", b)
    if not m:
        return []
    t = b[m.end():m.end() + int(m.group(1))]
    return [t, b"[" + t + b"]"]


def parse_hostparse(reply):
    """-> None (error) | dict(kind, addr, std, shown)"""
    if not reply.startswith("OK "):
        return None
    k, a, std, shown = reply[3:].split(" ")
    return {"kind": k, "addr": int(a), "std": lib.unhex(std), "shown": lib.unhex(shown)}


def table_entry(t, res):
    if res is None:
        return "%s:E" % lib.hexs(t)
    url = res["shown"][1:-1] if res["kind"] == "6" else b""
    return "%s:%s:%d:%s:%s" % (lib.hexs(t), res["kind"], res["addr"], lib.hexs(res["std"]), lib.hexs(url))


class HostOracle:
    """answers of the host_parse hook, memoised; this is the model's `hparse` / `std4` / `std6` / `url6`"""

    def __init__(self, ctx):
        self.ctx, self.memo = ctx, {}

    def ask(self, texts, cls="other"):
        new = sorted({t for t in texts if t not in self.memo})
        reps = self.ctx.harness(["hostparse " + lib.hexs(t) for t in new])
        mods = self.ctx.model(["u_hparse " + lib.hexs(t) for t in new]) if self.ctx.modelrun else [None] * len(new)
        for t, rep, m in zip(new, reps, mods):
            if not (rep.startswith("OK ") or rep.startswith("ERR ")):
                self.ctx.violation("oracle-failure", "Host::parse did not return normally on %r: %s" % (t, rep),
                                   {"host_text": t, "reply": rep, "reproduce": "printf 'hostparse %s\\n' | imdl-verif-harness" % lib.hexs(t)})
            self.memo[t] = parse_hostparse(rep)
            if m is not None:
                self.compare(t, rep, m, cls)

    def compare(self, t, rep, m, cls):
        """the concrete model of the url crate (Model/UrlHost.v) against the crate, on every text inside the fragment"""
        ctx = self.ctx
        if m == "UNMODELLED":
            ctx.count("urlhost:unmodelled")
            ctx.count("urlhost:unmodelled:" + ("non-ascii" if any(c >= 0x80 for c in t) else "percent" if b"%" in t else "xn--label"))
            return
        ctx.cov["evaluations"] += 1
        ctx.cov["traces_validated_against_impl"] += 1
        impl = "ERR" if rep.startswith("ERR ") else rep
        ctx.count("urlhost:in-fragment")
        ctx.count("urlhost:in-fragment:" + (impl.split(" ")[1] if impl.startswith("OK ") else "rejected"))
        ctx.distinct(("urlhost", cls, impl[:4], t[:1] == b"[", len(t) > 12))
        if impl != m:
            ctx.cov["disagreements_checked"] += 1
            ctx.violation("model-impl-disagreement",
                          "UrlHost.u_hparse / u_std4 / u_std6 / u_url6 and url::Host::parse (kind, address, std text, Host Display) "
                          "differ on the host text %r: impl %s, model %s" % (t, impl[:120], m[:120]),
                          {"host_text": t, "impl": rep, "model": m, "generator": "host/" + cls,
                           "reproduce": "printf 'hostparse %s\\n' | imdl-verif-harness   # model: printf 'u_hparse %s\\n' | modelrun"
                                        % (lib.hexs(t), lib.hexs(t))})

    def table(self, cands):
        return ",".join(table_entry(t, self.memo[t]) for t in dict.fromkeys(cands)) or "~"


def check_library(ctx, H):
    """validate every url_lib hypothesis on everything the hook was asked; failures are assumption-broken"""
    def broken(hyp, what, t):
        ctx.violation("assumption-broken", "url_lib.%s: %s (host text %r)" % (hyp, what, t),
                      {"hypothesis": hyp, "host_text": t, "answer": H.memo.get(t),
                       "reproduce": "printf 'hostparse %s\\n' | imdl-verif-harness" % lib.hexs(t)})
    probes = [b""] + [b"a" + bytes([c]) + b"b" for c in range(128)] + [bytes([c]) + b"a" for c in range(128) if c != 0x5B]
    H.ask(probes)
    first = dict(H.memo)
    follow = set()
    for t, res in first.items():
        if res is not None:
            follow.add(res["shown"])
            if res["kind"] == "6":
                follow.add(b"[" + res["std"] + b"]")
    H.ask(follow)
    n = 0
    for t, res in first.items():
        n += 1
        if t == b"" and res is not None:
            broken("empty_rejected", "the empty host was accepted", t)
        if t[:1] != b"[" and any(c in FORBIDDEN for c in t) and res is not None:
            broken("forbidden_rejected", "a host with a forbidden code point was accepted", t)
        if res is None:
            continue
        k, std, shown = res["kind"], res["std"], res["shown"]
        back = H.memo[shown]
        if back is None or (back["kind"], back["addr"], back["std"]) != (k, res["addr"], std):
            broken("print_parse", "what Host prints (%r) does not parse back to the same value" % shown, t)
        if k == "d":
            if std != shown or not std or any(c in FORBIDDEN for c in std):
                broken("domain_shape", "domain %r / shown %r" % (std, shown), t)
        elif k == "4":
            if std != shown or not re.fullmatch(rb"[0-9.]+", std):
                broken("std4_shape", "IPv4 text %r / shown %r" % (std, shown), t)
        else:
            if not (shown[:1] == b"[" and shown[-1:] == b"]" and re.fullmatch(rb"[0-9a-f:.]+", shown[1:-1])):
                broken("url6_shape", "IPv6 shown as %r" % shown, t)
            if b":" not in std or not re.fullmatch(rb"[0-9a-f:.]+", std):
                broken("std6_shape", "IPv6 std text %r" % std, t)
            b2 = H.memo[b"[" + std + b"]"]
            if b2 is None or (b2["kind"], b2["addr"]) != ("6", res["addr"]):
                broken("plain_parse6", "the std text %r in brackets does not parse back to the same address" % std, t)
    ctx.count("library_hypothesis_checks", n)


# ---------------------------------------------------------------- the run

def run(ctx):
    ctx.need_coq()
    if not ctx.need_rust() or not ctx.need_runner():
        return finish(ctx)
    r = ctx.rng
    H = HostOracle(ctx)

    # ---- 1. parse / print / store on the hooks, against the model and the oracle
    cases = [("corpus", t) for t in CORPUS]
    seen = set(CORPUS)
    want = ctx.n(20000, 400000)
    while len(cases) < want:
        c, t = gen_text(r)
        if t in seen or "\x00" in t and r.random() < 0.9:
            continue
        seen.add(t); cases.append((c, t))
    # values that are textually related to one another: the same host with a port that is a decimal prefix / suffix of the
    # other's port (`node.example:6881` and `node.example:68`); they are paired on one command line further down
    # (added after seeded change C17-10: a substring test for "already in the link" dropped the shorter one)
    related = []
    with_port = [k for k, (c, t) in enumerate(cases) if re.search(r":[0-9]{2,5}$", t, re.ASCII) and "\x00" not in t]
    for k in r.sample(with_port, min(len(with_port), ctx.n(80, 800))):
        host, _, port = cases[k][1].rpartition(":")
        cut = r.randrange(1, len(port))
        for t2 in (host + ":" + port[:cut], host + ":" + (port[cut:].lstrip("0") or "0")):
            if t2 not in seen:
                seen.add(t2); cases.append(("related", t2))
                related.append((k, len(cases) - 1))
    ctx.related_pairs = related
    tb = [t.encode("utf-8") for _, t in cases]
    impl_p = ctx.harness(["hpparse " + lib.hexs(b) for b in tb])
    impl_b = ctx.harness(["hpben " + lib.hexs(b) for b in tb])
    H.ask([c for b in tb for c in candidates_for_text(b)])
    model = ctx.model(["hp_parse %s %s" % (lib.hexs(b), H.table(candidates_for_text(b))) for b in tb])

    # follow-up queries on what the implementation printed and stored
    printed = [ok_text(x) for x in impl_p]
    stored = [lib.unhex(x[3:]) if x.startswith("OK ") else None for x in impl_b]
    fu_idx = [i for i in range(len(cases)) if printed[i] is not None and stored[i] is not None]
    fu_pp = ctx.harness(["hpparse " + lib.hexs(printed[i]) for i in fu_idx])
    fu_pb = ctx.harness(["hpben " + lib.hexs(printed[i]) for i in fu_idx])
    fu_ub = ctx.harness(["hpunben " + lib.hexs(stored[i]) for i in fu_idx])
    fu = {i: (a, b, c) for i, a, b, c in zip(fu_idx, fu_pp, fu_pb, fu_ub)}

    accepted = []
    for i, (cls, text) in enumerate(cases):
        ctx.cov["evaluations"] += 1
        ctx.cov["traces_validated_against_impl"] += 1
        ip, ib, m = impl_p[i], impl_b[i], model[i]
        case = {"text": text, "text_hex": lib.hexs(tb[i]), "generator": cls, "impl_parse": ip, "impl_bencode": ib, "model": m,
                "reproduce": "imdl torrent create --input FILE --output - --node %s | xxd   # or: printf 'hpparse %s\\n' | imdl-verif-harness"
                             % (shq(text), lib.hexs(tb[i]))}
        exp = oracle_expect(text)
        case["oracle"] = list(exp)
        iclass = "OK" if ip.startswith("OK ") else "ERR" if ip.startswith("ERR ") else ip.split(" ")[0]
        ctx.count("gen:" + cls); ctx.count("impl:" + iclass)
        if iclass not in ("OK", "ERR") or ib.split(" ")[0] != iclass:
            ctx.violation("oracle-failure", "host:port %r: parse replied %s, parse+serialise replied %s" % (text, ip[:40], ib[:40]), case)
            continue
        bad = []
        if iclass == "ERR":
            ctx.distinct((cls, "ERR", exp[0]))
            if exp[0] == "accept":
                bad.append("rejected, but it is a well-formed %s host with port %d" % ({"d": "domain", "4": "IPv4", "6": "IPv6"}[exp[2]], exp[4]))
        else:
            P, B = printed[i], stored[i]
            if exp[0] == "reject":
                bad.append("accepted as %r, but must be rejected: %s" % (P, exp[1]))
            elif exp[0] == "accept" and P != exp[1]:
                bad.append("printed as %r, expected the normal form %r" % (P, exp[1]))
            ph, _, pp = P.rpartition(":")
            given_port = text.rsplit(":", 1)[1] if ":" in text else ""
            if not re.fullmatch(r"0|[1-9][0-9]*", pp) or (re.fullmatch(r"[0-9]+", given_port, re.ASCII) and int(pp) != int(given_port)):
                bad.append("printed port %r is not the canonical decimal of the given port %r" % (pp, given_port))
            try:
                v, end = lib.bdecode_strict(B)
            except Exception as e:
                v, end = None, repr(e)
            if not (isinstance(v, list) and len(v) == 2 and isinstance(v[0], bytes) and isinstance(v[1], int)
                    and not isinstance(v[1], bool) and end == len(B)):
                bad.append("stored form %r is not a canonical [host, port] pair" % B)
            else:
                sh = v[0].decode("utf-8", "replace")
                if "[" in sh or "]" in sh:
                    bad.append("stored host %r has brackets" % sh)
                if re.fullmatch(r"[0-9]+", pp) and v[1] != int(pp):
                    bad.append("stored port %d differs from the printed port %s" % (v[1], pp))
                if not same_host(sh, ph):
                    bad.append("stored host %r and printed host %r are not the same host" % (sh, ph))
                elif (ph[1:-1] if ph.startswith("[") else ph) != sh:
                    ctx.count("stored_text_differs_from_printed")
                    if len([s for s in ctx.cov["samples"] if isinstance(s, dict) and "stored_vs_printed" in s]) < 1:
                        ctx.sample({"stored_vs_printed": "value-identical, different text", "given": text, "stored": sh, "printed": P})
                if exp[0] == "accept" and exp[2] == "6":
                    try:
                        if int(ipaddress.IPv6Address(sh)) != exp[3]:
                            bad.append("stored host %r is not the address that was given" % sh)
                    except ValueError:
                        bad.append("stored host %r is not an IPv6 text" % sh)
                if exp[0] == "accept" and exp[2] in "d4" and sh != exp[1].rsplit(":", 1)[0]:
                    bad.append("stored host %r, expected %r" % (sh, exp[1].rsplit(":", 1)[0]))
            a, b, c = fu[i]
            case["reparse_printed"], case["restore_printed"], case["reread_stored"] = a, b, c
            if ok_text(a) != P:
                bad.append("parsing the printed form %r gives %s, not the same value" % (P, ok_text(a) if a.startswith("OK ") else a[:3]))
            if not b.startswith("OK ") or lib.unhex(b[3:]) != B:
                bad.append("the printed form %r stores differently from what was given" % P)
            if ok_text(c) != P:
                bad.append("re-reading the stored pair %r gives %s, not %r" % (B, ok_text(c) if c.startswith("OK ") else c[:3], P))
            kind = "6" if ph.startswith("[") else ("4" if re.fullmatch(r"[0-9.]+", ph) else "d")
            ctx.distinct((cls, "OK", kind, pp in ("0", "65535"), len(given_port) != len(pp)))
            ctx.count("accepted_kind:" + kind)
            accepted.append(i)
        if bad:
            ctx.violation("oracle-failure", "host:port %r: %s" % (text, "; ".join(bad)), case)
            continue
        mclass = m.split(" ")[0]
        if mclass not in ("OK", "ERR"):
            ctx.cov["disagreements_checked"] += 1
            ctx.violation("model-impl-disagreement", "model did not evaluate on %r: %s" % (text, m), case)
        elif mclass != iclass or (iclass == "OK" and (m.split(" ")[4], m.split(" ")[5]) != (lib.hexs(printed[i]), lib.hexs(stored[i]))):
            ctx.cov["disagreements_checked"] += 1
            ctx.violation("model-impl-disagreement",
                          "HostPort.hp_parse / hp_display / hp_to_bencode and the implementation differ on %r (impl %s, model %s); "
                          "the property's own conditions hold there" % (text, ip[:60], m[:80]), case)
        elif iclass == "ERR":
            kinds = {"PortMissing": "Port missing", "BadHost": "Failed to parse host", "BadPort": "Failed to parse port"}
            ctx.count("error_kind_%s" % ("agrees" if lib.unhex(ip[4:]).decode("utf-8", "replace").startswith(kinds.get(m[4:], "?")) else "differs"))
    for i in accepted[:2]:
        ctx.sample({"given": cases[i][1], "printed": printed[i], "stored": stored[i].decode("utf-8", "replace"), "model": model[i]})

    # ---- 2. re-reading stored pairs, including hostile ones
    ub = []
    for i in accepted:
        B = stored[i]
        if len(ub) < ctx.n(6000, 80000):
            ub.append(("stored", B))
            if r.random() < 0.5:
                mc, mb = mutate_pair(r, B)
                m = re.match(rb"l(\d+):", mb)
                # a declared string length far beyond the input only costs the extracted model a unary `nat` of that size
                # (Bencode.dec_str compares through N.to_nat); lengths a little beyond the input are kept
                if not (m and int(m.group(1)) > 5000):
                    ub.append((mc, mb))
    for b in [b"l1:ai5ee", b"l1:ai5eeXYZ", b"l1:ai5ei6ee", b"l1:ai5e", b"l1:ai65536ee", b"l1:ai-1ee", b"l1:ai05ee", b"li5e1:ae",
              b"l3:::1i5ee", b"l5:[::1]i5ee", b"l14:::ffff:1.2.3.4i7ee", b"l1:Ai5ee", b"l5:1.2.3i5ee", b"l0:i5ee", b"d1:ai5ee",
              b"l4:a:80i5ee", b"l2:::i0ee", b"l1::i0ee", b"l1:\xffi5ee", b"l2:\xc3\xa9i5ee", b"ll1:aei5ee", b"l1:ai99999999999999999999ee",
              b"", b"l", b"le", b"l1:ae", b"l1:ai0ee", b"l1:ai65535ee", b"l9:[::1]:80i5ee", b"l3:a b5ee", b"l11:example.comi6881e4:spame"]:
        ub.append(("corpus", b))
    ub = list(dict.fromkeys(ub))
    impl_u = ctx.harness(["hpunben " + lib.hexs(b) for _, b in ub])
    H.ask([c for _, b in ub for c in candidates_for_bencode(b)])
    model_u = ctx.model(["hp_unben %s %s" % (lib.hexs(b), H.table(candidates_for_bencode(b))) for _, b in ub])
    pu = [ok_text(x) for x in impl_u]
    idx = [i for i in range(len(ub)) if pu[i] is not None]
    fu2 = dict(zip(idx, zip(ctx.harness(["hpparse " + lib.hexs(pu[i]) for i in idx]), ctx.harness(["hpben " + lib.hexs(pu[i]) for i in idx]))))
    for i, (cls, b) in enumerate(ub):
        ctx.cov["evaluations"] += 1
        ctx.cov["traces_validated_against_impl"] += 1
        iu, m = impl_u[i], model_u[i]
        case = {"bencode_hex": lib.hexs(b), "bencode": b.decode("latin-1"), "generator": "reread/" + cls, "impl": iu, "model": m,
                "reproduce": "printf 'hpunben %s\\n' | imdl-verif-harness   # or a torrent whose `nodes` holds this pair, then imdl torrent show" % lib.hexs(b)}
        iclass = iu.split(" ")[0]
        ctx.count("reread:" + cls + ":" + iclass)
        if iclass not in ("OK", "ERR"):
            ctx.violation("oracle-failure", "re-reading %r did not return normally: %s" % (b, iu), case); continue
        bad = []
        try:
            v, end = lib.bdecode_strict(b)
        except Exception:
            v, end = None, None
        pair_ok = (isinstance(v, list) and len(v) == 2 and isinstance(v[0], bytes) and isinstance(v[1], int))
        if iclass == "OK":
            P = pu[i]
            ctx.distinct(("reread", cls, "OK", P.startswith("[")))
            if not pair_ok:
                bad.append("accepted something that is not a [host, port] pair")
            elif not 0 <= v[1] <= 65535:
                bad.append("accepted port %d" % v[1])
            elif P.rpartition(":")[2] != str(v[1]):
                bad.append("shows port %s for stored port %d" % (P.rpartition(":")[2], v[1]))
            a, c = fu2[i]
            if ok_text(a) != P:
                bad.append("what is shown (%r) does not parse back to itself" % P)
            if pair_ok and cls == "stored" and (not c.startswith("OK ") or lib.unhex(c[3:]) != b):
                bad.append("a pair written by imdl is not what its re-read value writes")
        else:
            ctx.distinct(("reread", cls, "ERR"))
            if cls == "stored":
                bad.append("a pair written by imdl itself is rejected on re-reading")
        if bad:
            ctx.violation("oracle-failure", "stored pair %r: %s" % (b, "; ".join(bad)), case)
        elif m.split(" ")[0] != iclass or (iclass == "OK" and m.split(" ")[4] != lib.hexs(pu[i])):
            ctx.cov["disagreements_checked"] += 1
            ctx.violation("model-impl-disagreement", "HostPort.hp_from_bencode and Deserialize for HostPort differ on %r (impl %s, model %s)"
                          % (b, iu[:60], m[:80]), case)

    # ---- 3a. host texts aimed at the concrete model of the url crate (Model/UrlHost.v)
    urlhost_step(ctx, H)

    # ---- 3. the library hypotheses, on everything Host::parse was asked above
    check_library(ctx, H)

    # ---- 4. the real binary
    e2e(ctx, cases, accepted, printed, stored)
    e2e_reread(ctx, ub, impl_u, pu)
    return finish(ctx)


def mutate_pair(r, B):
    v, _ = lib.bdecode_strict(B)
    h, p = v
    k = r.random()
    if k < 0.15:
        return ("port-range", lib.bencode([h, r.choice([65536, -1, 70000, 1 << 16, 1 << 32, 1 << 63, -(1 << 15), 99999])]))
    if k < 0.25:
        return ("trailing", B + r.choice([b"e", b"junk", b"i0e", b"\x00", b"l1:ai1ee"]))
    if k < 0.35:
        return ("arity", lib.bencode(r.choice([[h], [h, p, p], [p, h], [[h], p], [h, [p]], [h, h], [p, p], []])))
    if k < 0.45:
        return ("bracketed-host", lib.bencode([b"[" + h + b"]", p]))
    if k < 0.55:
        return ("host-with-port", lib.bencode([h + b":%d" % p, p]))
    if k < 0.65:
        return ("other-kind", r.choice([lib.bencode({"host": h, "port": p}), lib.bencode(h), lib.bencode(p), b"d" + B[1:]]))
    if k < 0.8:
        i = r.randrange(len(B))
        return ("byte-flip", B[:i] + bytes([r.choice(b":0123456789ile[]-. \xff")]) + B[i + 1:])
    if k < 0.9:
        return ("truncated", B[:r.randrange(len(B))])
    return ("non-normal-host", lib.bencode([h.upper() + r.choice([b"", b".", b"%2e"]), p]))


def shq(s):
    return "'" + s.replace("'", "'\\''") + "'"


def arg(flag, v):
    return ["%s=%s" % (flag, v)] if v.startswith("-") else [flag, v]


def e2e(ctx, cases, accepted, printed, stored):
    r = ctx.rng
    usable = [i for i in accepted if "\x00" not in cases[i][1]]
    by_cls = {}
    for i in usable:
        by_cls.setdefault(cases[i][0], []).append(i)
    pick = []
    for cls in sorted(by_cls):
        pick += r.sample(by_cls[cls], min(len(by_cls[cls]), ctx.n(10, 80)))
    pick += [i for i in usable if cases[i][0] == "corpus"]
    pick = list(dict.fromkeys(pick))
    r.shuffle(pick)
    groups, i = [], 0
    while i < len(pick):
        k = r.choice([1, 1, 2, 3])
        groups.append(pick[i:i + k]); i += k
    us = set(usable)
    rel = [(a, b) for a, b in getattr(ctx, "related_pairs", []) if a in us and b in us]
    for a, b in r.sample(rel, min(len(rel), ctx.n(30, 300))):
        groups += [[a, b], [b, a]]
    groups += [[i, i] for i in r.sample(usable, min(len(usable), ctx.n(6, 40)))]      # the same value twice: two x.pe, two nodes
    rej = [t for c, t in cases if oracle_expect(t)[0] == "reject" and "\x00" not in t]
    rej_pick = [t for t in CORPUS if t in set(rej)] + r.sample(rej, min(len(rej), ctx.n(60, 600)))
    rej_pick = list(dict.fromkeys(rej_pick))
    tmp = tempfile.mkdtemp(prefix="c17-")
    try:
        def good(g):
            d = tempfile.mkdtemp(dir=tmp)
            with open(os.path.join(d, "f"), "wb") as f:
                f.write(b"hello\n")
            texts = [cases[i][1] for i in g]
            a1 = ["torrent", "create", "--input", "f", "--output", "o.torrent"] + sum((arg("--node", t) for t in texts), [])
            # other options of the same command do not change what a --node value becomes (seeded change C17-7: nodes
            # dropped when --private is given)
            extra = [[], [], ["--private", "--announce", "http://t.example/announce"], ["--md5"], ["--no-creation-date", "--comment", "c"],
                     ["--private", "--allow", "private-trackerless"]][zlib.crc32(" ".join(texts).encode("utf-8", "surrogateescape")) % 6]
            a1 += extra
            res = {"texts": texts, "create": ctx.imdl(a1, cwd=d), "argv": ["imdl"] + a1}
            p = os.path.join(d, "o.torrent")
            res["torrent"] = open(p, "rb").read() if os.path.exists(p) else None
            if res["torrent"] is not None:
                res["json"] = ctx.imdl(["torrent", "show", "--input", "o.torrent", "--json"], cwd=d)
                res["table"] = ctx.imdl(["torrent", "show", "--input", "o.torrent"], cwd=d)
                a4 = ["torrent", "link", "--input", "o.torrent"] + sum((arg("--peer", t) for t in texts), [])
                res["link"] = ctx.imdl(a4, cwd=d)
                res["argv_link"] = ["imdl"] + a4
                # the same command again with --force and only the nodes changed (reversed; or none at all): what is stored is what
                # THIS run was given (added after seeded change C17-11: an "output is up to date" shortcut that did not compare nodes)
                texts2 = list(reversed(texts)) if len(texts) > 1 and texts[0] != texts[-1] else []
                a5 = ["torrent", "create", "--force", "--input", "f", "--output", "o.torrent"] + sum((arg("--node", t) for t in texts2), []) + extra
                res["recreate"] = ctx.imdl(a5, cwd=d)
                res["recreate_reversed"] = bool(texts2)
                res["torrent2"] = open(p, "rb").read() if os.path.exists(p) else None
            return g, res

        def judge(g, res):
            """-> (list of complaints, case) for one create/show/link case"""
            texts = res["texts"]
            want_print = [printed[i] for i in g]
            want_pairs = [lib.bdecode_strict(stored[i])[0] for i in g]
            for n, i in enumerate(g):
                exp = oracle_expect(cases[i][1])
                if exp[0] == "accept":
                    want_print[n] = exp[1]
            rc, out, err = res["create"]
            case = {"nodes": texts, "argv": res["argv"], "reproduce": "echo hello > f; imdl torrent create --input f --output o.torrent " +
                    " ".join(shq(a) for a in res["argv"][7:]) + "; imdl torrent show --input o.torrent --json; " +
                    "imdl torrent link --input o.torrent " + " ".join(shq(a) for a in res.get("argv_link", [])[5:]),
                    "create_rc": rc, "create_stderr": err.decode("utf-8", "replace")[-400:], "expected_printed": want_print}
            if rc != 0 or res["torrent"] is None:
                return ["`create --node` rejected it (rc %d), although the parser accepts it" % rc], case
            bad = []
            try:
                v, end = lib.bdecode_strict(res["torrent"])
                nodes = lib.dget(v, "nodes")
            except Exception as e:
                nodes = repr(e)
            case["stored_nodes"] = nodes
            if nodes != want_pairs:
                bad.append("`nodes` in the written torrent is %r, expected %r" % (nodes, want_pairs))
            elif any(not same_host(p[0].decode("utf-8", "replace"), w.rpartition(":")[0]) or str(p[1]) != w.rpartition(":")[2]
                     for p, w in zip(nodes, want_print)):
                bad.append("`nodes` %r does not hold the hosts and ports %r" % (nodes, want_print))
            rc2, out2, _ = res["json"]
            try:
                shown = json.loads(out2.decode("utf-8"))["dht_nodes"] if rc2 == 0 else None
            except Exception:
                shown = None
            case["show_json_dht_nodes"] = shown
            if shown != want_print:
                bad.append("`show --json` dht_nodes is %r, expected %r" % (shown, want_print))
            rc3, out3, _ = res["table"]
            rows = [l.split("\t")[1:] for l in out3.decode("utf-8", "replace").splitlines() if l.lower().startswith("dht nodes\t")]
            case["show_table_dht_nodes"] = rows
            if rc3 != 0 or rows != [want_print]:
                bad.append("`show` prints DHT nodes %r, expected %r" % (rows, want_print))
            rc4, out4, err4 = res["link"]
            uri = out4.decode("utf-8", "replace").strip()
            case["magnet"] = uri
            for plus in (False, True):
                pe = magnet_values(uri, "x.pe", plus) if rc4 == 0 else None
                if pe != want_print:
                    bad.append("magnet x.pe values under a standard query parser (%s) are %r, expected %r"
                               % ("+ means space" if plus else "+ literal", pe, want_print))
                    break
            if "recreate" in res:
                try:
                    nodes2 = lib.dget(lib.bdecode_strict(res["torrent2"])[0], "nodes")
                except Exception as e:
                    nodes2 = repr(e)
                want2 = list(reversed(want_pairs)) if res["recreate_reversed"] else None
                if res["recreate"][0] != 0 or nodes2 != want2:
                    bad.append("a second `create --force` to the same output with the nodes %s (exit %d) left `nodes` = %r, expected %r"
                               % ("reversed" if res["recreate_reversed"] else "removed", res["recreate"][0], nodes2, want2))
            return bad, case

        for g, res in lib.pmap(good, groups):
            ctx.cov["evaluations"] += 1
            ctx.count("e2e_accept_cases")
            ctx.distinct(("e2e", tuple(cases[i][0] for i in g)))
            bad, case = judge(g, res)
            if bad and len(g) > 1:                      # shrink to one node when one node alone shows it
                for i in g:
                    b1, c1 = judge(*good([i]))
                    if b1:
                        g, bad, case = [i], b1, c1
                        break
            if bad:
                ctx.violation("oracle-failure", "nodes/peers %r: %s" % (case["nodes"], "; ".join(bad)), case)

        base = tempfile.mkdtemp(dir=tmp)
        with open(os.path.join(base, "f"), "wb") as f:
            f.write(b"hello\n")
        ctx.imdl(["torrent", "create", "--input", "f", "--output", "base.torrent"], cwd=base)

        def reject(t):
            d = tempfile.mkdtemp(dir=tmp)
            shutil.copy(os.path.join(base, "f"), d); shutil.copy(os.path.join(base, "base.torrent"), d)
            a = ctx.imdl(["torrent", "create", "--input", "f", "--output", "o.torrent"] + arg("--node", t), cwd=d)
            b = ctx.imdl(["torrent", "link", "--input", "base.torrent"] + arg("--peer", t), cwd=d)
            return t, a, b, sorted(os.listdir(d))

        for t, a, b, files in lib.pmap(reject, rej_pick):
            ctx.cov["evaluations"] += 1
            ctx.count("e2e_reject_cases")
            ctx.distinct(("e2e-reject", oracle_expect(t)[1][:24]))
            case = {"text": t, "why": oracle_expect(t)[1], "create_rc": a[0], "link_rc": b[0], "files": files,
                    "create_stderr": a[2].decode("utf-8", "replace")[-300:], "link_stdout": b[1].decode("utf-8", "replace")[-300:],
                    "reproduce": "imdl torrent create --input f --output o.torrent %s; imdl torrent link --input base.torrent %s"
                                 % (" ".join(shq(x) for x in arg("--node", t)), " ".join(shq(x) for x in arg("--peer", t)))}
            bad = []
            if a[0] == 0 or a[0] < 0 or a[0] == 101 or "o.torrent" in files:
                bad.append("`create --node` exit %d, o.torrent %s" % (a[0], "written" if "o.torrent" in files else "not written"))
            if b[0] == 0 or b[0] < 0 or b[0] == 101 or b[1].strip():
                bad.append("`link --peer` exit %d, stdout %r" % (b[0], b[1][:80]))
            if bad:
                ctx.violation("oracle-failure", "%r must be rejected at the command line (%s): %s" % (t, oracle_expect(t)[1], "; ".join(bad)), case)
    finally:
        shutil.rmtree(tmp, ignore_errors=True)


def e2e_reread(ctx, ub, impl_u, pu):
    """torrents written by hand whose `nodes` hold given pairs: `show --json` must print what re-reading gives,
    and must refuse (cleanly) a torrent with a pair that is refused"""
    r = ctx.rng
    def torrent(pairs_bencoded):
        info = b"d6:lengthi6e4:name1:f12:piece lengthi16384e6:pieces20:" + bytes(range(20)) + b"e"
        return b"d4:info" + info + b"5:nodesl" + b"".join(pairs_bencoded) + b"ee"
    def clean(b):
        try:
            v, end = lib.bdecode_strict(b)
            return end == len(b)
        except Exception:
            return False
    oks = [i for i in range(len(ub)) if pu[i] is not None and clean(ub[i][1])]
    errs = [i for i in range(len(ub)) if impl_u[i].startswith("ERR ") and clean(ub[i][1])]
    by = {}
    for i in oks:
        by.setdefault(ub[i][0], []).append(i)
    pick = sum((r.sample(v, min(len(v), ctx.n(12, 150))) for _, v in sorted(by.items())), [])
    r.shuffle(pick)
    groups = [pick[i:i + 3] for i in range(0, len(pick), 3)]
    bad_pick = r.sample(errs, min(len(errs), ctx.n(20, 200)))
    tmp = tempfile.mkdtemp(prefix="c17r-")
    try:
        def show(idx):
            d = tempfile.mkdtemp(dir=tmp)
            with open(os.path.join(d, "t.torrent"), "wb") as f:
                f.write(torrent([ub[i][1] for i in idx]))
            return idx, ctx.imdl(["torrent", "show", "--input", "t.torrent", "--json"], cwd=d)
        for idx, (rc, out, err) in lib.pmap(show, groups + [[i] for i in bad_pick]):
            ctx.cov["evaluations"] += 1
            pairs = [ub[i][1] for i in idx]
            case = {"nodes_bencode": [p.decode("latin-1") for p in pairs], "torrent_hex": torrent(pairs).hex(), "rc": rc,
                    "stdout": out.decode("utf-8", "replace")[:600], "stderr": err.decode("utf-8", "replace")[-300:],
                    "reproduce": "echo %s | xxd -r -p > t.torrent; imdl torrent show --input t.torrent --json" % torrent(pairs).hex()}
            if all(pu[i] is not None for i in idx):
                ctx.count("e2e_reread_accept_cases")
                try:
                    shown = json.loads(out.decode("utf-8"))["dht_nodes"] if rc == 0 else None
                except Exception:
                    shown = None
                if shown != [pu[i] for i in idx]:
                    ctx.violation("oracle-failure", "a torrent whose `nodes` are %r is shown with dht_nodes %r (rc %d), but re-reading those pairs gives %r"
                                  % (pairs, shown, rc, [pu[i] for i in idx]), case)
            else:
                ctx.count("e2e_reread_reject_cases")
                if rc == 0 or rc < 0 or rc == 101:
                    ctx.violation("oracle-failure", "a torrent whose `nodes` hold the unreadable pair %r: `show` exit %d" % (pairs, rc), case)
    finally:
        shutil.rmtree(tmp, ignore_errors=True)


def finish(ctx):
    ctx.assumptions += [
        "Model/UrlHost.v is url 2.5.2 Host::parse / parse_ipv4addr / parse_ipv6addr / write_ipv6 and core's Display for Ipv4Addr / Ipv6Addr "
        "on the fragment (compared with the crate on every in-fragment host text of this run: kind, address, std text, Host Display); outside "
        "the fragment (non-ASCII text, % escapes, xn-- labels) Host::parse is only assumed to satisfy ext_lib (print/parse, no IPv6 without "
        "brackets, domain shape, forbidden code points refused)",
        "url_lib (hypotheses of the c17_* theorems that are stated for an arbitrary library; proved for the concrete model by "
        "c17_library_hypotheses_proved; each also validated on every host text of this run through the host_parse hook): "
        "Host::parse reads back what Host prints as the same value; it reads the std IPv6 text in brackets as the same address; parsed "
        "domains are non-empty and free of forbidden code points; IPv4/IPv6 texts consist of digits/dots resp. lower-case hex/colons/dots "
        "and an IPv6 text contains a colon; the empty host and every unbracketed host with a forbidden code point (C0, space, # / : < > ? @ "
        "[ \\ ] ^ | DEL) are refused",
        "regex \\d+ accepts every non-empty ASCII digit string and nothing containing an ASCII non-digit (nd_ascii, nd_bytes; exercised through hpparse)",
        "`hparse` stands for str::from_utf8 followed by url::Host::parse (url 2.5.2); bendy's tokens are as in Model/Bencode.v",
        "value identity of a stored IPv6 text and a printed one is judged by python's ipaddress module",
    ]
    return ctx.finish(
        rule="texts: regression corpus (unit-test and --help examples, every edge found by hand) then seeded domains (case, punycode, "
             "numeric-looking labels, trailing dot, IDN, characters that are legal in hosts but reserved in URLs), IPv4 (dotted and the "
             "short/hex/octal forms), IPv6 in brackets (random zero runs, partial compression, upper case, padded groups, IPv4 tails, "
             "mapped/compatible/NAT64) and without, ports {0,1,080,65535,leading zeros, 65536, 99999, empty, sign, spaces, unicode digits, "
             "huge}, and a malformed stream (no colon, bracket edges, forbidden characters, newlines, 1-3 random edits of valid texts, "
             "symbol soup); host texts for the concrete url-crate model: IPv4 in every spelling (decimal/hex/octal parts, 1-5 parts, last part "
             "filling the rest, trailing dots, overflow edges 255/256, 0xffffffff, 4294967296), IPv6 (all 256 zero patterns x every sub-run "
             "compressed, canonical and full forms, upper case, padded groups, IPv4 tails in every position, too many groups, `:::`, edits), "
             "ASCII domains (every ASCII character, digit-only / 0x labels, `_`, hyphens, trailing dots; xn-- / % / non-ASCII counted as "
             "unmodelled); stored pairs written by imdl plus mutated ones (port range, arity, kinds, brackets, byte flips, truncation); "
             "a case is distinct/non-trivial by (generator class, outcome, host kind, port at a bound, port renormalised)",
        trusted_base=["Coq 8.16.1 kernel (coqc)", "tools/rs2v_hostport.py (GenHostPort)",
                      "extraction with ExtrOcamlBasic + runner/driver.d/hostport.ml (table-driven library parameters, regex-syntax Nd table) "
                      "+ runner/driver.d/urlhost.ml (the concrete url-crate model)",
                      "Rust hooks hostport_parse / hostport_to_bencode / hostport_from_bencode / host_parse + harness line protocol",
                      "Python oracle in tools/props/c17.py (ipaddress, urllib.parse, lib.bdecode_strict)"],
    )


def replay(ctx, path):
    case = json.load(open(path))["case"]
    ctx.need_rust(); ctx.need_runner()
    H = HostOracle(ctx)
    if "text_hex" in case:
        b = lib.unhex(case["text_hex"]) if "text_hex" in case else case["text"].encode()
        H.ask(candidates_for_text(b))
        print("impl  parse  :", ctx.harness(["hpparse " + lib.hexs(b)])[0])
        print("impl  bencode:", ctx.harness(["hpben " + lib.hexs(b)])[0])
        print("model        :", ctx.model(["hp_parse %s %s" % (lib.hexs(b), H.table(candidates_for_text(b)))])[0])
        print("oracle       :", oracle_expect(b.decode("utf-8", "replace")))
    elif "bencode_hex" in case:
        b = lib.unhex(case["bencode_hex"])
        H.ask(candidates_for_bencode(b))
        print("impl  :", ctx.harness(["hpunben " + lib.hexs(b)])[0])
        print("model :", ctx.model(["hp_unben %s %s" % (lib.hexs(b), H.table(candidates_for_bencode(b)))])[0])
    elif "host_text" in case:
        t = case["host_text"]
        t = bytes.fromhex(t["hex"]) if isinstance(t, dict) else t.encode()
        print("impl  :", ctx.harness(["hostparse " + lib.hexs(t)])[0])
        print("model :", ctx.model(["u_hparse " + lib.hexs(t)])[0])
    elif "nodes" in case or "why" in case or "torrent_hex" in case:
        d = tempfile.mkdtemp(prefix="c17-replay-")
        try:
            with open(os.path.join(d, "f"), "wb") as f:
                f.write(b"hello\n")
            def show(args):
                rc, out, err = ctx.imdl(args, cwd=d)
                print("$ imdl " + " ".join(shq(a) for a in args)); print("  rc=%d stdout=%r stderr=%r" % (rc, out[:600], err[-300:]))
            if "torrent_hex" in case:
                open(os.path.join(d, "t.torrent"), "wb").write(bytes.fromhex(case["torrent_hex"]))
                show(["torrent", "show", "--input", "t.torrent", "--json"])
            else:
                texts = case.get("nodes") or [case["text"]]
                show(["torrent", "create", "--input", "f", "--output", "o.torrent"] + sum((arg("--node", t) for t in texts), []))
                if os.path.exists(os.path.join(d, "o.torrent")):
                    print("  nodes:", lib.dget(lib.bdecode_strict(open(os.path.join(d, "o.torrent"), "rb").read())[0], "nodes"))
                    show(["torrent", "show", "--input", "o.torrent", "--json"])
                else:
                    ctx.imdl(["torrent", "create", "--input", "f", "--output", "o.torrent"], cwd=d)
                show(["torrent", "link", "--input", "o.torrent"] + sum((arg("--peer", t) for t in texts), []))
                for t in texts:
                    print("oracle %r: %r" % (t, oracle_expect(t)))
        finally:
            shutil.rmtree(d, ignore_errors=True)
    else:
        print(json.dumps(case, indent=1)[:4000])
        print("reproduce:", case.get("reproduce"))
    return 0
