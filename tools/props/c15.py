"""C15 — automatic piece length is a sane power of two and never decreases.

Obligations: coq/Properties/C15.v (float path = ideal on all u64, bounds, monotone, closed
form, published table regenerated from the book, constants regenerated from the source).
Correspondence: `pick_piece_length` hook vs extracted `Picker.pick` vs a direct oracle of the
property's own words; the real binary's `torrent piece-length` table and `create` on sparse files."""
import os, re, shutil, tempfile
import lib

MANIFEST = dict(
    text="Machine-checked proof over the picker model for all 2^64 sizes (float path = ideal arithmetic under an explicit libm "
         "hypothesis, power of two, bounds, monotone, closed form, published table regenerated from the book, constants regenerated "
         "from the source), tied to the code by the translator and a hook/binary correspondence run. Right level: the property "
         "quantifies over 2^64 inputs and a float edge region that sampling cannot settle.",
    ref="DESIGN.md section 5, C15",
    technique="Coq proof over a Gallina model + translator-generated tables + model/implementation correspondence run",
    note="Assumed: libm log2 accuracy as stated by cl_ok (validated through the hook); round53 as defined in Model/Float53.v. "
         "Trusted: Coq kernel, tools/rs2v.py, extraction (ExtrOcamlBasic), hook + harness, Python oracle.")

KIB, MIB = 1 << 10, 1 << 20
U64 = (1 << 64) - 1


def spec_at_pow2(k):
    """the published rule, in the property's own words"""
    if k <= 21:
        return 16 * KIB
    if k >= 40:
        return 16 * MIB
    # doubling with every fourfold growth above 2 MiB = 2^21
    return (16 * KIB) << ((k - 20) // 2)


def gen_points(ctx):
    pts = {0, 1, 2, 3, U64, U64 - 1}
    for k in range(0, 65):
        b = 1 << k
        for d in (0, 1, -1, 2, -2):
            pts.add(b + d)
        for sh in (52, 53, 54):
            if k - sh >= 0:
                u = 1 << (k - sh)
                for m in (1, -1, 2, -2, 3, -3):
                    pts.add(b + m * u); pts.add(b + m * u + 1); pts.add(b + m * u - 1)
    r = ctx.rng
    for _ in range(ctx.n(1500, 400000)):
        k = r.randrange(0, 65)
        pts.add(r.getrandbits(k) if k else 0)
    for _ in range(ctx.n(500, 100000)):
        k = r.randrange(1, 65)
        pts.add(((1 << k) - 1) - r.getrandbits(max(0, k - 8)) % (1 << max(1, k - 4)) if k > 8 else r.getrandbits(k))
    return sorted(p for p in pts if 0 <= p <= U64)


def parse_size(t):
    m = re.fullmatch(r"\s*([0-9.]+) (\w+)\s*", t)
    mult = {"byte": 1, "bytes": 1, "KiB": KIB, "MiB": MIB, "GiB": 1 << 30, "TiB": 1 << 40, "PiB": 1 << 50, "EiB": 1 << 60}[m.group(2)]
    v = float(m.group(1)) * mult
    return int(v) if v == int(v) else None


def run(ctx):
    ctx.need_coq()
    if not ctx.need_rust() or not ctx.need_runner():
        return finish(ctx)
    pts = gen_points(ctx)
    impl = ctx.harness(["pick %d" % p for p in pts])
    model = ctx.model(["pick %d" % p for p in pts])
    prev = None
    for p, i, m in zip(pts, impl, model):
        ctx.cov["evaluations"] += 1
        ctx.cov["traces_validated_against_impl"] += 1
        case = {"content_size": p, "impl": i, "model": m,
                "reproduce": "printf 'pick %d\\n' | .cache/target/debug/imdl-verif-harness" % p}
        if not i.startswith("OK "):
            ctx.violation("oracle-failure", "picker did not return normally for content size %d: %s" % (p, i), case)
            continue
        v = int(i[3:])
        ctx.distinct((v, p.bit_length()))
        ctx.count("picked_%d" % v)
        bad = []
        if v & (v - 1) or v == 0:
            bad.append("not a power of two")
        if not (16 * KIB <= v <= 16 * MIB):
            bad.append("outside [16 KiB, 16 MiB]")
        if prev is not None and v < prev[1]:
            bad.append("decreases: size %d gave %d but larger size %d gives %d" % (prev[0], prev[1], p, v))
        if p > 0 and p & (p - 1) == 0 and v != spec_at_pow2(p.bit_length() - 1):
            bad.append("differs from the published rule at 2^%d (expected %d)" % (p.bit_length() - 1, spec_at_pow2(p.bit_length() - 1)))
        if bad:
            ctx.violation("oracle-failure", "content size %d -> piece length %d: %s" % (p, v, "; ".join(bad)), case)
        elif i != m:
            ctx.cov["disagreements_checked"] += 1
            ctx.violation("model-impl-disagreement",
                          "Picker.pick and PieceLengthPicker::from_content_size differ at %d (impl %s, model %s); "
                          "the property's own conditions hold there" % (p, i, m), case)
        prev = (p, v)
    ctx.sample({"content_size": pts[len(pts) // 2], "impl": impl[len(pts) // 2], "model": model[len(pts) // 2]})
    ctx.sample({"content_size": U64, "impl": impl[-1], "model": model[-1]})

    # the real binary: `torrent piece-length` prints the table
    rc, out, err = ctx.imdl(["torrent", "piece-length"])
    ctx.cov["evaluations"] += 1
    rows = []
    case = {"argv": ["imdl", "torrent", "piece-length"], "rc": rc, "stdout": out.decode("utf-8", "replace"), "stderr": err.decode("utf-8", "replace")}
    if rc != 0:
        ctx.violation("oracle-failure", "`imdl torrent piece-length` exited %d" % rc, case)
    else:
        for line in out.decode().splitlines()[1:]:
            m = re.fullmatch(r"(.+?)\s*->\s*(.+?)\s+x\s+(\d+)\s*=\s*(.+?)\s*", line)
            if not m:
                ctx.violation("oracle-failure", "unparseable table row %r" % line, case); break
            rows.append((parse_size(m.group(1)), parse_size(m.group(2)), int(m.group(3))))
        book = book_rows()
        want = [(1 << k, spec_at_pow2(k)) for k in range(14, 51)]
        if [(c, p) for c, p, _ in rows] != want:
            ctx.violation("oracle-failure", "`torrent piece-length` does not print the published rule for 2^14..2^50", case)
        elif book is not None and [(c, p) for c, p, _ in rows] != [(c, p) for c, p, _ in book]:
            ctx.violation("oracle-failure", "`torrent piece-length` output differs from the table published in the book", dict(case, book=book))
        ctx.count("table_rows", len(rows))
        ctx.sample({"piece-length table row": rows[10] if len(rows) > 10 else None})

    # the real binary: create on sparse files around the boundaries reads back the picked length
    sizes = [0, 1, 2 * MIB, 2 * MIB + 1, 4 * MIB, 4 * MIB + 1, 8 * MIB + 1]
    if ctx.thorough:
        sizes += [16 * MIB, 16 * MIB + 1, 32 * MIB + 1, 64 * MIB, 64 * MIB + 1, 256 * MIB + 1]
    tmp = tempfile.mkdtemp(prefix="c15-")
    try:
        def one(sz):
            d = tempfile.mkdtemp(dir=tmp)
            with open(os.path.join(d, "f"), "wb") as f:
                f.truncate(sz)
            rc, out, err = ctx.imdl(["torrent", "create", "--input", "f", "--output", "-"], cwd=d, timeout=600)
            return sz, rc, out, err
        for sz, rc, out, err in lib.pmap(one, sizes):
            ctx.cov["evaluations"] += 1
            case = {"argv": "truncate -s %d f; imdl torrent create --input f --output -" % sz, "rc": rc,
                    "stderr": err.decode("utf-8", "replace")[-500:]}
            if rc != 0:
                ctx.violation("oracle-failure", "create without --piece-length was rejected for a %d-byte file (rc %d)" % (sz, rc), case)
                continue
            try:
                v, _ = lib.bdecode_strict(out)
                pl = lib.dget(lib.dget(v, "info"), "piece length")
            except Exception as e:
                ctx.violation("oracle-failure", "create output undecodable for a %d-byte file: %r" % (sz, e), case); continue
            x = max(sz, 1)
            k = (x - 1).bit_length()
            want = min(max(1 << (k // 2 + 4), 16 * KIB), 16 * MIB)
            ctx.distinct(("create", sz))
            if pl != want or pl & (pl - 1):
                ctx.violation("oracle-failure", "create on a %d-byte file recorded piece length %r, expected %d" % (sz, pl, want), dict(case, piece_length=pl))
        ctx.count("create_on_sparse_files", len(sizes))
        create_on_trees(ctx, tmp)
        create_with_other_options(ctx, tmp)
        create_on_huge_content(ctx, tmp)
        create_with_unreadable_member(ctx, tmp)
    finally:
        shutil.rmtree(tmp, ignore_errors=True)
    return finish(ctx)


def oracle_pick(sz):
    k = (max(sz, 1) - 1).bit_length()
    return min(max(1 << (k // 2 + 4), 16 * KIB), 16 * MIB)


def create_on_trees(ctx, tmp):
    """The size that decides is the size of the files that END UP in the torrent: files left out by --glob, junk names and
    hidden files do not count, and a symlinked input counts with the size of what it points at (added after seeded
    changes C15-4: filtered files counted; C15-5: a symlink root sized by the link itself)."""
    def mk(path, size):
        os.makedirs(os.path.dirname(path), exist_ok=True)
        with open(path, "wb") as f:
            f.truncate(size)

    def picked(out):
        try:
            v, _ = lib.bdecode_strict(out)
            return lib.dget(lib.dget(v, "info"), "piece length")
        except Exception:
            return None
    trees = [
        ("glob-excluded file crosses a step", [("d/keep.bin", 1 * MIB), ("d/skip.iso", 4 * MIB)], ["--glob", "!*.iso"], 1 * MIB),
        ("junk file crosses a step", [("d/keep.bin", 2 * MIB), ("d/Thumbs.db", 1)], [], 2 * MIB),
        ("hidden file crosses a step", [("d/keep.bin", 2 * MIB), ("d/.hidden", 5)], [], 2 * MIB),
        ("everything included", [("d/a.bin", 2 * MIB), ("d/sub/b.bin", 6 * MIB + 1)], [], 8 * MIB + 1),
        ("included junk and hidden", [("d/keep.bin", 2 * MIB), ("d/Thumbs.db", 1), ("d/.h", 1)], ["--include-junk", "--include-hidden"], 2 * MIB + 2),
        ("two files exactly on the step", [("d/a.bin", 1 * MIB), ("d/b.bin", 1 * MIB)], [], 2 * MIB),
    ]
    for label, files, extra, counted in trees:
        d = tempfile.mkdtemp(dir=tmp)
        for rel, size in files:
            mk(os.path.join(d, rel), size)
        rc, out, err = ctx.imdl(["torrent", "create", "--input", "d", "--output", "-"] + extra, cwd=d, timeout=300)
        ctx.cov["evaluations"] += 1
        ctx.count("create_on_trees")
        ctx.distinct(("create-tree", label))
        pl, want = picked(out) if rc == 0 else None, oracle_pick(counted)
        if pl != want:
            ctx.violation("oracle-failure",
                          "create on a tree (%s): the files in the torrent hold %d bytes, recorded piece length %r (rc %d), expected %d"
                          % (label, counted, pl, rc, want),
                          {"kind": "create-tree", "label": label, "files": files, "argv": ["imdl", "torrent", "create", "--input", "d", "--output", "-"] + extra,
                           "counted_bytes": counted, "expected": want, "rc": rc, "stderr": err.decode("utf-8", "replace")[-300:]})
        shutil.rmtree(d, ignore_errors=True)
    # several names of one inode: every listed file counts with its length, however many of them share their blocks (added after
    # seeded change C15-19: hard links counted once "like du" when the total is measured, yet all of them listed and hashed)
    for nlinks, size in ((4, 2 * MIB), (2, 1 * MIB + 1), (3, 700 * KIB)):
        d = tempfile.mkdtemp(dir=tmp)
        mk(os.path.join(d, "d", "orig.bin"), size)
        for i in range(1, nlinks):
            os.makedirs(os.path.join(d, "d", "sub%d" % (i % 2)), exist_ok=True)
            os.link(os.path.join(d, "d", "orig.bin"), os.path.join(d, "d", "sub%d" % (i % 2), "link%d.bin" % i))
        rc, out, err = ctx.imdl(["torrent", "create", "--input", "d", "--output", "-"], cwd=d, timeout=300)
        ctx.cov["evaluations"] += 1
        ctx.count("create_on_trees")
        ctx.distinct(("create-hardlinks", nlinks, size))
        pl, want = picked(out) if rc == 0 else None, oracle_pick(nlinks * size)
        if pl != want:
            ctx.violation("oracle-failure", "create on a tree of %d hard links to one %d-byte file: the torrent lists %d bytes, recorded piece length %r "
                          "(rc %d), expected %d" % (nlinks, size, nlinks * size, pl, rc, want),
                          {"kind": "create-hardlinks", "links": nlinks, "size": size, "rc": rc, "stderr": err.decode("utf-8", "replace")[-300:],
                           "reproduce": "mkdir -p d/sub0 d/sub1; truncate -s %d d/orig.bin; ln d/orig.bin d/sub1/link1.bin; ...; imdl torrent create --input d --output - | head -c 300" % size})
        shutil.rmtree(d, ignore_errors=True)

    def recorded(out):
        """(piece length, total of the listed lengths) of a written torrent"""
        try:
            v, _ = lib.bdecode_strict(out)
            info = lib.dget(v, "info")
            fl = lib.dget(info, "files")
            total = lib.dget(info, "length") if fl is None else sum(lib.dget(f, "length") for f in fl)
            return lib.dget(info, "piece length"), total
        except Exception:
            return None, None

    # a symlinked MEMBER followed with --follow-symlinks counts with the size of its target (seeded change C15-8)
    d = tempfile.mkdtemp(dir=tmp)
    mk(os.path.join(d, "in", "small.bin"), 1000)
    mk(os.path.join(d, "elsewhere", "big.bin"), 5 * MIB)
    os.symlink(os.path.join("..", "elsewhere", "big.bin"), os.path.join(d, "in", "link.bin"))
    for extra, counted in ((["--follow-symlinks"], 5 * MIB + 1000), ([], 1000)):
        rc, out, err = ctx.imdl(["torrent", "create", "--input", "in", "--output", "-"] + extra, cwd=d, timeout=300)
        ctx.cov["evaluations"] += 1
        ctx.count("create_on_trees")
        ctx.distinct(("create-symlinked-member", tuple(extra)))
        pl, total = recorded(out) if rc == 0 else (None, None)
        if pl != oracle_pick(counted) or total != counted:
            ctx.violation("oracle-failure",
                          "create %s on a directory holding a 1000-byte file and a link to a 5 MiB file: recorded piece length %r for %r "
                          "listed bytes (rc %d), expected %d for %d" % (" ".join(extra) or "(links not followed)", pl, total, rc, oracle_pick(counted), counted),
                          {"kind": "create-symlinked-member", "argv_extra": extra, "rc": rc, "stderr": err.decode("utf-8", "replace")[-300:]})
    shutil.rmtree(d, ignore_errors=True)
    # forced re-creation onto a torrent that lies INSIDE the input directory: the piece length belongs to the content the new
    # torrent records, whatever stood at the output path when the tree was measured (seeded change C15-7)
    d = tempfile.mkdtemp(dir=tmp)
    mk(os.path.join(d, "in", "payload.bin"), 2 * MIB - 100)
    argv = ["torrent", "create", "--input", "in", "--output", "in/self.torrent"]
    rc1, _, err1 = ctx.imdl(argv, cwd=d, timeout=300)
    rc2, _, err2 = ctx.imdl(argv + ["--force"], cwd=d, timeout=300)
    ctx.cov["evaluations"] += 1
    ctx.count("create_on_trees")
    ctx.distinct(("create-force-inside-input",))
    try:
        pl, total = recorded(open(os.path.join(d, "in", "self.torrent"), "rb").read())
    except OSError:
        pl, total = None, None
    if rc1 != 0 or rc2 != 0 or pl is None or pl != oracle_pick(total):
        ctx.violation("oracle-failure",
                      "create --force onto a torrent inside its own input directory (exit %d then %d): recorded piece length %r for %r listed "
                      "bytes, the published rule gives %r" % (rc1, rc2, pl, total, None if total is None else oracle_pick(total)),
                      {"kind": "create-force-inside-input", "argv": ["imdl"] + argv + ["--force"], "stderr": err2.decode("utf-8", "replace")[-300:]})
    shutil.rmtree(d, ignore_errors=True)
    # standard input: the size is not known in advance, the automatic choice is still a power of two within the documented
    # bounds (seeded change C15-9: a kib / mib slip in the default)
    for n in (0, 5, 3 * MIB):
        d = tempfile.mkdtemp(dir=tmp)
        rc, out, err = ctx.imdl(["torrent", "create", "--input", "-", "--name", "n", "--output", "-"], cwd=d, stdin=b"x" * n, timeout=300)
        ctx.cov["evaluations"] += 1
        ctx.count("create_from_stdin_automatic")
        ctx.distinct(("create-stdin", n))
        pl, total = recorded(out) if rc == 0 else (None, None)
        if pl is None or pl & (pl - 1) or not (16 * KIB <= pl <= 16 * MIB) or total != n:
            ctx.violation("oracle-failure",
                          "create from standard input (%d bytes) without --piece-length: recorded piece length %r (rc %d); an automatic choice "
                          "is a power of two between 16 KiB and 16 MiB" % (n, pl, rc),
                          {"kind": "create-stdin", "bytes": n, "rc": rc, "stderr": err.decode("utf-8", "replace")[-300:]})
        shutil.rmtree(d, ignore_errors=True)
    for size in (2 * MIB, 4 * MIB, 8 * MIB + 1, 32 * MIB):
        d = tempfile.mkdtemp(dir=tmp)
        mk(os.path.join(d, "real", "payload.bin"), size)
        os.symlink(os.path.join("real", "payload.bin"), os.path.join(d, "link.bin"))
        os.symlink("real", os.path.join(d, "linkdir"))
        for inp in ("link.bin", "linkdir"):
            rc, out, err = ctx.imdl(["torrent", "create", "--follow-symlinks", "--input", inp, "--output", "-"], cwd=d, timeout=300)
            ctx.cov["evaluations"] += 1
            ctx.count("create_on_symlinked_input")
            ctx.distinct(("create-symlink", inp, size))
            pl, want = picked(out) if rc == 0 else None, oracle_pick(size)
            if pl != want:
                ctx.violation("oracle-failure",
                              "create --follow-symlinks --input %s (a symlink to %d bytes): recorded piece length %r (rc %d), expected %d"
                              % (inp, size, pl, rc, want),
                              {"kind": "create-symlink", "input": inp, "size": size, "expected": want, "rc": rc,
                               "stderr": err.decode("utf-8", "replace")[-300:]})
        shutil.rmtree(d, ignore_errors=True)


HARMLESS_OPTIONS = (["--allow", "small-piece-length"], ["-A", "small-piece-length"], ["--allow", "uneven-piece-length"],
                    ["--allow", "private-trackerless", "--private"], ["--md5"], ["--no-created-by", "--no-creation-date"],
                    ["--comment", "c", "--source", "s"], ["--announce", "udp://t.example:1/announce", "--private"],
                    ["--sort-by", "size"], ["--name", "n"], ["--include-hidden", "--include-junk"], ["--follow-symlinks"],
                    ["--allow", "small-piece-length", "--allow", "uneven-piece-length", "--allow", "private-trackerless"],
                    ["--peer", "1.2.3.4:5", "--link"], ["--show"], ["--dry-run"])


def create_with_other_options(ctx, tmp):
    """The automatic choice depends on the content size and on nothing else: every option of `create` that is not
    --piece-length - in particular the --allow switches of the piece-length lints - leaves it alone (added after seeded
    change C15-12: `--allow small-piece-length` lifted the 16 KiB floor for small content)."""
    r = ctx.rng
    sizes = [0, 1, 1000, 16 * KIB, 100 * KIB, 512 * KIB, 512 * KIB + 1, 3 * MIB, 9 * MIB]
    jobs = [(sz, opt) for opt in HARMLESS_OPTIONS for sz in r.sample(sizes, ctx.n(3, 9))]
    jobs += [(sz, ["--allow", "small-piece-length"]) for sz in sizes]

    def one(job):
        sz, opt = job
        d = tempfile.mkdtemp(dir=tmp)
        os.makedirs(os.path.join(d, "in", "sub"))
        with open(os.path.join(d, "in", "a.bin"), "wb") as f:
            f.truncate(sz // 2)
        with open(os.path.join(d, "in", "sub", "b.bin"), "wb") as f:
            f.truncate(sz - sz // 2)
        single = (sz % 3 == 1)
        inp = "in/sub/b.bin" if single else "in"
        argv = ["torrent", "create", "--input", inp, "--output", "o.torrent"] + list(opt)
        rc, out, err = ctx.imdl(argv, cwd=d, timeout=300)
        data = None
        if "--dry-run" not in opt:
            try:
                data = open(os.path.join(d, "o.torrent"), "rb").read()
            except OSError:
                pass
        shutil.rmtree(d, ignore_errors=True)
        return sz - sz // 2 if single else sz, opt, argv, rc, data, err

    for counted, opt, argv, rc, data, err in lib.pmap(one, jobs):
        ctx.cov["evaluations"] += 1
        ctx.count("create_with_other_options")
        ctx.distinct(("create-options", tuple(opt), counted))
        case = {"kind": "create-options", "argv": ["imdl"] + argv, "content_bytes": counted, "rc": rc, "stderr": err.decode("utf-8", "replace")[-300:]}
        if rc != 0:
            ctx.violation("oracle-failure", "create without --piece-length but with %s was rejected for %d bytes of content (rc %d)"
                          % (" ".join(opt), counted, rc), case)
            continue
        if data is None:
            continue
        try:
            v, _ = lib.bdecode_strict(data)
            pl = lib.dget(lib.dget(v, "info"), "piece length")
        except Exception as e:
            ctx.violation("oracle-failure", "create output undecodable: %r" % e, case); continue
        if pl != oracle_pick(counted):
            ctx.violation("oracle-failure", "create %s on %d bytes of content recorded piece length %r; the automatic choice is %d whatever "
                          "else is on the command line" % (" ".join(opt), counted, pl, oracle_pick(counted)), dict(case, piece_length=pl))


def create_on_huge_content(ctx, tmp):
    """Content far beyond anything that can be hashed here: sparse files adding up to tens of TiB and more. A file already
    lies at the output path, so the unchanged create stops with "output exists" - after the lints, before any hashing. What
    must not happen is a rejection by a piece-length lint: the automatic choice is never rejected, at any size (added after
    seeded change C15-10: a piece-count bound inside the small-piece-length lint, reached above 32 TiB)."""
    TIB = 1 << 40
    plans = [("33TiB", 33 * TIB), ("100TiB", 100 * TIB), ("1PiB+1", 1024 * TIB + 1), ("7EiB", 7 << 60)]
    for label, total in plans:
        d = tempfile.mkdtemp(dir=tmp)
        os.makedirs(os.path.join(d, "in"))
        made, i, per = 0, 0, 8 * TIB
        try:
            while made < total and i < 4096:
                n = min(per, total - made)
                try:
                    with open(os.path.join(d, "in", "f%04d" % i), "wb") as f:
                        f.truncate(n)
                except OSError:
                    if per <= (1 << 30):
                        raise
                    per //= 2          # the file system's largest file is smaller: use more files
                    continue
                made += n; i += 1
        except OSError:
            pass
        if made < total:
            ctx.count("create_on_huge_content_skipped_" + label)
            shutil.rmtree(d, ignore_errors=True)
            continue
        open(os.path.join(d, "in.torrent"), "wb").write(b"occupied")
        rc, out, err = ctx.imdl(["torrent", "create", "--input", "in"], cwd=d, timeout=300)
        text = err.decode("utf-8", "replace")
        ctx.cov["evaluations"] += 1
        ctx.count("create_on_huge_content")
        ctx.distinct(("create-huge", label))
        untouched = open(os.path.join(d, "in.torrent"), "rb").read() == b"occupied"
        shutil.rmtree(d, ignore_errors=True)
        low = text.lower()
        if rc != 1 or not untouched or "--allow" in low or "piece length" in low or "piece-length" in low or "exists" not in low:
            ctx.violation("oracle-failure",
                          "create without --piece-length on %s of (sparse) content in %d files, output path occupied: expected the refusal "
                          "`output exists` (exit 1) and no word about piece lengths; got exit %d, stderr %r" % (label, i, rc, text[-300:]),
                          {"kind": "create-huge", "total_bytes": total, "files": i, "rc": rc, "stderr": text[-400:],
                           "argv": "mkdir in; truncate -s ... in/f*; echo occupied > in.torrent; imdl torrent create --input in"})


def create_with_unreadable_member(ctx, tmp):
    """A member the user may stat but not open (mode 000 / another owner), big enough to move the total across a step of the
    table: create either fails, or whatever torrent it writes has the piece length that belongs to the content it lists
    (added after seeded change C15-11: the unreadable file was skipped after the piece length had been picked from the
    walker's stat-based total). Needs an unprivileged user: run through setpriv as uid 65534 when this process is root."""
    if not lib.can_drop_privileges():
        ctx.count("create_unreadable_member_skipped"); return
    base = tempfile.mkdtemp(prefix="c15u-", dir="/tmp" if os.path.isdir("/tmp") else None)
    try:
        os.chmod(base, 0o755)
        if ctx.imdl(["--version"], cwd=base, as_nobody=True)[0] != 0:
            ctx.count("create_unreadable_member_skipped"); return
        for small, big in ((1 * MIB, 31 * MIB), (1000, 3 * MIB), (2 * MIB, 7 * MIB)):
            d = tempfile.mkdtemp(dir=base)
            os.makedirs(os.path.join(d, "in"))
            os.makedirs(os.path.join(d, "out"))
            for dp in (d, os.path.join(d, "in")):
                os.chmod(dp, 0o755)
            os.chmod(os.path.join(d, "out"), 0o777)
            with open(os.path.join(d, "in", "readable.bin"), "wb") as f:
                f.truncate(small)
            with open(os.path.join(d, "in", "locked.bin"), "wb") as f:
                f.truncate(big)
            os.chmod(os.path.join(d, "in", "readable.bin"), 0o644)
            os.chmod(os.path.join(d, "in", "locked.bin"), 0o000)
            rc, out, err = ctx.imdl(["torrent", "create", "--input", "in", "--output", "out/o.torrent"], cwd=d, timeout=300, as_nobody=True)
            ctx.cov["evaluations"] += 1
            ctx.count("create_with_unreadable_member")
            ctx.distinct(("create-unreadable", small, big))
            try:
                data = open(os.path.join(d, "out", "o.torrent"), "rb").read()
            except OSError:
                data = None
            if data is not None:
                try:
                    v, _ = lib.bdecode_strict(data)
                    info = lib.dget(v, "info")
                    fl = lib.dget(info, "files")
                    total = lib.dget(info, "length") if fl is None else sum(lib.dget(f, "length") for f in fl)
                    pl = lib.dget(info, "piece length")
                except Exception:
                    total, pl = None, None
                if total is None or pl != oracle_pick(total):
                    ctx.violation("oracle-failure",
                                  "create (as uid 65534) on a directory with a readable %d-byte file and an unreadable %d-byte file wrote a "
                                  "torrent listing %r bytes with piece length %r; the automatic choice for what it lists is %r"
                                  % (small, big, total, pl, None if total is None else oracle_pick(total)),
                                  {"kind": "create-unreadable", "readable": small, "unreadable": big, "rc": rc, "stderr": err.decode("utf-8", "replace")[-300:]})
            elif rc == 0:
                ctx.violation("oracle-failure", "create exited 0 without writing its output", {"kind": "create-unreadable", "rc": rc})
    finally:
        shutil.rmtree(base, ignore_errors=True)


def book_rows():
    p = os.path.join(lib.COQ, "Generated", "GenBook.v")
    rows = [tuple(int(x) for x in m.groups()) for m in re.finditer(r"\((\d+), (\d+), (\d+)\)", open(p).read())]
    return rows or None


def finish(ctx):
    ctx.assumptions += [
        "libm log2 followed by ceil on integer-valued doubles satisfies cl_ok (exact at powers of two; within one of the "
        "true ceiling elsewhere and exact below 2^41) - a hypothesis of c15_float_path_is_ideal, exercised here through the hook",
        "round53 (u64 as f64) is round-to-nearest-even as defined in Model/Float53.v",
    ]
    return ctx.finish(
        rule="points: every 2^k (k=0..64), +-1, +-2, +-{1,2,3} ulps of the binary64 spacing at 2^k (k-52..k-54), 0, 1, 2^64-1 and "
             "seeded random values of every bit length, sorted so that monotonicity is checked on consecutive pairs; a case is "
             "distinct/non-trivial by (picked length, bit length of the size); plus the binary's table and create on sparse files",
        trusted_base=["Coq 8.16.1 kernel (coqc), vm_compute for the finite table", "tools/rs2v.py (GenBook, GenPicker)",
                      "extraction with ExtrOcamlBasic + runner/driver.ml", "Rust hook pick_piece_length + harness line protocol",
                      "Python oracle in tools/props/c15.py"],
    )


def replay(ctx, path):
    import json
    case = json.load(open(path))["case"]
    ctx.need_rust(); ctx.need_runner()
    p = case.get("content_size")
    if p is None:
        print(json.dumps(case, indent=1)[:3000]); return 0
    print("impl :", ctx.harness(["pick %d" % p])[0])
    print("model:", ctx.model(["pick %d" % p])[0])
    if p and p & (p - 1) == 0:
        print("spec :", spec_at_pow2(p.bit_length() - 1))
    return 0
