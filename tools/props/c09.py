"""C09 — create never clobbers, never litters, never touches its input.

Obligations: coq/Properties/C09.v (frame conditions of Create::run for all configurations,
filesystems and failure positions; write target; output path rule without a side condition on
the name; refusal of every torrent name that is not one normal path component).
Correspondence: the real binary in a fresh sandbox per case, whole-tree snapshots (path, type,
size, SHA-1, symlink target; mtime excluded) before and after every command, over the finite
matrix force x dry-run x input shape x output kind x pre-existing state x name x failure cause
(pairwise-covered + random cells in quick, complete in thorough) against `create_fx` of the
extracted model; the direct oracle evaluates the frame conditions on the snapshots alone.
verify / show / link are run on every created torrent (and on garbage) under the same snapshots.
Repaired finding (was open as name-with-separator): `--name` with a path separator used to be
joined as a path. The two witnesses are the first corpus entries; every non-plain kind of name
(`a/b`, `/abs/x`, `../x`, `..`, `.`, empty, trailing separator, separator inside a long name) is
crossed with every output kind and input kind, and the oracle requires refusal (exit 1) with the
whole sandbox - including the places the old behaviour wrote to - unchanged.
Dotted names: `--name a.tar`, `a.b.c`, `.hid`, `x.` and inputs whose own name holds a dot (`data.tar`,
`in.d`) are crossed with every output kind; the documented path is `<name>.torrent` APPENDED to the
whole name (`a.tar.torrent`), never an extension replacement, and the oracle compares the created
path with exactly that. The pre-state `stem_sibling` first creates, with the real binary, the torrent
of a name with the same stem (`a.zip` for `a.tar`) into the same place: two names, two files."""
import hashlib, itertools, json, os, shutil, subprocess, tempfile
import zlib
import lib

MANIFEST = dict(
    text="Machine-checked proof over a model of Create::run's filesystem effects (every failure cause at its real position, "
         "kernel-style path resolution with symlinks, lexiclean/join path algebra): no-clobber, dry-run frame, failure frame, "
         "exactly-one-file on success, input untouched, read-only verify/show/link, output path rule - for all configurations and "
         "all filesystems. Tied to the code by a correspondence run of the extracted model against the real binary with whole-tree "
         "snapshots over the finite option/layout/failure matrix. Right level: the property is a frame condition over all paths "
         "through create, which no finite set of layout tests settles.",
    ref="DESIGN.md section 5, C09",
    technique="Coq proof over a Gallina model + model/implementation correspondence run on whole-tree snapshots",
    note="Partial: OS effects (a write failing half-way, crashes, races between exists() and open) are outside the statement and the "
         "model; symlink semantics are the model's kres. Repaired finding (fix: reject torrent names that are not a single path "
         "component): a --name that is empty, `.`, `..` or contains a separator is refused before hashing (c09_bad_name_rejected), "
         "the path-rule theorems hold for every accepted name. Interpretation: the output path is judged after symlink resolution; a default "
         "target that is itself a directory is treated as a target directory. Trusted: Coq kernel, extraction (ExtrOcamlBasic), "
         "runner/driver.d/createfs.ml, the Python snapshot oracle.")

FORCE = (0, 1)
DRY = (0, 1)
INPUTS = ("file", "dir", "stdin", "dot", "abs", "unclean", "symlink_follow", "dotfile", "dotdir")
DOTTED_INPUTS = {"dotfile": b"data.tar", "dotdir": b"in.d"}      # the input's own name holds a dot
OUTPUTS = ("none", "file", "file_abs", "dir", "dirslash", "dirlink", "stdout", "missing_parent", "parent_file",
           "dashfile", "updown", "linkcwd")
# dashfile: `--output ./-` is a file called `-` (only the bare `-` is standard output); updown: a target spelled with `..`;
# linkcwd: the working directory was entered through a symbolic link whose own parent is another directory, $PWD carries that
# logical spelling (as after `cd link` in a shell) and the target climbs out with `..` - the operating system's meaning of `..`
# (the physical parent) is the documented place. (Added after seeded changes C09-11 and C09-10.)
PRE_FILE_CONTENTS = (b"precious bytes\n", b"", b"precious bytes\n" * 5000, b"", b"d4:infod6:lengthi0eee")
PRE = ("absent", "file", "dir", "dangling", "link_file", "dangling_noparent", "stem_sibling")
NAMES = ("none", "plain", "sub", "up", "abs", "dotdot", "dot", "empty", "trail", "longmid", "dots3", "tar", "abc", "hid", "xdot", "n247", "n250")
# acceptable names with a dot in them: the output is `<name>.torrent` appended to the whole name. Also two names next to NAME_MAX:
# 247 bytes (`<name>.torrent` has exactly 255 and fits) and 250 bytes (`<name>.torrent` cannot exist: where the name decides the
# file name create fails and writes nothing; it never writes under another name - added after seeded change C09-17: the stem cut
# to 247 bytes). The file system's refusal is outside Model/CreateFs.v: those cells are judged by the snapshot oracle alone.
DOTTED_NAMES = {"tar": b"a.tar", "abc": b"a.b.c", "hid": b".hid", "xdot": b"x.", "n247": b"N" * 247, "n250": b"M" * 250}
DOTTED_CAUSES = ("none", "allowed_small", "lint_small")
NAME_USING_OUTS = ("none", "dir", "dirslash", "dirlink")      # output kinds in which the name decides the file name
# names `torrent create` must refuse: not exactly one normal path component
BAD_NAMES = ("sub", "up", "abs", "dotdot", "dot", "empty", "trail", "longmid")
CAUSES = ("none", "lint_small", "lint_uneven", "zero", "allowed_small", "bad_glob", "nonutf8_inside", "nonutf8_name", "nonutf8_arg",
          "dangling_follow", "too_large", "stdin_err", "bad_option", "bad_tier", "private", "input_missing",
          "symlink_root", "read_err", "post_show", "post_link", "post_open")
FACTORS = (("force", FORCE), ("dry", DRY), ("inp", INPUTS), ("out", OUTPUTS), ("pre", PRE), ("name", NAMES), ("cause", CAUSES))
POST = ("post_show", "post_link", "post_open")
# causes crossed with every pre-existing state and every name; the others only with pre in (absent, file), name in (none, plain, up)
CORE = ("none", "allowed_small", "lint_small", "too_large", "read_err", "stdin_err", "bad_glob", "post_show", "post_open")


def valid(c):
    """prune impossible / meaningless cells"""
    inp, out, pre, name, cause = c["inp"], c["out"], c["pre"], c["name"], c["cause"]
    if cause not in CORE and (pre not in ("absent", "file") or name not in ("none", "plain", "up")):
        return False
    if name == "dots3" and (pre != "absent" or cause not in ("none", "allowed_small", "lint_small")):
        return False      # `...` is one normal component (the accepted neighbour of `.` and `..`): success path only
    dotted = name in DOTTED_NAMES or (name == "none" and inp in DOTTED_INPUTS)
    if (name in DOTTED_NAMES or inp in DOTTED_INPUTS) and (cause not in DOTTED_CAUSES or pre not in ("absent", "file", "stem_sibling")):
        return False
    if inp in DOTTED_INPUTS and name not in ("none", "plain") and name not in DOTTED_NAMES:
        return False
    if name in ("abc", "xdot", "n247", "n250") and inp in ("dot", "abs", "unclean", "symlink_follow"):
        return False      # the rarer dotted names are crossed with the plain and the dotted input shapes only
    if name in BAD_NAMES and name != "up" and cause in ("post_open", "bad_glob", "read_err", "stdin_err"):
        return False      # a refused name other than the historical witness: the causes consulted right after it suffice
    if pre == "stem_sibling" and name in ("n247", "n250"):
        return False      # the sibling's name would be longer still
    if pre == "stem_sibling" and not (dotted and out in NAME_USING_OUTS and cause in ("none", "allowed_small") and not c["dry"]
                                      and not (inp == "stdin" and out == "none")):
        return False      # a second name with the same stem, created first into the same place: needs a dotted name that is used
    if pre != "absent" and out in ("stdout", "missing_parent", "parent_file"):
        return False
    if out == "linkcwd" and inp not in ("abs", "stdin"):
        return False      # the run happens in another working directory: the input is named absolutely (or is standard input)
    if pre != "absent" and name in BAD_NAMES:
        return False
    if inp == "stdin" and cause in ("nonutf8_inside", "nonutf8_name", "nonutf8_arg", "dangling_follow", "input_missing", "symlink_root",
                                    "read_err", "bad_glob"):
        return False
    if inp != "stdin" and cause == "stdin_err":
        return False
    if cause in ("nonutf8_inside", "dangling_follow", "read_err") and inp not in ("dir", "abs", "unclean", "dot"):
        return False
    if cause in ("nonutf8_arg", "input_missing", "symlink_root") and inp not in ("file", "dir"):
        return False
    if cause == "nonutf8_name" and inp != "dot":      # the only way to a non-UTF-8 file name with UTF-8 arguments
        return False
    if cause in ("nonutf8_name", "nonutf8_arg") and name in BAD_NAMES:
        return False
    if inp == "symlink_follow" and cause in ("read_err", "dangling_follow"):
        return False
    return True


def all_cells():
    for vals in itertools.product(*[v for _, v in FACTORS]):
        c = dict(zip([k for k, _ in FACTORS], vals))
        if valid(c):
            yield c


def pairwise(rng, extra):
    """greedy pairwise cover of the valid cells, then `extra` random valid cells"""
    names = [k for k, _ in FACTORS]
    need = set()
    cells = list(all_cells())
    for c in cells:
        for a, b in itertools.combinations(names, 2):
            need.add((a, c[a], b, c[b]))
    chosen = []
    rng.shuffle(cells)
    pool = cells
    while need:
        cand = rng.sample(pool, min(60, len(pool)))
        best, gain = None, -1
        for c in cand:
            g = sum(1 for a, b in itertools.combinations(names, 2) if (a, c[a], b, c[b]) in need)
            if g > gain:
                best, gain = c, g
        if gain <= 0:
            # direct hit: find a cell covering some needed pair
            a, va, b, vb = next(iter(need))
            best = next(c for c in pool if c[a] == va and c[b] == vb)
        chosen.append(best)
        for a, b in itertools.combinations(names, 2):
            need.discard((a, best[a], b, best[b]))
    # mostly-valid stream: 60% of the random cells have no injected failure and an acceptable name
    good = [c for c in pool if c["cause"] in ("none", "allowed_small") and c["name"] not in BAD_NAMES]
    chosen += rng.sample(good, min(extra * 6 // 10, len(good))) + rng.sample(pool, min(extra * 4 // 10, len(pool)))
    return chosen, len(cells)


NAME_OUTS = ("none", "file", "dir", "stdout")
DOT_OUTS = ("none", "file", "dir", "dirslash", "dirlink", "stdout")


def dotted_cells(rng):
    """every dotted name (and every input whose own name holds a dot, without --name) x output kind x input kind,
    complete; where the name decides the file name (default location, directory targets) the pre-state is drawn from
    absent / a file already at the documented path / a sibling with the same stem created first"""
    out = []
    combos = [(n, i) for n in DOTTED_NAMES for i in INPUTS] + [("none", i) for i in DOTTED_INPUTS]
    for (name, inp), o in itertools.product(combos, DOT_OUTS):
        for _ in range(12):
            pre = rng.choice(("absent", "absent", "file", "stem_sibling", "stem_sibling")) if o in NAME_USING_OUTS else "absent"
            c = dict(force=rng.randrange(2), dry=0 if rng.randrange(5) else 1, inp=inp, out=o, pre=pre, name=name,
                     cause="none" if rng.randrange(5) else rng.choice(DOTTED_CAUSES))
            if valid(c):
                out.append(c)
                break
    return out


def name_cells(rng):
    """every refused kind of name x output kind (absent, file, directory, `-`) x input kind, complete; force / dry-run
    drawn per cell; three in four without any other failure cause, the rest with one that is consulted after the name
    (lint, piece length, hashing, post steps), so that the position of the refusal is exercised too"""
    out = []
    for name, o, inp in itertools.product(BAD_NAMES, NAME_OUTS, INPUTS):
        for _ in range(8):
            c = dict(force=rng.randrange(2), dry=rng.randrange(2), inp=inp, out=o, pre="absent", name=name,
                     cause="none" if rng.randrange(4) else rng.choice(("lint_small", "too_large", "allowed_small", "post_show", "post_open")))
            if valid(c):
                out.append(c)
                break
    return out


# ---------------------------------------------------------------- sandbox

def snapshot(root):
    """path -> ('D',) | ('F', size, sha1hex) | ('L', target) | ('O', mode); mtime excluded"""
    snap = {}
    rb = os.fsencode(root)
    for d, dirs, files in os.walk(rb, followlinks=False):
        for n in dirs + files:
            p = os.path.join(d, n)
            rel = os.path.relpath(p, rb)
            st = os.lstat(p)
            if os.path.islink(p):
                snap[rel] = ("L", os.readlink(p))
            elif os.path.isdir(p):
                snap[rel] = ("D",)
            elif os.path.isfile(p):
                data = open(p, "rb").read()
                snap[rel] = ("F", len(data), hashlib.sha1(data).hexdigest())
            else:
                snap[rel] = ("O", st.st_mode)
    return snap


def diff(a, b):
    return {p: (a.get(p), b.get(p)) for p in set(a) | set(b) if a.get(p) != b.get(p)}


def wfile(p, data):
    os.makedirs(os.path.dirname(p), exist_ok=True)
    with open(p, "wb") as f:
        f.write(data)


def build(S, c, rng):
    """create the tree for cell c under S; return the run description"""
    S = os.fsencode(S)
    j = os.path.join
    w = j(S, b"w")
    os.makedirs(j(w, b"d"))
    os.makedirs(j(S, b"elsewhere"))
    wfile(j(w, b"keep.txt"), b"keep me\n")
    wfile(j(w, b"d", b"other.txt"), b"other\n")
    wfile(j(S, b"elsewhere", b"t.bin"), b"linked target\n")
    os.makedirs(j(w, b"d", b"x"))
    os.makedirs(j(w, b"x"))
    # directories a name joined as a path would lead into (old behaviour): x/, <long>/ next to the input, in the
    # target directory and at the sandbox root
    LONG = b"L" * 40
    for base in (S, w, j(w, b"d")) if c["name"] in ("trail", "longmid", "sub") else ():
        for sub in (b"x", LONG):
            os.makedirs(j(base, sub), exist_ok=True)
    os.symlink(j(w, b"d"), j(w, b"dl"))
    inp, cause = c["inp"], c["cause"]
    iname = b"in\xff" if cause in ("nonutf8_name", "nonutf8_arg") else DOTTED_INPUTS.get(inp, b"in")
    ipath = j(w, iname)
    cwd = w
    stdin = b""
    if inp in ("file", "dotfile"):
        wfile(ipath, bytes(rng.randrange(256) for _ in range(rng.choice([0, 1, 100, 20000]))))
    elif inp != "stdin":
        wfile(j(ipath, b"a"), b"hello\n" * rng.randrange(1, 50))
        wfile(j(ipath, b"sub", b"b"), bytes(rng.randrange(256) for _ in range(rng.randrange(0, 3000))))
        wfile(j(ipath, b".hid"), b"hidden\n")
        if cause == "nonutf8_inside":
            wfile(j(ipath, b"sub", b"c\xfe"), b"x")
        if cause == "dangling_follow":
            os.symlink(j(S, b"elsewhere", b"gone"), j(ipath, b"dang"))
        if cause == "read_err":
            os.symlink(b"/proc/self/mem", j(ipath, b"mem"))
    else:
        stdin = bytes(rng.randrange(256) for _ in range(rng.choice([0, 5, 70000])))
    if cause == "input_missing":
        shutil.rmtree(ipath) if os.path.isdir(ipath) else os.remove(ipath)
    iarg = {"file": iname, "dir": iname, "stdin": b"-", "dot": b".", "abs": ipath, "unclean": b"./d/../" + iname + b"/",
            "symlink_follow": b"lnk", "dotfile": iname, "dotdir": iname}[inp]
    if inp == "dot":
        cwd = ipath
    if inp == "symlink_follow" or cause == "symlink_root":
        if cause == "symlink_root":
            os.rename(ipath, j(w, b"real"))
            os.symlink(j(w, b"real"), ipath)
        else:
            os.symlink(ipath, j(w, b"lnk"))
    # the name
    nm = {"none": None, "plain": b"nm", "sub": b"x/y", "up": b"../esc", "abs": j(S, b"elsewhere", b"abs"),
          "dotdot": b"..", "dot": b".", "empty": b"", "trail": b"x/", "longmid": LONG + b"/" + b"R" * 40,
          "dots3": b"...", **DOTTED_NAMES}[c["name"]]
    # where the input is, lexically, and its file name (the default torrent name)
    root_lex = ipath if inp != "symlink_follow" else j(w, b"lnk")
    eff_name = nm if nm is not None else (None if inp == "stdin" else os.path.basename(root_lex))
    # the output argument, relative to cwd where relative
    out = c["out"]
    run_cwd = None
    if out == "linkcwd":
        os.symlink(j(w, b"d"), j(S, b"elsewhere", b"cwdl"))
        cwd, run_cwd = j(w, b"d"), j(S, b"elsewhere", b"cwdl")       # physical / as spelled in $PWD
    rel = (lambda p: os.path.relpath(p, cwd))
    oarg = {"none": None, "file": rel(j(w, b"out.torrent")), "file_abs": j(w, b"abs.torrent"), "dir": rel(j(w, b"d")),
            "dirslash": rel(j(w, b"d")) + b"/", "dirlink": rel(j(w, b"dl")), "stdout": b"-",
            "missing_parent": rel(j(w, b"nodir", b"o.torrent")), "parent_file": rel(j(w, b"keep.txt", b"o.torrent")),
            "dashfile": rel(w) + b"/-", "updown": rel(j(w, b"d", b"x")) + b"/../../up.torrent", "linkcwd": b"../viacwd.torrent"}[out]
    # the documented target before looking at the filesystem (plain-name reading of the rule)
    if out == "stdout":
        target = None
    elif out == "none":
        target = None if inp == "stdin" or eff_name is None else j(os.path.dirname(root_lex), eff_name + b".torrent")
    else:
        target = os.path.normpath(j(cwd, oarg))
    # one normal path component: the only names create may accept (stated here independently of the model)
    plainname = eff_name is not None and eff_name not in (b"", b".", b"..") and b"/" not in eff_name
    final = target
    if target is not None and out in ("dir", "dirslash", "dirlink") and eff_name is not None:
        final = j(target, eff_name + b".torrent") if plainname else None
    # pre-existing state at the path the torrent would be written to
    pre = c["pre"]
    if pre != "absent" and final is not None and len(os.path.basename(final)) <= 255 and os.path.isdir(os.path.dirname(final)) \
            and not os.path.lexists(final):
        if pre == "file":
            # what is already there varies: a few bytes, nothing at all (a placeholder left by mktemp / touch / an interrupted
            # run), something longer than any torrent written here  (added after seeded change C09-14: an empty file at the
            # output path was treated as absent)
            wfile(final, PRE_FILE_CONTENTS[zlib.crc32(repr(sorted(c.items())).encode()) % len(PRE_FILE_CONTENTS)])
        elif pre == "dir":
            os.makedirs(final)
            wfile(j(final, b"inside.txt"), b"inside\n")
        elif pre == "dangling":
            os.symlink(j(S, b"elsewhere", b"new.torrent"), final)
        elif pre == "link_file":
            os.symlink(j(S, b"elsewhere", b"t.bin"), final)
        elif pre == "dangling_noparent":
            os.symlink(j(S, b"nowhere", b"new.torrent"), final)
    argv = [b"torrent", b"create"]
    if c["force"]:
        argv.append(b"--force")
    if c["dry"]:
        argv.append(b"--dry-run")
    argv += [b"--input", iarg]
    if oarg is not None:
        argv += [b"--output", oarg]
    if nm is not None:
        argv += [b"--name", nm]
    follow = inp == "symlink_follow" or cause in ("dangling_follow", "read_err")
    if follow:
        argv.append(b"--follow-symlinks")
    pl = 262144 if inp == "stdin" else 16384
    flags = ""
    env = {"NO_COLOR": "1"}
    stdout_full = False
    if cause == "lint_small":
        argv += [b"--piece-length", b"1"]; pl = 1
    elif cause == "allowed_small":
        argv += [b"--piece-length", b"1", b"--allow", b"small-piece-length"]; pl = 1; flags += "s"
    elif cause == "lint_uneven":
        argv += [b"--piece-length", b"17KiB"]; pl = 17408
    elif cause == "zero":
        argv += [b"--piece-length", b"0"]; pl = 0
    elif cause == "too_large":
        argv += [b"--piece-length", b"4GiB"]; pl = 1 << 32
    elif cause == "bad_glob":
        argv += [b"--glob", b"["]; flags += "G"
    elif cause in ("nonutf8_inside", "dangling_follow"):
        flags += "W"
    elif cause == "nonutf8_name":
        flags += "N"
    elif cause == "nonutf8_arg":
        flags += "C"      # a non-UTF-8 argument never reaches Create::run (std::env::args() panics in Env::main)
    elif cause in ("read_err", "stdin_err"):
        flags += "R"
    elif cause == "bad_option":
        argv += [b"--piece-length", b"lots"]; flags += "C"
    elif cause == "bad_tier":
        argv += [b"--announce-tier", b"not a url"]; flags += "T"
    elif cause == "private":
        argv += [b"--private"]; flags += "P"
    elif cause == "post_show":
        argv += [b"--show"]; stdout_full = True; flags += "X"
    elif cause == "post_link":
        argv += [b"--link"]; stdout_full = True; flags += "X"
    elif cause == "post_open":
        argv += [b"--open"]; env["PATH"] = "/nonexistent"; flags += "X" if out != "stdout" else ""
    if inp == "stdin" and (nm is None or oarg is None) and "C" not in flags:
        flags += "C"      # clap: --name and --output are required with `--input -`
    if c["force"]:
        flags += "f"
    if c["dry"]:
        flags += "d"
    if follow:
        flags += "F"
    # stem_sibling: the same command for a name with the same stem (`a.zip` for `a.tar`), to be run first by the real binary;
    # its documented file is `<sibling>.torrent` in the same directory
    sibling = None
    if pre == "stem_sibling" and plainname and final is not None:
        stem = eff_name[:eff_name.rindex(b".")] if b"." in eff_name[1:] else eff_name
        sib = stem + (b".zip" if eff_name != stem + b".zip" else b".tgz")
        sargv, k = list(argv), None
        if b"--name" in sargv:
            sargv[sargv.index(b"--name") + 1] = sib
        else:
            sargv += [b"--name", sib]
        sibling = dict(argv=sargv, name=sib, final=j(os.path.dirname(final), sib + b".torrent"))
    env["PWD"] = os.fsdecode(run_cwd or cwd)
    return dict(S=S, cwd=cwd, run_cwd=run_cwd or cwd, argv=argv, stdin=stdin, stdin_dir=(cause == "stdin_err"), stdout_full=stdout_full, env=env, sibling=sibling,
                iarg=iarg, oarg=oarg, name=nm, eff_name=eff_name, plain=plainname, target=target, pl=pl, flags=flags or "-",
                input_root=(None if inp == "stdin" else os.path.realpath(root_lex) if os.path.lexists(root_lex) else root_lex))


def run_bin(exe, argv, cwd, stdin=b"", stdin_dir=None, stdout_full=False, env=None, timeout=60):
    e = {"PATH": os.environ.get("PATH", ""), "RUST_BACKTRACE": "0"}
    e.update(lib.noise_env())
    e.update(env or {})
    fin = fout = None
    try:
        kw = {}
        if stdin_dir:
            fin = os.open(stdin_dir, os.O_RDONLY); kw["stdin"] = fin
        else:
            kw["input"] = stdin
        if stdout_full:
            fout = os.open("/dev/full", os.O_WRONLY); kw["stdout"] = fout
        else:
            kw["stdout"] = subprocess.PIPE
        p = subprocess.run([os.fsencode(exe)] + argv, cwd=cwd, stderr=subprocess.PIPE, env=e, timeout=timeout, **kw)
        return p.returncode, p.stdout or b"", p.stderr
    except subprocess.TimeoutExpired:
        return 124, b"", b"[timeout]"
    finally:
        for f in (fin, fout):
            if f is not None:
                os.close(f)


# ---------------------------------------------------------------- model encoding

def mpath(S, p):
    """absolute real path under S -> model path text (hex components joined by '/')"""
    rel = os.path.relpath(p, S)
    if rel == b".":
        return "~"
    return "/".join(lib.hexs(x) for x in rel.split(b"/"))


def marg(S, a):
    """a path-like argument as the model sees it: the sandbox is the root of the model's world"""
    if a.startswith(S + b"/"):
        return a[len(S):]
    return a


def mfs(S, snap):
    ents = ["D"]
    for rel in sorted(snap):
        v = snap[rel]
        mp = "/".join(lib.hexs(x) for x in rel.split(b"/"))
        if v[0] == "D":
            ents.append("D" + mp)
        elif v[0] == "F":
            ents.append("F%s=%s" % (mp, v[2]))
        elif v[0] == "L":
            t = v[1]
            t = t[len(S):] if t.startswith(S + b"/") else t
            ents.append("L%s=%s" % (mp, "/".join(lib.hexs(x) for x in t.split(b"/") if x)))
    return ",".join(ents)


def is_torrent(data, want_name=None):
    try:
        v, end = lib.bdecode_strict(data)
        info = lib.dget(v, "info")
        nm = lib.dget(info, "name")
        if end != len(data) or nm is None or lib.dget(info, "pieces") is None:
            return False
        return want_name is None or nm == want_name
    except Exception:
        return False


def observed_delta(S, d, torrent_ok):
    """canonical form of a snapshot diff, comparable with the model's delta"""
    out = []
    for rel in sorted(d):
        after = d[rel][1]
        mp = "/".join(lib.hexs(x) for x in rel.split(b"/"))
        if after is None:
            out.append(mp + "=~")
        elif after[0] == "D":
            out.append(mp + "=D")
        elif after[0] == "L":
            out.append(mp + "=L")
        else:
            out.append(mp + ("=F54" if torrent_ok.get(rel) else "=F?" + after[2][:8]))
    return ",".join(out) or "~"


def desc(x):
    if isinstance(x, bytes):
        return x.decode("utf-8", "backslashreplace")
    if isinstance(x, (list, tuple)):
        return [desc(i) for i in x]
    if isinstance(x, dict):
        return {desc(k): desc(v) for k, v in x.items()}
    return x


# ---------------------------------------------------------------- one case

def one_case(exe, tmp, cell, seed):
    """a run that hits the time limit (loaded machine) is repeated in a fresh sandbox with a longer limit"""
    for attempt in range(3):
        res = _one_case(exe, tmp, cell, seed, 60 * (attempt + 1) ** 2)
        if not res["timed_out"]:
            break
    return res


def _one_case(exe, tmp, cell, seed, timeout):
    import random
    rng = random.Random(seed)
    S = tempfile.mkdtemp(dir=tmp)
    try:
        r = build(S, cell, rng)
        Sb = r["S"]
        sib, sib_state = r["sibling"], None
        if sib:
            # first create of the pair: a name with the same stem into the same place (real binary; judged below)
            rc0, _, err0 = run_bin(exe, sib["argv"], r["run_cwd"], r["stdin"], None, False, r["env"], timeout=timeout)
            sib_state = (rc0, os.path.isfile(sib["final"]) and not os.path.islink(sib["final"])
                         and is_torrent(open(sib["final"], "rb").read(), sib["name"]))
        before = snapshot(S)
        rc, out, err = run_bin(exe, r["argv"], r["run_cwd"], r["stdin"], os.path.join(Sb, b"w", b"d") if r["stdin_dir"] else None,
                               r["stdout_full"], r["env"], timeout=timeout)
        after = snapshot(S)
        d = diff(before, after)
        res = dict(cell=cell, rc=rc, stderr=err.decode("utf-8", "replace")[-400:], delta=d, problems=[], ro=[],
                   timed_out=(rc == 124 or (sib_state is not None and sib_state[0] == 124)))
        res["reproduce"] = ("sandbox built by tools/props/c09.py build() for this cell; cd %s && %simdl %s%s" % (
            desc(os.path.relpath(r["cwd"], Sb)),
            "imdl %s && " % " ".join(repr(desc(a)) for a in sib["argv"]) if sib else "",
            " ".join(repr(desc(a)) for a in r["argv"]),
            " >/dev/full" if r["stdout_full"] else "") + (" <w/d (directory as stdin)" if r["stdin_dir"] else ""))
        ok = rc == 0
        P = res["problems"].append
        # ---- two names sharing a stem, written to the same place, give two files: `<name>.torrent` is appended to the
        #      whole name, an extension is never replaced
        if sib:
            srel = desc(os.path.relpath(sib["final"], Sb))
            if sib_state[0] != 0 or not sib_state[1]:
                P("stem pair: the first create (`--name %s`) ended with exit %d and %s its metainfo at the documented path %r "
                  "(`<name>.torrent` appended to the whole name)" % (desc(sib["name"]), sib_state[0],
                                                                  "left" if sib_state[1] else "did not leave", srel))
            if ok:
                both = [f for f in (sib["final"], os.path.join(os.path.dirname(sib["final"]), r["eff_name"] + b".torrent"))
                        if os.path.isfile(f) and is_torrent(open(f, "rb").read())]
                if len(both) != 2:
                    P("stem pair: `%s` and `%s` created into the same directory must give two files (%r and %r); found %d of them"
                      % (desc(sib["name"]), desc(r["eff_name"]), srel, desc(r["eff_name"] + b".torrent"), len(both)))
        # ---- direct oracle: the property's frame conditions on the snapshots
        # what was at the documented target before (following symlinks)?
        tgt = r["target"]
        doc = None          # the documented place of the new file, resolved through symlinks
        present_file = False
        if tgt is not None and r["eff_name"] is not None:
            t = tgt
            if not r["plain"]:
                t = None              # a name that is not one normal path component has no documented output path: it must be refused
            elif os.path.isdir(t):    # a target that is a directory receives <name>.torrent
                t = os.path.join(t, r["eff_name"] + b".torrent")
            if t is not None:
                # resolved by hand from the *before* snapshot semantics: realpath is evaluated now, but only on
                # components the run cannot have changed (it may only have created the file itself)
                doc = os.path.join(os.path.realpath(os.path.dirname(t)), os.path.basename(t))
                relt = os.path.relpath(doc, Sb)
                seen = 0
                while relt in before and before[relt][0] == "L" and seen < 40:
                    doc = os.path.join(os.path.dirname(doc), before[relt][1]); seen += 1
                    doc = os.path.join(os.path.realpath(os.path.dirname(doc)), os.path.basename(doc))
                    relt = os.path.relpath(doc, Sb)
                present_file = relt in before and before[relt][0] == "F"
        reldoc = os.path.relpath(doc, Sb) if doc is not None else None
        # ---- the torrent name must be exactly one normal path component; anything else is refused with the whole
        #      sandbox (the input's directory, the target directory, the places a joined path would lead to) unchanged
        if r["eff_name"] is not None and not r["plain"]:
            if ok:
                P("bad name: `--name %s` is not a single path component (empty, `.`, `..` or contains a separator), yet the "
                  "command succeeded; tree delta %r" % (desc(r["name"]), desc(d)))
            elif rc != 1:
                P("bad name: `--name %s` must be refused with exit status 1, the command ended with %d" % (desc(r["name"]), rc))
            if d:
                P("bad name: `--name %s` must be refused with nothing written anywhere; the tree changed: %r" % (desc(r["name"]), desc(d)))
        if not cell["force"]:
            for p, (a, b) in d.items():
                if a is not None:
                    P("no-clobber: without --force the existing entry %r changed from %r to %r" % (desc(p), a, b))
            if present_file and ok:
                P("no-clobber: a file was present at the output path %r, --force was not given, yet the command succeeded" % desc(reldoc))
        if cell["dry"] and d:
            P("dry-run: the tree changed under --dry-run: %r" % desc(d))
        if not ok and cell["cause"] not in POST and d:
            P("litter: the command failed (exit %d, cause %s) and left the tree changed: %r" % (rc, cell["cause"], desc(d)))
        if not ok and cell["cause"] in POST:
            extra = [p for p in d if p != reldoc]
            if extra:
                P("litter: failure after the write changed something other than the output file: %r" % desc(extra))
        torrent_ok = {}
        for p, (a, b) in d.items():
            if b is not None and b[0] == "F":
                data = open(os.path.join(Sb, p), "rb").read()
                torrent_ok[p] = is_torrent(data, r["eff_name"])
        if ok and not cell["dry"]:
            if r["oarg"] == b"-":
                if d:
                    P("success with `--output -` changed the tree: %r" % desc(d))
                if not r["stdout_full"] and not is_torrent(out, r["eff_name"]):
                    P("success with `--output -` did not print the metainfo on stdout")
            else:
                if len(d) != 1:
                    P("success must create or replace exactly one file; the tree delta has %d entries: %r" % (len(d), desc(d)))
                for p, (a, b) in d.items():
                    if b is None or b[0] != "F" or not torrent_ok.get(p):
                        P("the changed entry %r is not a metainfo file named %r" % (desc(p), desc(r["eff_name"])))
                    if a is not None and a[0] != "F":
                        P("success replaced a non-file entry %r (%r)" % (desc(p), a))
                    if p != reldoc:
                        P("output path: the new file is at %r, the documented output path is %s" % (
                            desc(p), repr(desc(reldoc)) if reldoc else "none (the name %r is not a single path component)" % desc(r["eff_name"])))
        if r["input_root"] is not None:
            ir = os.path.relpath(r["input_root"], Sb)
            for p in d:
                if (p == ir or p.startswith(ir + b"/")):
                    P("input touched: %r under the input content changed: %r" % (desc(p), d[p]))
        # ---- model side request
        res["model_req"] = "createfx %s %s %s %s %s %d %s" % (
            mpath(Sb, r["cwd"]), lib.hexs(marg(Sb, r["iarg"])) if r["iarg"] != b"-" else "~",
            "~" if r["oarg"] is None else "=" if r["oarg"] == b"-" else lib.hexs(marg(Sb, r["oarg"])),
            "~" if r["name"] is None else lib.hexs(marg(Sb, r["name"])), r["flags"], r["pl"], mfs(Sb, before))
        res["impl_obs"] = "%s %s" % ("S" if ok else "F", observed_delta(Sb, d, torrent_ok))
        # ---- verify / show / link on the created torrent (or on garbage) never change anything
        created = [p for p, (a, b) in d.items() if b is not None and b[0] == "F" and torrent_ok.get(p)]
        if not created and seed % 8:
            return res        # on garbage input the read-only commands are exercised for one cell in eight
        tfile = os.path.join(Sb, created[0]) if created else os.path.join(Sb, b"w", b"keep.txt")
        base = snapshot(S)
        cmds = [("show", [b"torrent", b"show", b"--input", tfile]), ("link", [b"torrent", b"link", b"--input", tfile])]
        if r["input_root"] is not None and os.path.exists(r["input_root"]):
            cmds.append(("verify", [b"torrent", b"verify", b"--input", tfile, b"--content", r["input_root"]]))
        else:
            cmds.append(("verify", [b"torrent", b"verify", b"--input", tfile]))
        for kind, av in cmds:
            rc2, _, _ = run_bin(exe, av, r["cwd"], env={"NO_COLOR": "1"}, timeout=timeout)
            res["timed_out"] = res["timed_out"] or rc2 == 124
            now = snapshot(S)
            dd = diff(base, now)
            res["ro"].append((kind, rc2 == 0, bool(created)))
            if dd:
                P("read-only: `torrent %s` changed the tree: %r" % (kind, desc(dd)))
            base = now
        return res
    finally:
        shutil.rmtree(S, ignore_errors=True)


DEFAULT = dict(force=0, dry=0, inp="dir", out="none", pre="absent", name="none", cause="none")


def complexity(cell):
    return sum(1 for k, v in cell.items() if DEFAULT[k] != v)


def shrink(exe, tmp, res, seed):
    """delta-debug a failing cell towards the default cell, keeping an oracle failure"""
    cur = res
    changed = True
    while changed:
        changed = False
        for k in DEFAULT:
            if cur["cell"][k] == DEFAULT[k]:
                continue
            cand = dict(cur["cell"]); cand[k] = DEFAULT[k]
            if not valid(cand):
                continue
            r2 = one_case(exe, tmp, cand, seed)
            if r2["problems"]:
                cur, changed = r2, True
    return cur


def run(ctx):
    ctx.need_coq()
    if not ctx.need_rust() or not ctx.need_runner():
        return finish(ctx, False, 0)
    if ctx.thorough:
        cells = list(all_cells()); total = len(cells); exhaustive = True
    else:
        cells, total = pairwise(ctx.rng, 450); exhaustive = False
        cells = name_cells(ctx.rng) + dotted_cells(ctx.rng) + cells
    # regression corpus first (hand-written edge cells and witnesses of past findings)
    cdir = os.path.join(lib.VERIF, "tools", "corpus", "C09")
    corpus = [json.load(open(os.path.join(cdir, f)))["case"]["cell"] for f in sorted(os.listdir(cdir))] if os.path.isdir(cdir) else []
    cells = [c for c in corpus if valid(c)] + cells
    seeds = [ctx.rng.randrange(1 << 30) for _ in cells]
    tmp = tempfile.mkdtemp(prefix="c09-")
    try:
        exe = ctx.bins["imdl"]
        results = lib.pmap(lambda cs: one_case(exe, tmp, cs[0], cs[1]), list(zip(cells, seeds)))
    finally:
        shutil.rmtree(tmp, ignore_errors=True)
    model = ctx.model([r["model_req"] for r in results])
    # report the simplest failing cell first, after shrinking it factor by factor towards the default cell
    order = sorted(range(len(results)), key=lambda i: complexity(results[i]["cell"]))
    first_bad = next((i for i in order if results[i]["problems"]), None)
    if first_bad is not None:
        tmp = tempfile.mkdtemp(prefix="c09-shrink-")
        try:
            results[first_bad] = shrink(ctx.bins["imdl"], tmp, results[first_bad], seeds[first_bad])
            model[first_bad] = ctx.model([results[first_bad]["model_req"]])[0]
        finally:
            shutil.rmtree(tmp, ignore_errors=True)
    for r, m, sd in ((results[i], model[i], seeds[i]) for i in order):
        cell = r["cell"]
        ctx.cov["evaluations"] += 1
        ctx.cov["traces_validated_against_impl"] += 1
        ctx.count("cause_" + cell["cause"]); ctx.count("out_" + cell["out"]); ctx.count("in_" + cell["inp"])
        ctx.count("pre_" + cell["pre"]); ctx.count("name_" + cell["name"])
        ctx.count("exit_ok" if r["rc"] == 0 else "exit_fail")
        if r["rc"] < 0 or r["rc"] == 101:
            ctx.count("crashed_or_panicked")
        for kind, ok2, on_created in r["ro"]:
            ctx.cov["evaluations"] += 1
            ctx.count("ro_%s_%s" % (kind, "created" if on_created else "garbage"))
        ctx.distinct(tuple(sorted(cell.items())))
        # model's reply: OK <S|F:stage> <out> <delta>
        mf = m.split(" ")
        mobs = "%s %s" % (mf[1][0], mf[3]) if len(mf) == 4 and mf[0] == "OK" else m
        case = dict(cell=cell, case_seed=sd, reproduce=r["reproduce"], exit=r["rc"], stderr=r["stderr"],
                    tree_delta=desc({k: v for k, v in r["delta"].items()}), impl=r["impl_obs"], model=m,
                    model_request=r["model_req"])
        if r["timed_out"]:
            ctx.violation("infrastructure", "a run hit the time limit three times (60/240/540 s) for %s" % json.dumps(cell, sort_keys=True), case)
        elif r["problems"]:
            ctx.violation("oracle-failure", "create %s: %s" % (json.dumps(cell, sort_keys=True), r["problems"][0]),
                          dict(case, oracle=r["problems"]))
        elif cell["name"] == "n250" and cell["out"] in NAME_USING_OUTS:
            ctx.count("name_longer_than_the_file_system_allows_judged_by_snapshots_only")
            if r["rc"] == 0 and not cell["dry"]:
                ctx.violation("oracle-failure", "create %s: exit status 0 although `<name>.torrent` (258 bytes) cannot exist in a directory"
                              % json.dumps(cell, sort_keys=True), case)
        else:
            if mobs != r["impl_obs"]:
                ctx.cov["disagreements_checked"] += 1
                ctx.violation("model-impl-disagreement",
                              "create_fx and the binary differ on (exit class, tree delta) for %s: model %s, binary %s; the frame "
                              "conditions themselves hold on the snapshots" % (json.dumps(cell, sort_keys=True), mobs, r["impl_obs"]), case)
        if cell["cause"] in ("none", "post_open", "too_large") or cell["pre"] == "dangling":
            ctx.sample(dict(cell=cell, reproduce=r["reproduce"], exit=r["rc"], impl=r["impl_obs"], model=mobs), cap=5)
    ctx.notes.append("matrix: %d valid cells; this run executed %d" % (total, len(cells)))
    return finish(ctx, exhaustive, total)


def finish(ctx, exhaustive, total):
    ctx.assumptions += [
        "the filesystem behaves as Model/CreateFs.v kres/open_excl/open_trunc say (POSIX path resolution, O_EXCL does not follow "
        "the final symlink, O_TRUNC does) - exercised by the dangling-symlink / link-to-file / directory pre-states",
        "a write that fails half-way (ENOSPC/EIO inside write_all), crashes and concurrent modification of the tree are outside "
        "the statement (model stages EWriteIO, EPost are excluded from fail_frame)",
        "interpretation: the output path is judged after symlink resolution; a default target that is a directory is a target "
        "directory; the output path is never chosen inside the input content",
    ]
    return ctx.finish(
        rule="cells of the matrix force x dry-run x input shape(9, two with a dot in the input's own name) x output kind(9) x pre-existing state(7, incl. a same-stem sibling created first) x name(15: none, plain, `...`, the dotted a.tar, a.b.c, .hid, x., and "
             "the eight refused kinds a/b, ../x, /abs/x, `..`, `.`, empty, trailing separator, separator inside a long name) x failure "
             "cause(21), pruned of impossible combinations and, for the non-core failure causes, of the rarer pre-states and names (%d cells): quick = the two witnesses of the repaired --name finding, then every refused name kind x output kind "
             "(absent, file, directory, `-`) x input kind (224 cells), every dotted name (a.tar, a.b.c, .hid, x., and the dotted input names data.tar, in.d without --name) x output kind(6) x input kind (a.tar, .hid: all nine; a.b.c, x.: file, dir, stdin and the two dotted ones) "
             "with the pre-state drawn from absent / file at the documented path / same-stem sibling created first (180 cells), a greedy pairwise cover of all factors and 450 seeded random cells (60%% without injected failure and with an acceptable name), "
             "thorough = every cell; each cell is one fresh sandbox, one create run and (for every created torrent, and on garbage for one cell in eight) three read-only runs under whole-tree "
             "snapshots; a case is distinct by its cell" % total,
        trusted_base=["Coq 8.16.1 kernel (coqc), vm_compute for the concrete instances", "extraction with ExtrOcamlBasic + runner/driver.d/createfs.ml",
                      "the real imdl binary (debug profile) run in fresh sandboxes", "Python snapshot oracle in tools/props/c09.py"],
        exhaustive=exhaustive)


def replay(ctx, path):
    case = json.load(open(path))["case"]
    ctx.need_rust(); ctx.need_runner()
    cell = case.get("cell")
    if not cell:
        print(json.dumps(case, indent=1)[:3000]); return 0
    tmp = tempfile.mkdtemp(prefix="c09-replay-")
    try:
        r = one_case(ctx.bins["imdl"], tmp, cell, case.get("case_seed", 0))
    finally:
        shutil.rmtree(tmp, ignore_errors=True)
    print("cell  :", json.dumps(cell, sort_keys=True))
    print("run   :", r["reproduce"])
    print("impl  : exit %d; %s" % (r["rc"], r["impl_obs"]))
    print("model :", ctx.model([r["model_req"]])[0])
    print("oracle:", r["problems"] or "frame conditions hold")
    return 0
