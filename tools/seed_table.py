#!/usr/bin/env python3
"""seed_table.py — rewrite the table between <!-- seeded:begin --> and <!-- seeded:end --> in DESIGN.md from
seeded/*/meta.json (development aid; not registered in MANIFEST.json)."""
import glob, json, os, re
ROOT = os.path.dirname(os.path.dirname(os.path.abspath(__file__)))


def short(s, n):
    s = re.sub(r"\s+", " ", s or "").replace("|", "\\|")
    return s if len(s) <= n else s[: n - 1].rsplit(" ", 1)[0] + " …"


def main():
    rows = []
    for d in sorted(glob.glob(os.path.join(ROOT, "seeded", "*"))):
        mp = os.path.join(d, "meta.json")
        if not os.path.exists(mp):
            continue
        m = json.load(open(mp))
        caught = m.get("caught_by") or []
        how = ""
        for cid, v in (m.get("confirmation", {}).get("checks") or {}).items():
            for l in v.get("lines", []):
                if l.strip().startswith("["):
                    how = l.strip(); break
            if how:
                break
        if m.get("caught_note"):
            how = m["caught_note"]
        if m.get("obsolete"):
            how = (how + " — " if how else "") + "OBSOLETE: " + m["obsolete"]
        rows.append("| %s | %s | %s | %s | %s |" % (os.path.basename(d), short(m.get("summary"), 260), short(m.get("needs_to_manifest"), 200),
                                                  ", ".join(caught) if caught else "**missed**", short(how, 220)))
    table = ["| seed | change | needs | caught by | how it is reported |", "|---|---|---|---|---|"] + rows
    p = os.path.join(ROOT, "DESIGN.md")
    s = open(p).read()
    b, e = "<!-- seeded:begin -->", "<!-- seeded:end -->"
    assert b in s and e in s, "markers missing in DESIGN.md"
    s = s[: s.index(b) + len(b)] + "\n" + "\n".join(table) + "\n" + s[s.index(e):]
    # harmless changes
    brows = []
    for d in sorted(glob.glob(os.path.join(ROOT, "benign", "*"))):
        mp = os.path.join(d, "meta.json")
        if not os.path.exists(mp):
            continue
        m = json.load(open(mp))
        first = (m.get("confirmation", {}).get("checks") or {})
        last = (m.get("recheck", {}).get("checks") or {})
        def verdict(chk):
            out = []
            for cid, v in sorted(chk.items()):
                if not isinstance(v, dict):
                    out.append("%s: not re-evaluated (%s)" % (cid, str(v)[:60])); continue
                ls = v.get("lines") or []
                note = next((l for l in ls if l.startswith("NOTE")), None)
                out.append("%s: %s%s" % (cid, "ALARM" if v.get("rc") not in (0,) else "ok", " (translator tie soft)" if note and v.get("rc") == 0 else ""))
            return "; ".join(out)
        brows.append("| %s | %s | %s | %s | %s |" % (os.path.basename(d), m.get("kind", "?"), short(m.get("summary"), 240),
                                                  verdict(first) or "-", verdict(last) or "(not re-run)"))
    btable = ["| change | kind | what | first run | after the corrections of §4 / §10 |", "|---|---|---|---|---|"] + brows
    b2, e2 = "<!-- benign:begin -->", "<!-- benign:end -->"
    if b2 in s and e2 in s:
        s = s[: s.index(b2) + len(b2)] + "\n" + "\n".join(btable) + "\n" + s[s.index(e2):]
    open(p, "w").write(s)
    print(len(rows), "rows;", sum(1 for r in rows if "**missed**" in r), "missed;", len(brows), "harmless changes")


if __name__ == "__main__":
    main()
