#!/usr/bin/env python3
"""Writes /verif/MANIFEST.json from the table below (single source of truth) and validates it."""
import json, os, subprocess, sys
VERIF = os.path.dirname(os.path.dirname(os.path.abspath(__file__)))

TB = ("Coq 8.16.1 kernel; theorems are about hand-written Gallina models (coq/Model) tied to /repo by the translator "
      "tools/rs2v.py (coq/Generated, re-checked by coqc every run) and by a correspondence run of the extracted model "
      "(ExtrOcamlBasic only) against the real binary and cfg(imdl_verif) hooks; no axioms (Print Assumptions allowlist = "
      "'Closed under the global context'); Section hypotheses standing for external code are listed in DESIGN.md section 8.")

def claimed():
    """each tools/props/cXX.py that is ready to be claimed exposes MANIFEST = dict(text=, ref=, technique=, note=)"""
    import importlib
    sys.path.insert(0, os.path.join(VERIF, "tools"))
    out = {}
    for fn in sorted(os.listdir(os.path.join(VERIF, "tools", "props"))):
        if fn.startswith("c") and fn.endswith(".py"):
            mod = importlib.import_module("props." + fn[:-3])
            if getattr(mod, "MANIFEST", None):
                out[fn[:-3].upper()] = mod.MANIFEST
    return out


PENDING_REASON = "check not built yet in this revision (planned as a Coq model + correspondence check, DESIGN.md section 5); not claimed until it runs"


def main():
    CLAIMED = claimed()
    props = [json.loads(l) for l in open(os.path.join(VERIF, "properties.jsonl"))]
    hooks_commits = subprocess.run(["git", "-C", "/repo", "log", "--format=%H %s"], stdout=subprocess.PIPE).stdout.decode().splitlines()
    hooks_commits = [l.split()[0] for l in hooks_commits if l.split(" ", 1)[1].startswith("verif hooks")]
    m = {
        "version": 1,
        "setup_cmd": "./setup.sh",
        "hooks": {
            "guard": "--cfg imdl_verif",
            "enable": "RUSTFLAGS=\"--cfg imdl_verif\" cargo build --offline (checks build /repo's working tree into /verif/.cache/target: the real "
                      "binary `imdl` and the harness crate /verif/harness with a path dependency on /repo)",
            "baseline_off_cmd": "cd /repo && (cargo nextest run --workspace --no-fail-fast --tool-config-file pb:/w/lib/nextest.toml --profile pb "
                                "--test-threads 8 --offline || cargo test --workspace --no-fail-fast --offline)",
            "source_commits": hooks_commits,
            "add_only": True,
        },
        "engines": [
            {"name": "coq", "path": "coq/", "serves_properties": sorted(CLAIMED), "kind_free_text": "Coq 8.16.1 development: Model (definitions), Proofs, Properties (pinned theorems), Generated (translator output)"},
            {"name": "rs2v", "path": "tools/rs2v.py", "serves_properties": sorted(CLAIMED), "kind_free_text": "Rust-to-Gallina translator for table-like code"},
            {"name": "modelrun", "path": "runner/", "serves_properties": sorted(CLAIMED), "kind_free_text": "extracted model + OCaml line-protocol driver"},
            {"name": "harness", "path": "harness/", "serves_properties": sorted(CLAIMED), "kind_free_text": "Rust harness over the cfg(imdl_verif) hooks, same line protocol"},
            {"name": "check", "path": "tools/check.py", "serves_properties": sorted(CLAIMED), "kind_free_text": "orchestrator: obligations, correspondence, oracle, evidence, replay"},
        ],
        "checks": [],
        "not_applicable": [],
        "notes": "Every check: ./check <ID> [--tier quick|thorough]; VERIF_SEED and VERIF_TIER honoured. Known findings: known_findings.txt. "
                 "Seeded breaking changes used to validate the checks: seeded/.",
    }
    for p in props:
        pid = p["id"]
        if pid in CLAIMED:
            c = CLAIMED[pid]
            m["checks"].append({
                "property_id": pid,
                "quick_cmd": "./check %s --tier quick" % pid,
                "thorough_cmd": "./check %s --tier thorough" % pid,
                "evidence_file": "/verif/evidence/%s.json" % pid,
                "replay_cmd_template": "./check %s --replay {path}" % pid,
                "engine": "coq",
                "level_claimed": {"category": "proof", "text": c["text"], "design_ref": c["ref"]},
                "level_note": c["note"],
                "technique": c["technique"],
            })
        else:
            m["not_applicable"].append({"property_id": pid, "reason": PENDING_REASON})
    out = os.path.join(VERIF, "MANIFEST.json")
    json.dump(m, open(out, "w"), indent=1)
    try:
        import jsonschema
        jsonschema.validate(m, json.load(open("/root/.vp/MANIFEST.schema.json")))
        print("MANIFEST.json valid:", len(m["checks"]), "checks,", len(m["not_applicable"]), "not claimed")
    except ImportError:
        print("MANIFEST.json written (jsonschema not importable here)")


if __name__ == "__main__":
    main()
