#!/usr/bin/env python3
"""confirm_benign.py <out_dir> <dest_id> <check_id>[,<check_id>…]

Counterpart of confirm_seed.py for HARMLESS changes (behaviour-preserving edits written by a sub-agent that saw only the
property text): scratch worktree of /repo HEAD, apply patch.diff, build, the test suite must give exactly the baseline
result, then the named quick checks are run against the change (VERIF_REPO = scratch worktree, own cache) and every
alarm is recorded. Filed under /verif/benign/<dest_id>/ with the verdicts. Development aid; not in MANIFEST.json."""
import json, os, re, shutil, subprocess, sys, time

ALWAYS_FAIL = {"subcommand::torrent::verify::tests::output_color", "subcommand::torrent::verify::tests::output_multiple"}
ROOT = os.environ.get("CONFIRM_ROOT", "/tmp/confirm-benign")
WT, TARGET, CACHE = ROOT + "/repo", ROOT + "/target", ROOT + "/cache"


def sh(cmd, cwd=None, env=None, timeout=3000):
    e = dict(os.environ); e.update({"CARGO_NET_OFFLINE": "true", "CARGO_TARGET_DIR": TARGET, "CARGO_TERM_COLOR": "never"})
    if env:
        e.update(env)
    p = subprocess.run(cmd, shell=isinstance(cmd, str), cwd=cwd, env=e, stdout=subprocess.PIPE, stderr=subprocess.STDOUT, timeout=timeout)
    return p.returncode, p.stdout.decode("utf-8", "replace")


def main():
    src, dest_id, checks = sys.argv[1], sys.argv[2], sys.argv[3].split(",")
    skip_tests = os.environ.get("SKIP_TESTS") == "1"
    rec = {"source_dir": src, "confirmed_at": time.strftime("%Y-%m-%dT%H:%M:%S")}
    os.makedirs(ROOT, exist_ok=True)
    if not os.path.isdir(WT):
        sh(["git", "-C", "/repo", "worktree", "add", "--detach", WT, "HEAD"])
    head = subprocess.run(["git", "-C", "/repo", "rev-parse", "HEAD"], stdout=subprocess.PIPE).stdout.decode().strip()
    sh(["git", "checkout", "--detach", head], cwd=WT); sh("git checkout -- . && git clean -fdq", cwd=WT)
    rec["repo_head"] = head
    rc, out = sh(["git", "apply", os.path.join(src, "patch.diff")], cwd=WT)
    ok = rc == 0
    if not ok:
        rec["apply"] = out
    else:
        rc, out = sh(["cargo", "build", "--offline", "--bin", "imdl"], cwd=WT)
        rec["build_rc"] = rc
        ok = rc == 0
        if ok and not skip_tests:
            rc, out = sh(["cargo", "test", "--offline", "--no-fail-fast", "--workspace"], cwd=WT)
            failed = set(re.findall(r"^test (\S+) \.\.\. FAILED", out, re.M))
            passed = len(re.findall(r"^test \S+ \.\.\. ok", out, re.M))
            rec["test_suite"] = {"passed": passed, "failed": sorted(failed)}
            ok = failed == ALWAYS_FAIL and passed >= 276
        if ok:
            res = {}
            for cid in checks:
                rc, out = sh(["./check", cid, "--tier", "quick"], cwd="/verif",
                             env={"VERIF_REPO": WT, "VERIF_CACHE": CACHE, "VERIF_EVIDENCE": ROOT + "/evidence"}, timeout=1800)
                lines = [l for l in out.splitlines() if l.startswith(("VIOLATION", "OK ", "KNOWN-FINDING", "NOTE", "  ["))]
                res[cid] = {"rc": rc, "lines": lines[:8]}
            rec["checks"] = res
    sh("git checkout -- . && git clean -fdq", cwd=WT)
    rec["valid"] = ok
    print(json.dumps(rec, indent=1))
    if ok:
        dest = os.path.join("/verif/benign", dest_id)
        os.makedirs(dest, exist_ok=True)
        for fn in os.listdir(src):
            if os.path.isfile(os.path.join(src, fn)) and os.path.abspath(src) != os.path.abspath(dest):
                shutil.copy(os.path.join(src, fn), dest)
        meta = {}
        mp = os.path.join(src, "meta.json")
        if os.path.exists(mp):
            try:
                meta = json.load(open(mp))
            except Exception:
                meta = {"raw": open(mp).read()}
        meta["confirmation"] = rec
        meta["alarms"] = sorted(c for c, v in rec.get("checks", {}).items() if v["rc"] != 0)
        json.dump(meta, open(os.path.join(dest, "meta.json"), "w"), indent=1)
        print("filed under", dest, "alarms", meta["alarms"])
    return 0 if ok else 1


if __name__ == "__main__":
    sys.exit(main())
