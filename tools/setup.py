#!/usr/bin/env python3
import os, sys, time
sys.path.insert(0, os.path.dirname(os.path.abspath(__file__)))
import lib

t0 = time.time()
ok, out = lib.run_translator()
print(out.strip()); print("translator:", "ok" if ok else "FAILED")
# whole development except Properties/* (those are compiled by each check with a direct coqc)
ok, out = lib.coq_make([], timeout=3000)
print(out[-3000:]); print("coq make:", "ok" if ok else "FAILED", "%.0fs" % (time.time() - t0))
exe, out = lib.ensure_runner()
print("model runner:", exe or ("FAILED\n" + out[-3000:]))
bins, out = lib.ensure_rust()
print("rust:", bins or ("FAILED\n" + out[-3000:]))
print("setup done in %.0fs" % (time.time() - t0))
sys.exit(0 if (ok and exe and bins) else 1)
