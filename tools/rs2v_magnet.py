"""rs2v plug-in for C10: the table-like parts of src/magnet_link.rs and src/metainfo.rs.

GenMagnet.v carries, re-read from the Rust source on every run:
  * the byte classes `MagnetLink::push_value` leaves unescaped and the case of its `%XX` escapes,
  * the literal pieces `to_url` pushes, in order, and whether the value after each goes through
    `push_value` (escaped) or is pushed raw,
  * the literals of `parse` (topic key and prefix, hex length, the keys of the second loop),
  * whether `Metainfo::trackers` is the announce-then-tiers / skip-seen iterator the model mirrors.
Narrow grammar: each function body must match its template after white-space normalisation;
anything else is Untranslatable (translated = false), never a guess."""
import re, sys
_m = sys.modules.get("__main__")
if not hasattr(_m, "Untranslatable"):       # imported by something other than rs2v.py run as a script
    import rs2v as _m
Untranslatable, read, strip_comments, strip_tests = _m.Untranslatable, _m.read, _m.strip_comments, _m.strip_tests


def norm(s):
    return " ".join(s.split())


def fn_body(src, header_re, what):
    m = re.search(header_re, src)
    if not m:
        raise Untranslatable(what + " not found")
    i = src.index("{", m.end() - 1)
    depth, j = 0, i
    while j < len(src):
        if src[j] == "{":
            depth += 1
        elif src[j] == "}":
            depth -= 1
            if depth == 0:
                return norm(src[i + 1:j])
        j += 1
    raise Untranslatable(what + ": unbalanced braces")


def blist(s):
    return "[" + "; ".join(str(b) for b in s.encode()) + "]"


def byte_lit(t):
    """b'x' / b'\\'' -> int"""
    m = re.fullmatch(r"b'(\\?.)'", t)
    if not m:
        raise Untranslatable("byte literal %r" % t)
    c = m.group(1)
    if c.startswith("\\"):
        if c[1] not in "'\\":
            raise Untranslatable("escape %r" % t)
        c = c[1]
    if ord(c) > 127:
        raise Untranslatable("non-ASCII byte literal %r" % t)
    return ord(c)


PUSH = r'(Self::push_value\(&mut query, %s\)|query\.push_str\(%s\));'


def gen_magnet(repo):
    src = strip_comments(strip_tests(read(repo, "src/magnet_link.rs")))
    # --- push_value
    pv = fn_body(src, r"fn push_value\(query: &mut String, value: &str\) \{", "MagnetLink::push_value")
    m = re.fullmatch(r'for byte in value\.bytes\(\) \{ match byte \{ (.*?) => query\.push\(byte\.into\(\)\), '
                     r'_ => query\.push_str\(&format!\("%\{byte:02(X|x)\}"\)\), \} \}', pv)
    if not m:
        raise Untranslatable("push_value body is not the expected match: %r" % pv)
    safe = set()
    for alt in m.group(1).split(" | "):
        alt = alt.strip()
        r = re.fullmatch(r"(b'\\?.')\.\.=(b'\\?.')", alt)
        if r:
            lo, hi = byte_lit(r.group(1)), byte_lit(r.group(2))
            if lo > hi:
                raise Untranslatable("empty range %r" % alt)
            safe.update(range(lo, hi + 1))
        else:
            safe.add(byte_lit(alt))
    upper = m.group(2) == "X"
    # --- to_url
    tu = fn_body(src, r"pub\(crate\) fn to_url\(&self\) -> Url \{", "MagnetLink::to_url")
    e = re.escape
    tmpl = (e('let mut url = Url::parse("magnet:").invariant_unwrap("`magnet:` is valid URL"); ')
            + r'let mut query = format!\("([^"{}]*)\{\}", self\.infohash\); '
            + r'if let Some\(name\) = &self\.name \{ query\.push_str\("([^"\\]*)"\); ' + PUSH % ("name", "name") + r' \} '
            + r'for tracker in &self\.trackers \{ query\.push_str\("([^"\\]*)"\); '
            + PUSH % (e("tracker.as_str()"), e("tracker.as_str()")) + r' \} '
            + r'for peer in &self\.peers \{ query\.push_str\("([^"\\]*)"\); '
            + PUSH % (e("&peer.to_string()"), e("&peer.to_string()")) + r' \} '
            + r'if !self\.indices\.is_empty\(\) \{ query\.push_str\("([^"\\]*)"\); '
            + e("for (i, selection_index) in self.indices.iter().enumerate() { if i > 0 { query.push(','); } "
                "query.push_str(&selection_index.to_string()); } } url.set_query(Some(&query)); url"))
    m = re.fullmatch(tmpl, tu)
    if not m:
        raise Untranslatable("to_url body is not the expected sequence: %r" % tu)
    g = m.groups()
    parts = [(g[0], False), (g[1], g[2].startswith("Self::push_value")), (g[3], g[4].startswith("Self::push_value")),
             (g[5], g[6].startswith("Self::push_value")), (g[7], False)]
    # --- parse
    pa = fn_body(src, r"fn parse\(text: &str\) -> Result<Self, MagnetLinkParseError> \{", "MagnetLink::parse")
    m1 = re.search(r'if url\.scheme\(\) != "([a-z]+)" \{', pa)
    m2 = re.search(r'for \(k, v\) in url\.query_pairs\(\) \{ if k\.as_ref\(\) == "([^"\\]*)" \{ '
                   r'if let Some\(infohash\) = v\.strip_prefix\("([^"\\]*)"\) \{ if infohash\.len\(\) != (\d+) \{', pa)
    m3 = re.search(r'for \(k, v\) in url\.query_pairs\(\) \{ match k\.as_ref\(\) \{ "([^"\\]*)" => link\.add_tracker\(Url::parse\(&v\)'
                   r'.*?, "([^"\\]*)" => link\.set_name\(v\), "([^"\\]*)" => link\.add_peer\(HostPort::from_str\(&v\).*?, _ => \{\} \} \}', pa)
    if not (m1 and m2 and m3):
        raise Untranslatable("parse body does not have the expected two loops")
    # --- Metainfo::trackers
    ms = strip_comments(strip_tests(read(repo, "src/metainfo.rs")))
    tb = fn_body(ms, r"pub\(crate\) fn trackers<'a>\(&'a self\) -> impl Iterator<Item = Result<Url>> \+ 'a \{", "Metainfo::trackers")
    want = ("let mut seen = HashSet::new(); iter::once(&self.announce) .flatten() "
            ".chain(self.announce_list.iter().flatten().flatten()) .filter_map(move |text| { if seen.contains(text) { None } "
            "else { seen.insert(text.clone()); Some(text.parse().context(error::AnnounceUrlParse)) } })")
    if tb != want:
        raise Untranslatable("Metainfo::trackers is not the announce-then-tiers / skip-seen iterator: %r" % tb)
    out = "Definition translated : bool := true.\n"
    out += "(* bytes MagnetLink::push_value leaves as they are *)\n"
    out += "Definition src_safe : list N := [" + "; ".join(str(b) for b in sorted(safe)) + "].\n"
    out += "Definition src_escape_upper : bool := %s.\n" % ("true" if upper else "false")
    out += "(* the literal pieces to_url pushes, in order; true = the value after it goes through push_value *)\n"
    out += "Definition src_parts : list (list N * bool) :=\n  [ " + ";\n    ".join(
        "(%s, %s) (* %s *)" % (blist(t), "true" if esc else "false", t) for t, esc in parts) + " ].\n"
    out += "Definition src_scheme : list N := %s.\n" % blist(m1.group(1))
    out += "Definition src_topic_key : list N := %s.\n" % blist(m2.group(1))
    out += "Definition src_topic_prefix : list N := %s.\n" % blist(m2.group(2))
    out += "Definition src_topic_hex_len : nat := %s.\n" % m2.group(3)
    out += "(* keys of the second loop: tracker, name, peer *)\n"
    out += "Definition src_parse_keys : list (list N) := [%s; %s; %s].\n" % tuple(blist(m3.group(i)) for i in (1, 2, 3))
    out += "Definition src_trackers_announce_then_tiers_skip_seen : bool := true.\n"
    return out


def gen_magnet_fallback():
    return ("Definition translated : bool := false.\nDefinition src_safe : list N := [].\n"
            "Definition src_escape_upper : bool := false.\nDefinition src_parts : list (list N * bool) := [].\n"
            "Definition src_scheme : list N := [].\nDefinition src_topic_key : list N := [].\n"
            "Definition src_topic_prefix : list N := [].\nDefinition src_topic_hex_len : nat := 0.\n"
            "Definition src_parse_keys : list (list N) := [].\n"
            "Definition src_trackers_announce_then_tiers_skip_seen : bool := false.\n")


GENERATORS = {"GenMagnet": (gen_magnet, gen_magnet_fallback, "src/magnet_link.rs, src/metainfo.rs")}
