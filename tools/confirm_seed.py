#!/usr/bin/env python3
"""confirm_seed.py <seed_out_dir> <dest_id> <check_id>[,<check_id>…]

Independently confirms a seeded breaking change produced by a sub-agent and, when it
holds up, files it under /verif/seeded/<dest_id>/:
  1. scratch worktree of /repo HEAD (outside /repo and /verif), pristine build, demo must PASS;
  2. apply patch.diff, build, demo must FAIL;
  3. the existing test suite must give exactly the baseline failures (the two always-fail tests);
  4. run the named quick checks against the change (VERIF_REPO=scratch worktree, own cache) and
     record which of them report a VIOLATION;
  5. remove the scratch worktree and its build output.
Development aid; not registered in MANIFEST.json."""
import json, os, re, shutil, subprocess, sys, time

ALWAYS_FAIL = {"subcommand::torrent::verify::tests::output_color", "subcommand::torrent::verify::tests::output_multiple"}
ROOT = os.environ.get("CONFIRM_ROOT", "/tmp/confirm")
WT = ROOT + "/repo"
TARGET = ROOT + "/target"
CACHE = ROOT + "/cache"


def sh(cmd, cwd=None, env=None, timeout=3000):
    e = dict(os.environ); e.update({"CARGO_NET_OFFLINE": "true", "CARGO_TARGET_DIR": TARGET, "CARGO_TERM_COLOR": "never"})
    if env:
        e.update(env)
    p = subprocess.run(cmd, shell=isinstance(cmd, str), cwd=cwd, env=e, stdout=subprocess.PIPE, stderr=subprocess.STDOUT, timeout=timeout)
    return p.returncode, p.stdout.decode("utf-8", "replace")


def run_demo(src, binary):
    if os.path.exists(os.path.join(src, "demo.sh")):
        first = open(os.path.join(src, "demo.sh"), errors="replace").readline()
        interp = sys.executable if first.startswith("#!") and "python" in first else "bash"
        return sh([interp, os.path.join(src, "demo.sh"), binary], timeout=900)
    if os.path.exists(os.path.join(src, "demo.py")):
        return sh([sys.executable, os.path.join(src, "demo.py"), binary], timeout=900)
    if os.path.exists(os.path.join(src, "run_demo_test.sh")):
        return sh(["bash", os.path.join(src, "run_demo_test.sh"), WT, TARGET], timeout=1800)
    return None, "no runnable demo found"


def main():
    src, dest_id, checks = sys.argv[1], sys.argv[2], sys.argv[3].split(",")
    rec = {"source_dir": src, "confirmed_at": time.strftime("%Y-%m-%dT%H:%M:%S"), "steps": []}
    os.makedirs(ROOT, exist_ok=True)
    if not os.path.isdir(WT):
        sh(["git", "-C", "/repo", "worktree", "add", "--detach", WT, "HEAD"])
    head = subprocess.run(["git", "-C", "/repo", "rev-parse", "HEAD"], stdout=subprocess.PIPE).stdout.decode().strip()
    sh(["git", "checkout", "--detach", head], cwd=WT); sh("git checkout -- . && git clean -fdq", cwd=WT)
    rec["repo_head"] = head
    ok = True
    applied_diff = ""
    # 1 pristine
    rc, out = sh(["cargo", "build", "--offline", "--bin", "imdl"], cwd=WT)
    assert rc == 0, out[-2000:]
    pristine = ROOT + "/imdl.pristine"; shutil.copy(TARGET + "/debug/imdl", pristine)
    rc, out = run_demo(src, pristine)
    rec["steps"].append({"demo_on_pristine_rc": rc, "tail": out[-600:]})
    if rc != 0:
        ok = False
    # 2 patched
    rc, out = sh(["git", "apply", os.path.join(src, "patch.diff")], cwd=WT)
    if rc != 0:   # /repo moved on since the change was written (fix commits): retry three-way, then with fuzz
        sh("git checkout -- . && git clean -fdq", cwd=WT)
        rc, out = sh(["git", "apply", "-3", os.path.join(src, "patch.diff")], cwd=WT)
        if rc != 0 or "with conflicts" in out:
            sh("git checkout -- . && git clean -fdq", cwd=WT)
            rc, out = sh("patch -p1 --fuzz=3 --no-backup-if-mismatch < %s" % os.path.join(src, "patch.diff"), cwd=WT)
        sh("git reset -q", cwd=WT)
        rec["rebased_patch"] = rc == 0
    if rc != 0:
        rec["steps"].append({"apply": out}); ok = False
    else:
        rc, out = sh(["cargo", "build", "--offline", "--bin", "imdl"], cwd=WT)
        rec["steps"].append({"build_with_change_rc": rc, "tail": out[-300:]})
        if rc != 0:
            ok = False
        else:
            patched = ROOT + "/imdl.patched"; shutil.copy(TARGET + "/debug/imdl", patched)
            rc_d, applied_diff = sh(["git", "diff"], cwd=WT)
            rc, out = run_demo(src, patched)
            rec["steps"].append({"demo_with_change_rc": rc, "tail": out[-900:]})
            if rc == 0 or rc is None:
                ok = False
            # 3 test suite
            rc, out = sh(["cargo", "test", "--offline", "--no-fail-fast", "--workspace"], cwd=WT)
            failed = set(re.findall(r"^test (\S+) \.\.\. FAILED", out, re.M))
            passed = len(re.findall(r"^test \S+ \.\.\. ok", out, re.M))
            rec["steps"].append({"test_suite": {"passed": passed, "failed": sorted(failed)}})
            if failed != ALWAYS_FAIL or passed < 276:
                ok = False
            # 4 our checks against the change
            caught = {}
            for cid in checks:
                rc, out = sh(["./check", cid, "--tier", "quick"], cwd="/verif",
                             env={"VERIF_REPO": WT, "VERIF_CACHE": CACHE, "VERIF_EVIDENCE": ROOT + "/evidence"}, timeout=1800)
                lines = [l for l in out.splitlines() if l.startswith(("VIOLATION", "OK ", "KNOWN-FINDING", "  ["))]
                caught[cid] = {"rc": rc, "lines": lines[:6]}
            rec["checks"] = caught
    sh("git checkout -- . && git clean -fdq", cwd=WT)
    rec["confirmed"] = ok
    print(json.dumps(rec, indent=1))
    if ok:
        dest = os.path.join("/verif/seeded", dest_id)
        os.makedirs(dest, exist_ok=True)
        for fn in os.listdir(src):
            if os.path.isfile(os.path.join(src, fn)):
                shutil.copy(os.path.join(src, fn), dest)
        meta = {}
        mp = os.path.join(src, "meta.json")
        if os.path.exists(mp):
            try:
                meta = json.load(open(mp))
            except Exception:
                meta = {"raw": open(mp).read()}
        if rec.get("rebased_patch"):
            shutil.copy(os.path.join(src, "patch.diff"), os.path.join(dest, "patch.original.diff"))
            open(os.path.join(dest, "patch.diff"), "w").write(applied_diff)
        meta["confirmation"] = rec
        meta["caught_by"] = sorted(c for c, v in rec.get("checks", {}).items() if v["rc"] == 1 and any(l.startswith("VIOLATION") for l in v["lines"]))
        json.dump(meta, open(os.path.join(dest, "meta.json"), "w"), indent=1)
        print("filed under", dest, "caught_by", meta["caught_by"])
    return 0 if ok else 1


if __name__ == "__main__":
    sys.exit(main())
