#!/usr/bin/env python3
"""mark_caught.py <seed-id> <check-id> <note> — record that a seeded change missed at first is reported since a check was
strengthened (development aid; the claim is re-established by tools/recheck_seeds.py)."""
import json, sys, time
sid, cid, note = sys.argv[1:4]
p = "/verif/seeded/%s/meta.json" % sid
m = json.load(open(p))
m["caught_by"] = sorted(set(m.get("caught_by") or []) | {cid})
m["caught_note"] = "missed by the first %s run; %s (%s)" % (cid, note, time.strftime("%Y-%m-%d"))
json.dump(m, open(p, "w"), indent=1)
